"""Synthesise small but complete Source BSP files for C10, byte by byte, WITHOUT using the
implementation's writers (so a writer defect cannot hide in the test data).

A `Variant` picks the BSP version / lump layout / header order / static-prop version / which lumps are
LZMA-compressed; `build(variant, rng)` returns the file bytes.  Every lump that has a parsed view
is non-empty (so "cleared" is observable as b''), every loop body of every reader and writer runs at
least once (so the dynamic view dependencies equal the static ones on the non-Vitamin layouts),
floats are float32-representable, angles are in [0, 360), node/leaf bounds are integral.

The struct formats below are copied from bsp.py's layout tables on purpose (not imported): if the
source changes a format the files stop parsing, which the check reports.
"""
import struct, io, zipfile, lzma

# ----------------------------------------------------------------------------- layouts

STD = dict(
    FACE='<H??i4h4sif5iHHI', FACEID='<H', EDGE='<HH', PRIMITIVE='<HHHHH', PRIMINDEX='<H',
    NODE='<iii6hHHh2x', LEAF='<ihh6h4Hh2x', LEAFFACE='<H', LEAFBRUSH='<H', AREA_OFF=7,
    LEAFWATERDATA='<ffH2x', BRUSHSIDE='<HhhH', STATICPROPLEAF='<H',
)
V19 = dict(STD, LEAF='<ihh6h4Hh24s2x')
INFRA = dict(STD, PRIMITIVE='<IIIHH')
VITAMIN = dict(STD, LEAF='<ihh6I4HhBx', FACE='<5i4iB3x', BRUSHSIDE='<IIhBB', NODE='<iii6iHHh2x')
CHAOS = dict(
    STD, FACE='<I??xx5i4sif5i3I', FACEID='<I', EDGE='<II', PRIMITIVE='<IIIII', PRIMINDEX='<I',
    NODE='<iii6fIIhxx', LEAF='<iii6f4Ii', LEAFFACE='<I', LEAFBRUSH='<I', AREA_OFF=17,
    LEAFWATERDATA='<ffI', BRUSHSIDE='<IiiHxx', STATICPROPLEAF='<I',
)
LAYOUTS = {'STD': STD, 'V19': V19, 'INFRA': INFRA, 'VITAMIN': VITAMIN, 'CHAOS': CHAOS}

# lump ids
L = dict(
    ENTITIES=0, PLANES=1, TEXDATA=2, VERTEXES=3, VISIBILITY=4, NODES=5, TEXINFO=6, FACES=7, LIGHTING=8,
    OCCLUSION=9, LEAFS=10, FACEIDS=11, EDGES=12, SURFEDGES=13, MODELS=14, WORLDLIGHTS=15, LEAFFACES=16,
    LEAFBRUSHES=17, BRUSHES=18, BRUSHSIDES=19, AREAS=20, AREAPORTALS=21, DISPINFO=26, ORIGINALFACES=27,
    PHYSDISP=28, PHYSCOLLIDE=29, VERTNORMALS=30, GAME_LUMP=35, LEAFWATERDATA=36, PRIMITIVES=37, PRIMVERTS=38,
    PRIMINDICES=39, PAKFILE=40, CLIPPORTALVERTS=41, CUBEMAPS=42, TEXDATA_STRING_DATA=43,
    TEXDATA_STRING_TABLE=44, OVERLAYS=45, LEAFMINDISTTOWATER=46, LIGHTING_HDR=53, FACES_HDR=58, MAP_FLAGS=59,
    OVERLAY_FADES=60, OVERLAY_SYSTEM_LEVELS=61, PHYSLEVEL=62,
)


class Variant:
    def __init__(self, name, version, layout, magic=b'VBSP', l4d2=False, sprp=(5, 60), comma=True,
                 compress=(), game_compress=(), extra_game=True, revision=7, shapes=True,
                 lump_versions=None, game_flags=None, lzma=False, spice=None, empty=()):
        self.name, self.version, self.layout, self.magic, self.l4d2 = name, version, layout, magic, l4d2
        self.sprp, self.comma = sprp, comma
        self.compress = tuple(compress)             # lump ids stored LZMA-compressed
        self.game_compress = tuple(game_compress)   # game lump ids (bytes) stored LZMA-compressed
        self.extra_game, self.revision, self.shapes = extra_game, revision, shapes
        self.lump_versions = dict(lump_versions or {})
        self.game_flags = dict(game_flags or {})
        self.lzma = lzma
        self.empty = tuple(empty)   # of 'overlays', 'hdr', 'faces': lumps left empty (a reader then skips what its writer still fetches)
        self.spice = spice       # name of a post-processing step of the lumps (SPICES)

    @property
    def vitamin(self):
        return self.layout == 'VITAMIN'

    def describe(self):
        return {'name': self.name, 'version': self.version, 'layout': self.layout, 'l4d2': self.l4d2,
                'sprp': list(self.sprp), 'compress': list(self.compress),
                'game_compress': [g.decode('latin-1') for g in self.game_compress], 'revision': self.revision}


VARIANTS = [
    # --- one per layout / header order / static-prop version, nothing compressed (cheap: all 2-subsets are run on these)
    Variant('v19-hl2', 19, 'V19', sprp=(5, 60), comma=True, lump_versions={L['LEAFS']: 0, L['LIGHTING']: 1}),
    Variant('v20-v4props', 20, 'STD', sprp=(4, 56), comma=True, extra_game=False, revision=0),
    Variant('v20-v6props', 20, 'STD', sprp=(6, 64), comma=True, lump_versions={L['LEAFS']: 1, L['FACES']: 1}, revision=123456),
    Variant('v20-v7lm', 20, 'STD', sprp=(7, 72), comma=True),
    Variant('v20-tf2', 20, 'STD', sprp=(10, 72), comma=True, revision=-3),
    Variant('v20-mesa', 20, 'STD', sprp=(11, 80), comma=True),
    Variant('v21-csgo', 21, 'STD', sprp=(11, 80), comma=False, lump_versions={L['LEAFS']: 1, L['ENTITIES']: 0},
            game_flags={b'xtra': 2}),
    Variant('v21-l4d2', 21, 'STD', l4d2=True, sprp=(9, 72), comma=False,
            lump_versions={L['LEAFS']: 1, L['LIGHTING']: 1, L['PAKFILE']: 3}),
    Variant('v21-asw-v8', 21, 'STD', sprp=(8, 68), comma=False),
    Variant('v22-infra', 22, 'INFRA', sprp=(10, 76), comma=False),
    Variant('v25-chaos', 25, 'CHAOS', sprp=(13, 88), comma=False, lump_versions={L['LEAFS']: 2}),
    Variant('v43-vitamin', 43, 'VITAMIN', magic=b'FART', sprp=(11, 80), comma=False),
    # --- LZMA (each compressed lump costs ~25 ms per save in the implementation: fewer sequences are run on these)
    Variant('v20-tf2-lzma', 20, 'STD', sprp=(10, 72), comma=True,
            compress=(L['PLANES'], L['FACES'], L['LEAFWATERDATA'], L['LIGHTING']),
            game_compress=(b'sprp',), lump_versions={L['LEAFS']: 1, L['FACES']: 1}, revision=99, lzma=True),
    Variant('v21-l4d2-lzma', 21, 'STD', l4d2=True, sprp=(9, 72), comma=False,
            compress=(L['ENTITIES'], L['PHYSCOLLIDE'], L['AREAS']),
            game_compress=(b'xtra',), lump_versions={L['LEAFS']: 1, L['LIGHTING']: 1}, lzma=True),
    Variant('v21-asw-lzma-game', 21, 'STD', sprp=(8, 68), comma=False, game_compress=(b'sprp', b'dprp', b'xtra'), lzma=True),
    Variant('v25-chaos-lzma', 25, 'CHAOS', sprp=(13, 88), comma=False, compress=(L['FACES_HDR'], L['EDGES'], L['TEXDATA']),
            game_compress=(b'dprp',), lump_versions={L['LEAFS']: 2}, lzma=True),
    Variant('v43-vitamin-lzma', 43, 'VITAMIN', magic=b'FART', sprp=(11, 80), comma=False,
            compress=(L['BRUSHSIDES'], L['NODES']), lzma=True),
]
# maps on which a reader skips a dependency that its writer still fetches (no overlays, LDR only, no faces at all)
VARIANTS.append(Variant('v20-ldr-nooverlays', 20, 'STD', sprp=(6, 64), comma=True, empty=('overlays', 'hdr')))
VARIANTS.append(Variant('v21-nofaces', 21, 'STD', sprp=(9, 72), comma=False, empty=('faces', 'overlays')))
VARIANTS.append(Variant('v19-ldr', 19, 'V19', sprp=(5, 60), comma=True, empty=('hdr',), lump_versions={L['LEAFS']: 0}))
# failing parsers: the view access raises, the caller catches it and saves anyway — nothing may be lost
VARIANTS.append(Variant('v20-bad-props-version', 20, 'STD', sprp=(10, 72), comma=True, spice='props-unknown-version'))
VARIANTS.append(Variant('v21-corrupt-cubemaps', 21, 'STD', sprp=(9, 72), comma=False, spice='cubemaps-truncated',
                        compress=(L['CUBEMAPS'],), lzma=True))
VARIANTS.append(Variant('v25-chaos-frac', 25, 'CHAOS', sprp=(12, 80), comma=False, lump_versions={L['LEAFS']: 2},
                        spice='chaos-fractional-bounds'))

# Inputs OUTSIDE the domain the check claims (ASSUMPTIONS of p_c10): each reproduces an open known finding.
SPICE_VARIANTS = [
    Variant('spice-no-zero-vertex', 20, 'STD', sprp=(10, 72), spice='no-zero-vertex'),
    Variant('spice-faceids-missing', 20, 'STD', sprp=(10, 72), spice='faceids-missing'),
    Variant('spice-output-delay-digits', 20, 'STD', sprp=(10, 72), spice='output-delay-digits'),
]
VARIANT_BY_NAME = {v.name: v for v in VARIANTS + SPICE_VARIANTS}


def _spice_chaos_frac(lumps, game, v):
    lay = LAYOUTS[v.layout]
    sz = struct.calcsize(lay['LEAF']); d = bytearray(lumps[L['LEAFS']])
    for i, delta in ((1, -0.5), (2, 0.25)):
        rec = list(struct.unpack_from(lay['LEAF'], d, sz * i)); rec[3] += delta; rec[8] += 0.75
        struct.pack_into(lay['LEAF'], d, sz * i, *rec)
    lumps[L['LEAFS']] = bytes(d)
    sz = struct.calcsize(lay['NODE']); d = bytearray(lumps[L['NODES']])
    rec = list(struct.unpack_from(lay['NODE'], d, 0)); rec[3] -= 0.25; rec[6] += 0.125
    struct.pack_into(lay['NODE'], d, 0, *rec)
    lumps[L['NODES']] = bytes(d)


def _spice_no_zero_vertex(lumps, game, v):
    lumps[L['VERTEXES']] = struct.pack('<fff', 1.0, 1.0, 1.0) + lumps[L['VERTEXES']][12:]


def _spice_faceids_missing(lumps, game, v):
    lumps[L['FACEIDS']] = b''


def _spice_delay(lumps, game, v):
    assert b'0.25' in lumps[L['ENTITIES']]
    lumps[L['ENTITIES']] = lumps[L['ENTITIES']].replace(b'0.25', b'0.1234567')


def _spice_props_version(lumps, game, v):
    for i, (gid, flags, ver, data) in enumerate(game):
        if gid == b'sprp':
            game[i] = (gid, flags, 99, data)


def _spice_cubemaps_truncated(lumps, game, v):
    lumps[L['CUBEMAPS']] = lumps[L['CUBEMAPS']][:-3]


SPICES = {'props-unknown-version': _spice_props_version, 'cubemaps-truncated': _spice_cubemaps_truncated,
          'chaos-fractional-bounds': _spice_chaos_frac, 'no-zero-vertex': _spice_no_zero_vertex,
          'faceids-missing': _spice_faceids_missing, 'output-delay-digits': _spice_delay}


# ----------------------------------------------------------------------------- helpers

LZMA_FILT = {'id': lzma.FILTER_LZMA1, 'dict_size': 1 << 24, 'lc': 3, 'lp': 0, 'pb': 2}


def source_lzma(data: bytes) -> bytes:
    """Valve's LZMA container (independent re-implementation of the header layout)."""
    comp = lzma.compress(data, lzma.FORMAT_RAW, filters=[LZMA_FILT])
    props = (LZMA_FILT['pb'] * 5 + LZMA_FILT['lp']) * 9 + LZMA_FILT['lc']
    return struct.pack('<4sIIBI', b'LZMA', len(data), len(comp), props, LZMA_FILT['dict_size']) + comp


def rle(row: bytes) -> bytes:
    out = bytearray()
    i = 0
    while i < len(row):
        if row[i]:
            out.append(row[i]); i += 1
        else:
            j = i
            while j < len(row) and row[j] == 0 and j - i < 255:
                j += 1
            out += bytes([0, j - i]); i = j
    return bytes(out)


def f32(x):
    return struct.unpack('<f', struct.pack('<f', x))[0]


# ----------------------------------------------------------------------------- the world

def build_lumps(v: Variant, rng):
    """Returns (lumps: {id: bytes}, game_lumps: [(id, flags, version, bytes)], info dict)."""
    lay = LAYOUTS[v.layout]
    vit = v.vitamin
    lumps = {}
    k = rng.randrange(0, 3)          # small size variation

    # vertexes: vertex 0 is the origin (the surfedge writer appends one otherwise)
    verts = [(0.0, 0.0, 0.0), (64.0, 0.0, 0.0), (64.0, 64.0, 0.0), (0.0, 64.0, 0.0), (0.0, 0.0, 128.5),
             (64.0, 0.0, 128.5), (32.25, 16.0, -8.0)] + [(float(8 * i), -4.0, 2.5) for i in range(k)]
    lumps[L['VERTEXES']] = b''.join(struct.pack('<fff', *p) for p in verts)
    # edges: edge 0 is the dummy (0,0); every edge is used by a surfedge, in first-use order
    edges = [(0, 0), (0, 1), (1, 2), (2, 0), (2, 3), (3, 0), (0, 4), (4, 5), (5, 1), (1, 6), (6, 2)]
    lumps[L['EDGES']] = b''.join(struct.pack(lay['EDGE'], a, b) for a, b in edges)
    surfedges = [1, 2, 3, -3, 4, 5, 6, 7, 8, -1, 9, 10, -2]
    lumps[L['SURFEDGES']] = b''.join(struct.pack('i', s) for s in surfedges)
    # planes (normal, dist, type)
    planes = [(0.0, 0.0, 1.0, 0.0, 2), (0.0, -1.0, 0.0, 0.0, 1), (0.5, 0.5, 0.70703125, 12.5, 5),
              (1.0, 0.0, 0.0, 64.0, 0), (0.0, 0.0, -1.0, 16.0, 2), (0.0, 1.0, 0.0, 64.0, 1)]
    lumps[L['PLANES']] = b''.join(struct.pack('<ffffi', *p) for p in planes)
    # textures: string table + data (distinct, no name a suffix of another so that `find` dedup is stable)
    names = ['TOOLS/TOOLSNODRAW', 'nature/water_canals03', 'Concrete/Wall01a', 'overlays/Blood_01']
    sdata = bytearray(); stable = []
    for n in names:
        stable.append(len(sdata)); sdata += n.encode('ascii') + b'\0'
    lumps[L['TEXDATA_STRING_DATA']] = bytes(sdata)
    lumps[L['TEXDATA_STRING_TABLE']] = b''.join(struct.pack('<i', o) for o in stable)
    # texdata: (reflectivity, name index, w, h)
    texdata = [(0.25, 0.5, 0.125, 0, 64, 64), (0.0625, 0.1875, 0.375, 1, 512, 256), (0.5, 0.5, 0.5, 2, 128, 128),
               (0.75, 0.0, 0.0, 3, 32, 16),
               # a "twin": the same material name as entry 0, other reflectivity and size (compilers emit these when a
               # material is used with different $basetexture sizes); a writer keyed on the name would merge them
               (0.125, 0.5, 0.75, 0, 128, 256)]
    if vit:
        lumps[L['TEXDATA']] = b''.join(struct.pack('<3f3i', *t) for t in texdata)
    else:
        lumps[L['TEXDATA']] = b''.join(struct.pack('<3f5i', *t, t[4], t[5]) for t in texdata)
    # texinfo: 16 floats, flags, texdata index  (all distinct; every texdata used in first-use order)
    texinfo = []
    for i, td in enumerate([0, 1, 2, 3, 2, 4]):
        fl = [0.25 * (i + 1), 0.0, 0.0, 4.0 * i, 0.0, -0.25, 0.0, 8.0, 0.0625, 0.0, 0.0, 0.5, 0.0, 0.0625, 0.0, 1.5 + i]
        if td == 3:   # overlay-style texinfo
            fl = [0.0, 0.0, 0.0, -99999.0, 0.0, 0.0, 0.0, -99999.0, 0.0, 0.0, 0.0, -99999.0, 0.0, 0.0, 0.0, -99999.0]
        texinfo.append((fl, [0x0, 0x8 | 0x10, 0x400, 0x80, 0x2, 0x1][i], td))
    lumps[L['TEXINFO']] = b''.join(struct.pack('<16fii', *fl, flags, td) for fl, flags, td in texinfo)

    # primitives (none in Vitamin)
    if not vit:
        primverts = [(1.5, 2.5, 3.5), (4.0, 5.0, 6.0), (7.0, 8.0, 9.25)]
        priminds = [0, 1, 2, 2, 1, 0, 1]
        prims = [(0, 0, 3, 0, 2), (1, 3, 4, 2, 1)]     # type, first_ind, ind_count, first_vert, vert_count
        lumps[L['PRIMVERTS']] = b''.join(struct.pack('<fff', *p) for p in primverts)
        lumps[L['PRIMINDICES']] = b''.join(struct.pack(lay['PRIMINDEX'], i) for i in priminds)
        lumps[L['PRIMITIVES']] = b''.join(struct.pack(lay['PRIMITIVE'], *p) for p in prims)
    else:
        lumps[L['PRIMVERTS']] = lumps[L['PRIMINDICES']] = lumps[L['PRIMITIVES']] = b''

    # faces
    def face_std(plane, side, on_node, first_edge, num_edges, ti, disp, fog, styles, lofs, area, lm, orig, nprim,
                 firstprim, smooth):
        if v.layout == 'CHAOS':
            return struct.pack(lay['FACE'], plane, side, on_node, first_edge, num_edges, ti, disp, fog, styles, lofs,
                               area, *lm, orig, nprim, firstprim, smooth)
        return struct.pack(lay['FACE'], plane, side, on_node, first_edge, num_edges, ti, disp, fog, styles, lofs,
                           area, *lm, orig, nprim, firstprim, smooth)

    nfaces = 4
    if vit:
        # plane, texinfo, dispinfo, first_edge, num_edges, lightmap mins/size, flags
        fdefs = [(0, 0, -1, 0, 3, 0, 1, 4, 5, 1), (1, 1, -1, 3, 3, 2, 3, 6, 7, 0), (2, 2, 5, 6, 4, 0, 0, 1, 1, 3),
                 (3, 4, -1, 10, 3, -2, -1, 9, 9, 0)]
        lumps[L['FACES']] = b''.join(struct.pack(lay['FACE'], *f) for f in fdefs)
        lumps[L['ORIGINALFACES']] = b''
        lumps[L['FACES_HDR']] = b''
        lumps[L['FACEIDS']] = b''.join(struct.pack(lay['FACEID'], 100 + i) for i in range(nfaces))
    else:
        # original (unsplit) faces: texinfo index is ignored on read, orig = -1
        orig = [face_std(0, False, True, 0, 3, 0, -1, -1, b'\x00\xff\xff\xff', -1, 2048.0, (0, 1, 4, 5), -1, 0, 0, 1),
                face_std(1, True, False, 3, 3, 1, -1, 0, b'\x00\x01\xff\xff', 64, 1024.5, (2, 3, 6, 7), -1, 0x8000, 0, 0)]
        lumps[L['ORIGINALFACES']] = b''.join(orig)

        def split(hdr):
            lo = 16 if hdr else 0
            return b''.join([
                face_std(0, False, True, 0, 3, 0, -1, -1, b'\x00\xff\xff\xff', lo + 0, 1024.0, (0, 1, 4, 5), 0, 0x8000 | 1, 0, 1),
                face_std(0, False, False, 3, 3, 0, -1, -1, b'\x00\xff\xff\xff', lo + 128, 1024.0, (0, 1, 2, 2), 0, 0x8000, 0, 1),
                face_std(1, True, False, 6, 4, 1, -1, 0, b'\x00\x01\xff\xff', lo + 256, 1024.5, (2, 3, 6, 7), 1, 1, 1, 0),
                face_std(3, False, True, 10, 3, 2, 4, -1, b'\x20\xff\xff\xff', lo + 512, 12.25, (-2, -1, 9, 9), 1, 0x8000 | 2, 0, 2),
            ])
        lumps[L['FACES']] = split(False)
        lumps[L['FACES_HDR']] = split(True)
        lumps[L['FACEIDS']] = b''.join(struct.pack(lay['FACEID'], 100 + i) for i in range(nfaces))

    # brushes + sides
    def side(plane, ti, disp, bevel, extra):
        if vit:
            return struct.pack(lay['BRUSHSIDE'], plane, ti, disp, bevel, extra)
        return struct.pack(lay['BRUSHSIDE'], plane, ti, disp, bevel | extra)
    sides = [side(0, 0, 0, 0, 0), side(1, 0, 0, 1, 0), side(3, 2, 0, 0, 2), side(4, 2, 1, 0, 0),
             side(5, 1, 0, 1, 4), side(2, 1, 0, 0, 0), side(0, 4, 0, 0, 0)]
    lumps[L['BRUSHSIDES']] = b''.join(sides)
    brushes = [(0, 4, 1), (4, 2, 32), (6, 1, 0x8000001)]       # first_side, count, contents
    lumps[L['BRUSHES']] = b''.join(struct.pack('<iii', *b) for b in brushes)

    # leafs
    ao = lay['AREA_OFF']
    ldefs = [  # contents, cluster, area, flags, mins, maxs, first_face, nfaces, first_brush, nbrushes, water, ambient, mindist
        (1, -1, 0, 0, (0, 0, 0), (0, 0, 0), 0, 0, 0, 1, -1, bytes(24), 65535),
        (0, 0, 1, 1 | 4, (0, 0, 0) if vit else (-64, -64, -8), (64, 64, 128), 0, 2, 1, 1, -1, bytes(range(24)), 12),
        (32, 1, 1, 2, (0, 0, 0) if vit else (-64, -64, -72), (64, 64, 8), 2, 3, 2, 2, 0, bytes(range(24, 48)), 0),
        (0, 2, 2, 0, (1, 2, 3), (4, 5, 6), 5, 1, 4, 0, 1, bytes(24), 300),
    ]
    leaffaces = [0, 1, 2, 3, 0, 3]
    if 'faces' in v.empty:
        leaffaces = []
        ldefs = [d[:6] + (0, 0) + d[8:] for d in ldefs]
    leafbrushes = [0, 1, 1, 2]
    leafs = []
    for (cont, clus, area, flags, mn, mx, ff, nf, fb, nb, water, amb, dist) in ldefs:
        if vit:
            leafs.append(struct.pack(lay['LEAF'], cont, clus, area, *mn, *mx, ff, nf, fb, nb, water, flags))
        elif v.layout == 'V19':
            leafs.append(struct.pack(lay['LEAF'], cont, clus, (area << ao) | flags, *mn, *mx, ff, nf, fb, nb, water, amb))
        else:
            leafs.append(struct.pack(lay['LEAF'], cont, clus, (area << ao) | flags, *mn, *mx, ff, nf, fb, nb, water))
    lumps[L['LEAFS']] = b''.join(leafs)
    lumps[L['LEAFFACES']] = b''.join(struct.pack(lay['LEAFFACE'], i) for i in leaffaces)
    lumps[L['LEAFBRUSHES']] = b''.join(struct.pack(lay['LEAFBRUSH'], i) for i in leafbrushes)
    lumps[L['LEAFMINDISTTOWATER']] = b''.join(struct.pack('<H', d[-1]) for d in ldefs)

    # water info (non-empty: the known defect is only visible with water data)
    water = [(8.0, -72.0, 1), (100.5, 3.25, 1)]
    lumps[L['LEAFWATERDATA']] = b''.join(struct.pack(lay['LEAFWATERDATA'], *w) for w in water)

    # nodes: node0 -> (neg: node1, pos: leaf1); node1 -> (neg: leaf2, pos: leaf3); node2 -> (leaf0, leaf0) (model 1)
    ndefs = [(0, 1, -1 - 1, (-64, -64, -72), (64, 64, 128), 0, 3, 0),
             (4, -1 - 2, -1 - 3, (-64, -64, -72), (64, 64, 8), 2, 2, 1),
             (3, -1 - 0, -1 - 0, (1, 2, 3), (4, 5, 6), 3, 1, 2)]
    if 'faces' in v.empty:
        ndefs = [d[:5] + (0, 0) + d[7:] for d in ndefs]
    nodes = []
    for (pl, neg, pos, mn, mx, ff, nf, area) in ndefs:
        if v.layout == 'CHAOS':
            nodes.append(struct.pack(lay['NODE'], pl, neg, pos, *map(float, mn), *map(float, mx), ff, nf, area))
        else:
            nodes.append(struct.pack(lay['NODE'], pl, neg, pos, *mn, *mx, ff, nf, area))
    lumps[L['NODES']] = b''.join(nodes)

    # visibility: 12 clusters -> 2 bytes per row
    nclus = 12
    rows = []
    for c in range(nclus):
        pvs = bytes([(1 << (c % 8)) if c < 8 else 0, (1 << (c - 8)) if c >= 8 else (0 if c % 3 else 0x0F)])
        pas = bytes([0xFF, 0x0F]) if c % 2 else bytes([0, 0])
        rows.append((pvs, pas))
    body = bytearray()
    offs = []
    base = 4 + 8 * nclus
    for pvs, pas in rows:
        po = base + len(body); body += rle(pvs)
        ao_ = base + len(body); body += rle(pas)
        offs.append((po, ao_))
    lumps[L['VISIBILITY']] = struct.pack('i', nclus) + b''.join(struct.pack('ii', *o) for o in offs) + bytes(body)

    # brush models + physics
    models = [((-64.0, -64.0, -72.0), (64.0, 64.0, 128.0), (0.0, 0.0, 0.0), 0, 0, 3),
              ((1.0, 2.0, 3.0), (4.0, 5.0, 6.0), (2.5, 3.5, 4.5), 2, 3, 1)]
    if 'faces' in v.empty:
        models = [m[:4] + (0, 0) for m in models]
    lumps[L['MODELS']] = b''.join(struct.pack('<9fiii', *mn, *mx, *org, node, ff, nf) for mn, mx, org, node, ff, nf in models)
    phys = bytearray()
    kv0 = b'solid {\n\t"index" "0"\n\t"mass" "50.5"\n\t}\n\x00'
    solids0 = [b'VPHY' + bytes(range(20)), b'\x01\x02\x03']
    phys += struct.pack('<iiii', 0, sum(len(s) + 4 for s in solids0), len(kv0), len(solids0))
    for s in solids0:
        phys += struct.pack('<i', len(s)) + s
    phys += kv0
    kv1 = b'solid {\n\t"index" "0"\n\t"surfaceprop" "metal"\n\t}\n\x00'
    solids1 = [bytes(range(40, 60))]
    phys += struct.pack('<iiii', 1, sum(len(s) + 4 for s in solids1), len(kv1), len(solids1))
    for s in solids1:
        phys += struct.pack('<i', len(s)) + s
    phys += kv1
    phys += struct.pack('<iiii', -1, 0, 0, 0)
    lumps[L['PHYSCOLLIDE']] = bytes(phys)

    # entities
    sep = ',' if v.comma else '\x1b'
    def out(*parts):
        return sep.join(parts)
    ents = [
        [('world_maxs', '64 64 128'), ('world_mins', '-64 -64 -72'), ('skyname', 'sky_day01_01'),
         ('classname', 'worldspawn'), ('mapversion', str(40 + k)), ('detailmaterial', 'detail/detailsprites')],
        [('model', '*1'), ('classname', 'func_brush'), ('targetname', 'br1'), ('origin', '2.5 3.5 4.5'),
         ('OnUser1', out('br1', 'Kill', '', '0.25', '-1')), ('OnUser1', out('relay', 'Trigger', 'a b', '0', '1'))],
        [('classname', 'logic_relay'), ('targetname', 'relay'), ('message', 'say "hi"\nthere\\now'),
         ('OnTrigger', out('!self', 'FireUser1', '', '1.5', '-1'))],
        [('classname', 'info_overlay_accessor'), ('OverlayID', '7'), ('origin', '1 2 3')],
        [('classname', 'prop_dynamic'), ('model', 'models/props/thing.mdl'), ('angles', '0 90 0'),
         ('rendercolor', '255 128 0')],
    ]
    txt = io.StringIO()
    for e in ents:
        txt.write('{\n')
        for key, val in e:
            esc = val.replace('\\', '\\\\').replace('"', '\\"').replace('\n', '\\n')
            txt.write(f'"{key}" "{esc}"\n')
        txt.write('}\n')
    lumps[L['ENTITIES']] = txt.getvalue().encode('ascii') + b'\x00'

    # overlays (+ fades + system levels)
    ovs = []
    for i in range(2):
        faces = [0, 2] if i == 0 else [3]
        face_ro = (i + 1) << 14 | len(faces)
        rec = struct.pack('<ihH', 7 + i, 3, face_ro) + struct.pack('<64i', *(faces + [0] * (64 - len(faces))))
        rec += struct.pack('<4f', 0.0, 1.0, 0.25, 0.75)
        rec += struct.pack('<18f', -16.0, -16.0, 0.0, -16.0, 16.0, 0.0, 16.0, 16.0, 0.0, 16.0, -16.0, 0.5,
                           1.0 + i, 2.0, 3.0, 0.0, 0.0, 1.0)
        ovs.append(rec)
    lumps[L['OVERLAYS']] = b''.join(ovs)
    lumps[L['OVERLAY_FADES']] = struct.pack('<ff', -1.0, 0.0) + struct.pack('<ff', 100.0, 2500.0)
    lumps[L['OVERLAY_SYSTEM_LEVELS']] = struct.pack('<4B', 0, 0, 0, 0) + struct.pack('<4B', 1, 3, 0, 2)

    # cubemaps
    lumps[L['CUBEMAPS']] = struct.pack('<iiii', 10, -20, 30, 0) + struct.pack('<iiii', 0, 0, 64, 7)

    # pakfile
    zbuf = io.BytesIO()
    with zipfile.ZipFile(zbuf, 'w', zipfile.ZIP_STORED) as z:
        z.writestr(zipfile.ZipInfo('materials/maps/synth/c0_0_0.vmt', (2020, 1, 2, 3, 4, 6)), '"LightmappedGeneric"\n{\n}\n')
        z.writestr(zipfile.ZipInfo('scripts/x.txt', (2021, 5, 6, 7, 8, 10)), 'x' * (5 + k))
    lumps[L['PAKFILE']] = zbuf.getvalue()

    if 'overlays' in v.empty:
        lumps[L['OVERLAYS']] = lumps[L['OVERLAY_FADES']] = lumps[L['OVERLAY_SYSTEM_LEVELS']] = b''
    if 'hdr' in v.empty:
        lumps[L['FACES_HDR']] = b''
    if 'faces' in v.empty:
        lumps[L['FACES']] = lumps[L['FACES_HDR']] = lumps[L['ORIGINALFACES']] = lumps[L['FACEIDS']] = b''

    # lumps without a parsed view: arbitrary bytes that must survive byte for byte
    for name in ('LIGHTING', 'OCCLUSION', 'WORLDLIGHTS', 'AREAS', 'AREAPORTALS', 'DISPINFO', 'PHYSDISP', 'VERTNORMALS',
                 'CLIPPORTALVERTS', 'LIGHTING_HDR', 'MAP_FLAGS', 'PHYSLEVEL'):
        n = rng.randrange(1, 40)
        lumps[L[name]] = bytes(rng.randrange(256) for _ in range(n))

    # ---- game lumps
    game = []
    # static props
    sp_ver, sp_size = v.sprp
    sp = bytearray()
    mdls = ['models/props/a.mdl', 'models/props_c17/oildrum001.mdl']
    sp += struct.pack('<i', len(mdls))
    for m in mdls:
        sp += struct.pack('<128s', m.encode('ascii'))
    leaf_arr = [1, 2, 3, 2]
    sp += struct.pack('<i', len(leaf_arr))
    sp += b''.join(struct.pack(lay['STATICPROPLEAF'], i) for i in leaf_arr)
    pdefs = [
        dict(origin=(1.0, 2.0, 3.0), angles=(0.0, 90.0, 0.0), model=0, first_leaf=0, nleaf=3, solidity=6, flags=0x02 | 0x10,
             skin=0, fades=(-1.0, 0.0), lighting=(1.0, 2.0, 19.0), fade_scale=1.0, dx=(0, 0), cpu=(0, 0, 0, 0),
             tint=(255, 255, 255), renderfx=255, xbox=False, flags2=0, scale=(1.0, 1.0, 1.0), lm=(32, 32)),
        dict(origin=(-10.5, 20.25, 0.0), angles=(270.0, 45.5, 359.0), model=1, first_leaf=3, nleaf=1, solidity=0, flags=0x01,
             skin=3, fades=(500.0, 1200.0), lighting=(-10.5, 20.25, 4.0), fade_scale=0.5, dx=(80, 95), cpu=(1, 2, 0, 3),
             tint=(10, 200, 30), renderfx=128, xbox=True, flags2=0x4, scale=(2.5, 2.5, 2.5), lm=(64, 16)),
    ]
    lightmapped = (sp_ver, sp_size) in ((7, 72), (10, 72)) or (sp_ver, sp_size, v.version) == (11, 80, 20)
    mesa = (sp_ver, sp_size, v.version) == (11, 80, 20)
    sdk2013 = lightmapped and not mesa
    eff = 7 if lightmapped else sp_ver
    sp += struct.pack('<i', len(pdefs))
    for p in pdefs:
        start = len(sp)
        sp += struct.pack('<3f3fH', *p['origin'], *p['angles'], p['model'])
        sp += struct.pack('<HHBBiff3f', p['first_leaf'], p['nleaf'], p['solidity'], 0 if lightmapped else p['flags'],
                          p['skin'], *p['fades'], *p['lighting'])
        if eff >= 5:
            sp += struct.pack('<f', p['fade_scale'])
        if eff in (6, 7):
            sp += struct.pack('<HH', *p['dx'])
        if eff >= 8:
            sp += struct.pack('<BBBB', *p['cpu'])
        if lightmapped:
            sp += struct.pack('<IHH', p['flags'], *p['lm'])
        if eff >= 7 and not sdk2013:
            sp += struct.pack('<BBBB', *p['tint'], p['renderfx'])
        if eff >= 9 and not lightmapped:
            sp += struct.pack('<?xxx', p['xbox'])
        if eff >= 10 or mesa:
            sp += struct.pack('<I', p['flags2'])
        if (sp_ver, sp_size) == (13, 88):
            sp += struct.pack('<fff', 2.5, 1.0, 0.5) if p['model'] else struct.pack('<fff', 1.0, 1.0, 1.0)
        elif eff >= 11:
            sp += struct.pack('<f', p['scale'][0])
        assert len(sp) - start == sp_size, (v.name, len(sp) - start, sp_size)
    game.append((b'sprp', v.game_flags.get(b'sprp', 0), sp_ver, bytes(sp)))

    # detail props
    dp = bytearray()
    dmdls = ['models/props_foliage/grass1.mdl']
    dp += struct.pack('<i', len(dmdls))
    for m in dmdls:
        dp += struct.pack('<128s', m.encode('ascii'))
    sprites = [(-4.0, 8.0, 4.0, 0.0, 0.0, 0.0, 0.25, 0.5), (-2.0, 3.0, 2.0, 0.0, 0.5, 0.0, 0.75, 0.5)]
    dp += struct.pack('<i', len(sprites))
    for s in sprites:
        dp += struct.pack('<8f', *s)
    FMT = '<3f3fHH4BI5B3xB3xf'
    details = [
        # origin, angles, mdl, leaf, rgba, styles, style_count, sway, shape_ang, shape_size, orient, type, scale
        ((1.0, 2.0, 3.0), (0.0, 45.0, 0.0), 0, 1, (10, 20, 30, 255), 0, 0, 0, 0, 1, 0, 0, 1.0),
        ((4.0, 5.0, 6.5), (0.0, 0.0, 0.0), 0, 2, (1, 2, 3, 4), 5, 1, 9, 0, 1, 2, 1, 1.5),
        ((7.0, 8.0, 9.0), (0.0, 180.0, 0.0), 1, 2, (255, 255, 255, 255), 0, 0, 3, 0, 1, 1, 1, 0.75),
    ]
    if v.shapes:
        details += [
            ((-1.0, -2.0, -3.0), (0.0, 10.0, 0.0), 1, 3, (9, 8, 7, 6), 0, 0, 2, 30, 12, 0, 2, 2.0),
            ((-4.0, -5.0, -6.0), (0.0, 20.0, 0.0), 0, 1, (5, 5, 5, 5), 0, 0, 0, 45, 7, 0, 3, 0.5),
        ]
    dp += struct.pack('<i', len(details))
    for (org, ang, mdl, leaf, rgba, styles, scount, sway, sang, ssize, orient, typ, scale) in details:
        dp += struct.pack(FMT, *org, *ang, mdl, leaf, *rgba, styles, scount, sway, sang, ssize, orient, typ, scale)
    game.append((b'dprp', v.game_flags.get(b'dprp', 0), 4, bytes(dp)))
    if v.extra_game:
        n = rng.randrange(1, 50)
        game.append((b'xtra', v.game_flags.get(b'xtra', 0), 2, bytes(rng.randrange(1, 256) for _ in range(n))))
    info = {'brush_ents': [1], 'nfaces': nfaces, 'has_water': True, 'shapes': v.shapes}
    return lumps, game, info


def assemble(v: Variant, lumps, game) -> bytes:
    """Header, 64 lump entries, revision, then the lump bodies (in index order, 4-byte aligned like
    real compilers do), the game lump with its directory."""
    buf = bytearray()
    buf += struct.pack('<4si', v.magic, v.version)
    table_at = len(buf)
    buf += bytes(16 * 64)
    buf += struct.pack('<i', v.revision)
    entries = {}
    for lid in range(64):
        while len(buf) % 4:
            buf += b'\0'
        if lid == L['GAME_LUMP']:
            start = len(buf)
            glist = list(game)
            dummy = bool(glist) and (glist[-1][0] in v.game_compress)
            buf += struct.pack('<i', len(glist) + (1 if dummy else 0))
            dir_at = len(buf)
            buf += bytes(16 * (len(glist) + (1 if dummy else 0)))
            recs = []
            for i, (gid, flags, gver, data) in enumerate(glist):
                comp = gid in v.game_compress
                body = source_lzma(data) if comp else data
                recs.append((gid[::-1], flags | (1 if comp else 0), gver, len(buf), len(data)))
                buf += body
                if i != len(glist) - 1:
                    buf += b'\0'
            if dummy:
                recs.append((b'\0\0\0\0', 0, 0, len(buf), 0))
            for i, r in enumerate(recs):
                struct.pack_into('<4sHHii', buf, dir_at + 16 * i, *r)
            entries[lid] = (start, len(buf) - start, v.lump_versions.get(lid, 0), 0)
            continue
        data = lumps.get(lid, b'')
        if lid in v.compress and data:
            body = source_lzma(data)
            entries[lid] = (len(buf), len(body), v.lump_versions.get(lid, 0), len(data))
        else:
            body = data
            entries[lid] = (len(buf), len(body), v.lump_versions.get(lid, 0), 0)
        buf += body
    for lid in range(64):
        off, ln, ver, four = entries[lid]
        if v.l4d2:
            struct.pack_into('<4i', buf, table_at + 16 * lid, ver, off, ln, four)
        else:
            struct.pack_into('<4i', buf, table_at + 16 * lid, off, ln, ver, four)
    return bytes(buf)


def build(v: Variant, rng):
    lumps, game, info = build_lumps(v, rng)
    if v.spice:
        SPICES[v.spice](lumps, game, v)
    return assemble(v, lumps, game), lumps, game, info
