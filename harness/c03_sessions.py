"""C03 — tokenizer-level SESSIONS: the stream of a text must not depend on what other tokenizer objects of the
same process did before.

A session is a list of calls made one after the other on ONE import of srctools.tokenizer:
  * 'ops'   — a tokenizer over (text, options, delivery) driven by client operations call / peek / push (push back the
              token last returned) / ['line', n] (tok.line_num = n) and then ABANDONED, typically with tokens still
              pushed back, or after an error (unterminated string / comment, stray closer);
  * 'abort' — the same, but the chunk iterator raises in the middle (so the tokenizer is abandoned inside
              _handle_string / _handle_comment / a bare word);
  * 'full'  — a fresh Tokenizer over a generated text with random options and chunking, run to EOF or error (always the
              last call of a session; may also appear earlier).
Every 'ops'/'full' call is compared with the Lean model (drv_c03 ops "ops"/"run": a pure function of the call).
The property itself: the result of the last call after the history == its result in a pristine import.
"""
import importlib
import io
import sys

from common import codes, uncodes, ddmin
import tokutil
import c03_guard as G

OPS = ['call', 'peek', 'push']


class _Abort(Exception):
    pass


def fresh_classes():
    """(Tokenizer, TokenSyntaxError) of a NEW import of srctools.tokenizer from the working tree: pristine class
    state. The module registered in sys.modules is put back afterwards."""
    name = 'srctools.tokenizer'
    pkg = sys.modules.get('srctools')
    orig = sys.modules.pop(name, None)
    try:
        mod = importlib.import_module(name)
    finally:
        if orig is not None:
            sys.modules[name] = orig
            if pkg is not None:
                setattr(pkg, 'tokenizer', orig)
    return mod.Tokenizer, mod.TokenSyntaxError


def _aborting(chunks, after):
    for i, c in enumerate(chunks):
        if i >= after:
            raise _Abort()
        yield c
    raise _Abort()


def _data(c):
    chunks = [uncodes(x) for x in c['chunks']]
    if c['mode'] == 'abort':
        return _aborting(chunks, c['after'])
    if c['str']:
        return chunks[0]
    d = c.get('delivery', 'list')
    if d == 'gen':
        return (x for x in chunks)
    if d == 'stringio':
        return io.StringIO(''.join(chunks))
    return list(chunks)


CALL_LIMIT_S = 2.0


def run_call(classes, c):
    """One call on the implementation -> JSON-able observation; under the wall-clock watchdog (the token loops below
    are bounded by the proved n+2 tokens, the watchdog covers loops inside a single call)."""
    ok, r = G.retrying(lambda: _run_call(classes, c), CALL_LIMIT_S)
    return r if ok else {'exc': f'no result within {CALL_LIMIT_S} s of CPU time (twice)', 'hang': True}


def hangs(r):
    """Did this result of a call show non-termination (token budget or watchdog)?"""
    return bool(r.get('hang')) or str(r.get('exc', '')).startswith('no EOF or error')


def _run_call(classes, c):
    Tokenizer, TSE = classes
    kw = dict(zip(tokutil.OPT_NAMES, c['opts']))
    try:
        tok = Tokenizer(_data(c), None, **kw)
    except Exception as e:
        return {'exc': f'{type(e).__name__}: {e}'}
    if c['mode'] == 'full':
        n = sum(len(x) for x in c['chunks'])
        toks = []
        res = {'toks': toks, 'err': None}
        try:
            for _ in range(n + 3):
                k, v = tok()
                toks.append([k.value, codes(v), tok.line_num])
                if k.value == 0:
                    break
            else:
                res['exc'] = f'no EOF or error after {n + 3} tokens'
        except TSE as e:
            res['err'] = tokutil.err_code(e)
        except Exception as e:
            res['exc'] = f'{type(e).__name__}: {e}'
        return res
    out, last = [], None
    for op in c['ops']:
        try:
            if op == 'call':
                k, v = tok()
                last = (k, v)
                out.append(['call', k.value, codes(v), tok.line_num])
            elif op == 'peek':
                k, v = tok.peek()
                last = (k, v)
                out.append(['peek', k.value, codes(v), tok.line_num])
            elif op == 'push':
                if last is not None:
                    tok.push_back(*last)
                    out.append(['push'])
            else:
                tok.line_num = op[1]
                out.append(['line', op[1]])
        except TSE as e:
            out.append(['err'] + tokutil.err_code(e))
            break
        except _Abort:
            out.append(['abort'])
            break
        except Exception as e:
            out.append(['exc', f'{type(e).__name__}: {e}'])
            break
    return {'obs': out}


def run_session(classes, calls):
    return [run_call(classes, c) for c in calls]


def model_req(c):
    """The driver request predicting call `c` (None for 'abort' calls: they are history only)."""
    text = ''.join(uncodes(x) for x in c['chunks'])
    base = {'opts': c['opts'], 'chunks': c['chunks'], 'str': c['str'], 'fold': tokutil.fold_table(text)}
    if c['mode'] == 'full':
        return dict(base, op='run')
    if c['mode'] == 'ops':
        return dict(base, op='ops', ops=c['ops'])
    return None


def model_expect(c, reply):
    if c['mode'] == 'full':
        r = dict(reply)
        r.pop('calls', None)
        return r
    return {'obs': reply.get('obs', reply)}


# --------------------------------------------------------------------------- generation

SNIPPETS = ['"k" "v"', '"SomeOption" "1" }', 'a b', 'key { "a" "b" }\n', '"a"\r\n"b"', 'x=1,y', '#Base "f"\n', '[flag] (args)',
            '"k" "v" }', 'a\n}', '{', 'a // c\nb', '\ufeffa', '']
BROKEN = ['"unterminated', '"a\\', 'a /* open', 'a ]', 'a )', "a ' b", '(never closed', '[flag', 'x / y', '"k" "v\r\n']


def _cut(s, rng):
    if not s:
        return rng.choice([[], [''], ['', '']])
    ps = sorted({rng.randrange(1, max(2, len(s))) for _ in range(rng.randrange(0, 5))})
    out, last = [], 0
    for p in ps:
        if p < len(s):
            out.append(s[last:p])
            last = p
    out.append(s[last:])
    if rng.random() < 0.3:
        out.insert(rng.randrange(len(out) + 1), '')
    return out


def _opts(rng):
    r = rng.random()
    if r < 0.3:
        return list(tokutil.DEFAULT_OPTS)
    if r < 0.5:
        return [True, True, True, False, False, False, False]       # what Keyvalues.parse uses
    return [rng.random() < 0.5 for _ in range(7)]


def _source(rng, text):
    if rng.random() < 0.35:
        return {'chunks': [codes(text)], 'str': True}
    return {'chunks': [codes(x) for x in _cut(text, rng)], 'str': False, 'delivery': rng.choice(['list', 'list', 'gen', 'stringio'])}


def gen_abandoned(rng, gen_doc):
    r = rng.random()
    if r < 0.45:
        text = rng.choice(SNIPPETS)
    elif r < 0.7:
        text = rng.choice(SNIPPETS) + ' ' + rng.choice(BROKEN)
    else:
        text = gen_doc(rng)[:rng.randrange(5, 80)]
    c = {'mode': 'ops', 'opts': _opts(rng)}
    c.update(_source(rng, text))
    if c.get('delivery') == 'stringio' and '\r' in text:
        c['delivery'] = 'list'           # the chunks sent to the model must be the chunks delivered
    if c.get('delivery') == 'stringio':
        c['chunks'] = [codes(x) for x in io.StringIO(text)]
    if rng.random() < 0.2 and not c['str']:
        c['mode'] = 'abort'
        c['after'] = rng.randrange(0, len(c['chunks']) + 1)
        c['ops'] = ['call'] * rng.randrange(1, 8)
        return c
    ops = []
    for _ in range(rng.randrange(1, 9)):
        x = rng.random()
        ops.append('call' if x < 0.45 else 'peek' if x < 0.75 else 'push' if x < 0.93 else ['line', rng.choice([1, 2, 7, 100])])
    # leave something behind more often than not
    if rng.random() < 0.7:
        ops += rng.choice([['peek'], ['call', 'push'], ['peek', 'push'], ['call', 'push', 'push'], [['line', 42], 'peek']])
    c['ops'] = ops
    return c


def gen_full(rng, gen_doc):
    r = rng.random()
    if r < 0.3:
        text = rng.choice(SNIPPETS)
    elif r < 0.4:
        text = rng.choice(SNIPPETS) + rng.choice(BROKEN)
    else:
        text = gen_doc(rng, noisy=rng.random() < 0.2)[:rng.randrange(10, 200)]
    c = {'mode': 'full', 'opts': _opts(rng)}
    c.update(_source(rng, text))
    if c.get('delivery') == 'stringio':
        c['chunks'] = [codes(x) for x in io.StringIO(text)]
    return c


def gen_session(rng, gen_doc):
    calls = []
    for _ in range(rng.randrange(1, 5)):
        calls.append(gen_abandoned(rng, gen_doc) if rng.random() < 0.85 else gen_full(rng, gen_doc))
    calls.append(gen_full(rng, gen_doc))
    return calls


# --------------------------------------------------------------------------- the property on a session

def pristine(c):
    """Result of call `c` on a pristine import."""
    return run_call(fresh_classes(), c)


def session_fails(calls):
    """Does the LAST call give a different result after the history than on a pristine import?"""
    after = run_session(fresh_classes(), calls)[-1]
    return after != pristine(calls[-1])


def shrink(calls):
    """ddmin over the history (the last call stays), then over the operations of each remaining call."""
    last = calls[-1]
    pre = list(ddmin(calls[:-1], lambda cs: session_fails(list(cs) + [last]))) if len(calls) > 2 else list(calls[:-1])
    for i, c in enumerate(pre):
        if c['mode'] == 'ops' and len(c['ops']) > 1:
            def f(ops, i=i, c=c):
                return session_fails(pre[:i] + [dict(c, ops=list(ops))] + pre[i + 1:] + [last])
            if f(c['ops']):
                pre[i] = dict(c, ops=list(ddmin(c['ops'], f)))
    return pre + [last]


def describe(calls):
    out = []
    for c in calls:
        text = ''.join(uncodes(x) for x in c['chunks'])
        how = 'str' if c['str'] else f"{c.get('delivery', 'list')} of {len(c['chunks'])} chunk(s)"
        if c['mode'] == 'full':
            out.append(f'Tokenizer({text!r} as {how}) run to the end')
        elif c['mode'] == 'abort':
            out.append(f'Tokenizer({text!r}) whose iterator raises after {c["after"]} chunk(s), abandoned')
        else:
            out.append(f'Tokenizer({text!r} as {how}) ops {c["ops"]}, abandoned')
    return '; '.join(out)
