"""C05 — Angle stays in [0,360), frozen values never change, text form is canonical."""
import json, math, struct
from fractions import Fraction
import common
from common import ddmin
import c05_ops
from c05_ops import bits, unbits, NAN_BITS

PID = 'C05'
GENS = ['angles', 'frozen']
DRIVERS = ['drv_c05']
PROPS = 'Srctools.Props.C05'
RULE = ("scalars: every k*360 +- j ulp (|k| <= 40 and k = +-10^3..10^15, j <= 3), -10^-k and 10^-k (k <= 330), values that round "
        "to zero or sit on a tie at 6 places (+-4.9e-7, +-5e-7, -1e-9, m/2^k ties), values around 2^32 and 2^53, random bit "
        "patterns over the whole exponent range and random decimals; each is pushed through Angle(x,0,0).pitch, the setter, "
        "x % 360.0, format_float, float(text) and compared bit for bit / character for character with the binary64 model; "
        "random pairs through + - * / fmod % as well. programs: random API programs (<= 30 steps + final prints) over all six "
        "classes (constructors in all forms, setters, *=, @, @=, transform, to_angle, from_basis, copy/deepcopy/pickle/"
        "freeze/thaw, str/repr/join/from_str, forbidden writes to frozen objects), executed on the implementation with "
        "range/frame/frozen-hash/text checks after every step and replayed on the Lean state machine (math.degrees results "
        "are the oracle inputs of _to_angle) with the fields compared bit for bit after every step. A case is non-trivial when "
        "normalisation or rounding changes the value (scalars) or when the program contains an in-place operation, a "
        "rotation and a frozen object (programs); distinct by content.")
TRUSTED = ["model: lean/Srctools/Model/B64.lean (exact binary64: rne, +,-,*,/, fmod, CPython float_rem, '%.6f', format_float, "
           "float(str), parse_vec_str) and Model/C05.lean (Angle/Vec state machine whose slot writes take the class of the "
           "source site from Gen.Angles)",
           "trigonometry (math.sin/cos/atan2/degrees, matrix products) is not modelled: the values returned by math.degrees "
           "are recorded from outside and given to the model as raw inputs of MatrixBase._to_angle",
           "C05_norm_range is proved for every RoundingSystem; binary64 round-to-nearest-even is proved to be one (b64RS: nearest "
           "representable value, hence monotone across binades; identity on representables; 0 and 360 representable), the bit "
           "model's + and * are proved to be rne∘exact and its x % 360.0 % 360.0 is proved equal to the abstract norm2Q "
           "(C05_norm_b64_is_abstract), so the range theorem for doubles is an instance of the abstract one. That CPython's float "
           "arithmetic is this bit model is established by the bit-exact comparison of this run only",
           "Gen.Frozen's reading of the source (an object bound to `X.__new__(X)`, to a constructor call with float arguments, or "
           "returned by a factory is new; `self` of a @final mutable class is never a frozen object) is the translator's: it is the "
           "hypothesis `Reading` of C05_frozen; the program fuzz checks every live frozen object after every step",
           "_math.pyx (Cython twin) is not covered"]
NOT_MODELLED = ["_math.pyx", "sin/cos/atan2/sqrt/hypot: matrices built by trigonometry (from_yaw/from_angle/axis_angle/from_basis/"
                "inverse) and the raw _to_angle inputs are oracle values; matrix products, transpose, copies, __setitem__, "
                "forward/left/up and vector rotation ARE modelled and compared bit for bit",
                "format specs other than the default in __format__",
                "float() literals with underscores, non-ASCII white space in parse_vec_str",
                "non-finite values: overflow of a product to inf gives nan fields (open finding overflow-nonfinite)"]
ASSUMPTIONS = ["inputs are finite doubles; products formed by `*` stay finite (excluded class of finding overflow-nonfinite)",
               "never '-0': outside the class negRoundsToZero (negative values that round to zero at 6 places; open finding "
               "text-minus-zero, pinned by the repo's tests)",
               "text round trip through float(): the decimal value of the text is within 5e-7 (proved); the re-parsed double is within "
               "5e-7 + ulp/2, which exceeds 5e-7 visibly only for 2^32 <= |x| < 2^33 (open finding parse-back-binade32)"]
LEVEL_TEXT = ("Lean theorems: C05_norm_range (0 <= x % 360 % 360 < 360 for every rounding system that is monotone and fixes 0 and 360) and "
              "C05_norm_range_b64 (the same for the exact binary64 bit model); C05_mod1_not_enough (-1e-14 % 360.0 == 360.0); "
              "C05_angle_inv (any history of the Angle state machine keeps all fields in [0,360) provided every source write site is "
              "norm2/copyField/zero — decided by C05_gen_angles_ok on the sites regenerated from math.py; instantiated for binary64 "
              "and for every rounding system) and C05_angle_inv_needs_norm2; C05_frame_machine / C05_frozen_machine (an API call "
              "changes at most its mutable target; frozen objects never) and C05_frozen (heap frame theorem for the store sites "
              "accepted by C05_gen_frozen_ok); C05_frame_machine_obj/_mat, C05_frozen_machine_all, C05_angle_inv_all (the machine "
              "extended with Matrix/FrozenMatrix objects: all six classes); C05_rne_nearest, C05_rne_is_rounding_system, "
              "C05_b64_ops_are_rne, C05_norm_b64_is_abstract, C05_norm_range_unified; C05_text_shape(_bits), "
              "C05_text_minus_zero_iff (+ witness, partial, angle corollary), C05_text_close(_bits), C05_text_parse_back, "
              "C05_vec_text_roundtrip (parse_vec_str(str(v)) as coded, every component within 1e-6), "
              "C05_text_parse_back_not_5e7. The binary64 model, format_float, float(str), parse_vec_str and the state "
              "machine are compared bit for bit with CPython / the implementation on every run.")
LEVEL_NOTE = ("Trusted: Lean kernel + propext/Classical.choice/Quot.sound; tools/gen_angles.py, tools/gen_frozen.py; the harness. "
              "Trigonometry is an oracle (not modelled); _math.pyx not covered. "
              "Three open findings outside the proved domain: '-0' for small negative vector components (pinned by the repo's "
              "tests), overflow to nan, re-parsed double in [2^32,2^33).")
TECHNIQUE = "Lean 4 proof (abstract rounding system + exact binary64 bit model, invariant by induction over histories, frame theorems, digit-level text proofs) + translator + bit-exact differential correspondence"
DESIGN_REF = "DESIGN.md section 6, C05"


# ---------------------------------------------------------------------------- scalar cases

def ulp_step(x, j):
    for _ in range(abs(j)):
        x = math.nextafter(x, math.inf if j > 0 else -math.inf)
    return x


def scalar_cases(ctx):
    rng = ctx.rng
    xs = []
    ks = list(range(-40, 41)) + [s * 10 ** e for e in range(3, 16) for s in (1, -1)] + [2 ** e for e in range(10, 60, 7)]
    for k in ks:
        base = float(k * 360)
        for j in range(-3, 4):
            xs.append(ulp_step(base, j))
    for k in range(0, 331):
        xs += [-10.0 ** -k, 10.0 ** -k]
    xs += list(c05_ops.SPECIAL)
    for v in (4.9e-7, 5e-7, 5.0000001e-7, 4.9999999e-7, 1e-9, 1.5e-6, 2.5e-6, 0.5, 1.5, 2.5, 0.0078125, 0.0234375, 1e-6, 9.999995e-1,
              0.9999995, 0.99999949999, 359.9999995, 359.99999949, 99999.9999995, 2.0 ** 32, 2.0 ** 33, 2.0 ** 53, 2.0 ** 63,
              5932227029.9674835, 1.7976931348623157e308, 2.2250738585072014e-308, 4.9406564584124654e-324):
        for j in (-2, -1, 0, 1, 2):
            xs += [ulp_step(v, j), -ulp_step(v, j)]
    # exact ties at 6 places: (2n+1)/2^k with k <= 6 scaled... m * 2^-7 .. 2^-20 have finite expansions ending in 5
    for _ in range(ctx.budget(2000, 20000)):
        k = rng.randrange(7, 30)
        xs.append(rng.choice([-1, 1]) * (rng.randrange(0, 2 ** 20) + rng.randrange(1, 2 ** k, 2) / 2 ** k))
    for _ in range(ctx.budget(20000, 300000)):
        b = rng.getrandbits(64)
        if (b >> 52) & 0x7ff == 0x7ff:
            continue
        xs.append(unbits(b))
    for _ in range(ctx.budget(10000, 150000)):
        xs.append(c05_ops.gen_value(rng, wide=True))
    for _ in range(ctx.budget(5000, 50000)):
        xs.append(rng.uniform(2.0 ** 31, 2.0 ** 34) * rng.choice([-1, 1]))
    return [x for x in xs if x == x and abs(x) != math.inf]


def impl_scalar(smath, x):
    """what the implementation does with the finite double x"""
    a = smath.Angle(x, 0.0, 0.0)
    b = smath.Angle()
    b.yaw = x
    b.pitch = x
    b.roll = x
    c = smath.FrozenAngle(0.0, 0.0, x)
    d = smath.Angle()
    d['roll'] = x
    t = smath.format_float(x)
    return {'norm': [bits(a.pitch), bits(b.yaw), bits(c.roll), bits(d.roll), bits(b.pitch), bits(b.roll)], 'fmt': t}


def _wit(ctx, key, what, inp, per_key=3):
    """ctx.witness with a cap per key (the framework keeps the first 50 overall)"""
    if sum(1 for w in ctx.witnesses if w['key'] == key) >= per_key:
        ctx.count('witnesses')
        ctx.count('witness:' + key)
        return
    ctx.count('witness:' + key)
    ctx.witness(key, what, inp)


def _dis(ctx, case, impl, model, where, per_where=4):
    if sum(1 for d in ctx.disagreements if d['where'] == where) >= per_where:
        ctx.count('disagreements')
        return
    ctx.disagree(case, impl, model, where)


def check_scalar(ctx, x, r):
    """the property itself on one scalar"""
    case = {'scalar': bits(x)}
    for nb in r['norm']:
        v = unbits(nb)
        if not (0.0 <= v < 360.0):
            _wit(ctx, 'angle-range', f'an angle field set from {x!r} reads {v!r}', case)
    for key, what in c05_ops.check_token(r['fmt'], x):
        _wit(ctx, key, f'format_float({x!r}): {what}', case)


def _tofloat(t):
    try:
        return float(t)
    except ValueError:
        return None


def _fmod(a, b):
    try:
        return math.fmod(a, b)
    except ValueError:
        return float('nan')


def correspond(ctx, drivers):
    import srctools.math as smath
    drv = drivers['drv_c05']
    rng = ctx.rng
    # ---- what the translator obligations say, as evaluated by the model
    g = drv.batch([{'op': 'gen'}])[0]
    ctx.extra['gen'] = {k: g[k] for k in ('anglesOK', 'angleSlotsOK', 'modelSitesOK', 'sitesCovered', 'frozenOK', 'copiesOK')}
    ctx.extra['gen_bad'] = {'angle_sites': g['badAngleSites'], 'stores': g['badStores'][:12]}
    for k in ('anglesOK', 'angleSlotsOK', 'modelSitesOK', 'sitesCovered', 'frozenOK', 'copiesOK'):
        if not g[k]:
            ctx.broken.append(f'gen:{k} false: ' + '; '.join((g['badAngleSites'] + g['badStores'])[:6]))
    # ---- scalars
    xs = scalar_cases(ctx)
    impl = []
    for x in xs:
        r = impl_scalar(smath, x)
        impl.append(r)
        check_scalar(ctx, x, r)
        ctx.case({'x': bits(x)}, nontrivial=(x < 0 or x >= 360 or _tofloat(r['fmt']) != x), sample_every=7919)
    xb = [bits(x) for x in xs]
    texts = [r['fmt'] for r in impl]
    extra_txt = []
    for x in xs[::3]:
        c = rng.random()
        extra_txt.append(repr(x) if c < 0.5 else '%.17g' % x if c < 0.7 else '%.3f' % x if c < 0.8 else '%.12e' % x if c < 0.9 else '%+.8f' % x)
    extra_txt += ['1.', '.5', '+3', '-.25e1', '1E2', 'inf', '-Infinity', 'nan', 'x', '', '.', '-', 'e5', '1e', '1e+', '0x10', '--1', '1.2.3',
                  '1e400', '1e-400', '-1e-400', '123456789012345678901234567890', '0.' + '0' * 400 + '1', '4.9e-324', '2.47e-324', '2.48e-324']
    reqs = [{'op': 'norm', 'x': xb}, {'op': 'mod1', 'x': xb}, {'op': 'fmt', 'x': xb},
            {'op': 'parse', 's': [[ord(c) for c in t] for t in texts + extra_txt]}]
    # arithmetic of the model itself against CPython
    n = ctx.budget(20000, 200000)
    pa = [rng.choice(xs) for _ in range(n)]
    pb = [rng.choice(xs) if rng.random() < 0.7 else pa[i] * rng.choice([1.0, -1.0, 2.0, 0.5, 1 + 2 ** -52, 3.0]) for i in range(n)]
    pb = [y if y == y and abs(y) != math.inf else 1.0 for y in pb]
    fns = {'add': lambda a, b: a + b, 'sub': lambda a, b: a - b, 'mul': lambda a, b: a * b,
           'div': lambda a, b: a / b if b != 0 else None, 'fmod': _fmod,
           'pymod': lambda a, b: a % b if b != 0 else None}
    for f in fns:
        reqs.append({'op': 'arith', 'f': f, 'a': [bits(a) for a in pa], 'b': [bits(b) for b in pb]})
    rep = drv.batch(reqs, timeout=1200)
    m_norm, m_mod1, m_fmt, m_parse = rep[0]['r'], rep[1]['r'], rep[2]['r'], rep[3]['r']
    for i, x in enumerate(xs):
        for nb in impl[i]['norm']:
            if nb != m_norm[i]:
                _dis(ctx, {'x': xb[i]}, impl[i]['norm'], m_norm[i], 'x % 360 % 360 through Angle')
                break
        if bits(x % 360.0) != m_mod1[i]:
            _dis(ctx, {'x': xb[i]}, bits(x % 360.0), m_mod1[i], 'x % 360.0 (CPython)')
        if [ord(c) for c in impl[i]['fmt']] != m_fmt[i]:
            _dis(ctx, {'x': xb[i]}, impl[i]['fmt'], ''.join(map(chr, m_fmt[i])), 'format_float')
        ctx.traces_vs_impl += 1
    for t, mp in zip(texts + extra_txt, m_parse):
        try:
            want = bits(float(t)) if '_' not in t and t.strip() == t else None
        except ValueError:
            want = None
        if want != mp:
            _dis(ctx, {'text': t}, want, mp, 'float(str)')
        ctx.count('parse')
    for f, rr in zip(fns, rep[4:]):
        for a, b, mr in zip(pa, pb, rr['r']):
            w = fns[f](a, b)
            w = None if w is None else bits(w)
            if w != mr:
                _dis(ctx, {'f': f, 'a': bits(a), 'b': bits(b)}, w, mr, 'binary64 ' + f)
            ctx.count('arith:' + f)
    ctx.count('scalars', len(xs))
    # ---- parse_vec_str
    pv = [c05_ops.gen_text(rng, True, nonfinite=True) for _ in range(ctx.budget(3000, 30000))]
    rep = drv.batch([{'op': 'pvs', 's': [ord(c) for c in t]} for t in pv])
    sentinel = (object(), object(), object())
    for t, mr in zip(pv, rep):
        if '_' in t:
            continue
        got = smath.parse_vec_str(t, *sentinel)
        want = None if got[0] is sentinel[0] else [bits(v) for v in got]
        if want != mr['r']:
            _dis(ctx, {'text': t}, want, mr['r'], 'parse_vec_str')
        ctx.count('parse_vec_str')
        ctx.case({'pvs': t}, nontrivial=want is not None, sample_every=9973)
    # ---- programs
    run_programs(ctx, drv, smath, ctx.budget(1500, 15000), model=True)


def nontrivial_program(prog):
    ops = {s['op'] for s in prog}
    return bool(ops & {'set', 'iscale', 'imatmul', 'transform', 'vibin'}) and bool(ops & {'matmul', 'imatmul', 'to_angle', 'transform'}) \
        and any(s.get('frozen') or s['op'] == 'freeze' for s in prog)


def run_programs(ctx, drv, smath, n, model):
    runner = c05_ops.Runner(smath)
    rng = ctx.rng
    batch, meta = [], []
    for i in range(n):
        prog = c05_ops.gen_program(rng, rng.randrange(8, 31))
        res = runner.run(prog)
        for k, v in res['counts'].items():
            ctx.count('op:' + k, v)
        ctx.count('programs')
        ctx.count('objects', res['nobj'])
        ctx.case({'program': prog}, nontrivial=nontrivial_program(prog), sample_every=1013)
        seen = set()
        for (key, what, sid) in res['witnesses']:
            if key in seen:
                continue
            seen.add(key)
            record_witness(ctx, runner, key, what, prog)
        if model and drv is not None:
            for mo in res['mops']:
                ctx.count('model-op:' + mo[0])
            batch.append({'op': 'seq', 'ops': res['mops']})
            meta.append((prog, res))
    if not batch:
        return
    rep = drv.batch(batch, timeout=1200)
    for (prog, res), mr in zip(meta, rep):
        ctx.traces_vs_impl += 1
        if 'error' in mr:
            _dis(ctx, {'program': prog}, 'ok', mr['error'], 'state machine: driver error')
            continue
        for j, (ex, ob) in enumerate(zip(res['expect'], mr['obs'])):
            if ex is None:
                continue
            if ex != ob:
                _dis(ctx, {'program': prog, 'model_op': res['mops'][j]}, ex, ob, f'state machine, model op {j}')
                break
        else:
            fin = mr['final']
            for (mid, kc, sn) in res['final']:
                if mid >= len(fin) or fin[mid] != [kc] + sn:
                    _dis(ctx, {'program': prog, 'object': mid}, [kc] + sn, fin[mid] if mid < len(fin) else None, 'state machine, final state')
                    break
            else:
                mfin = mr['mfinal']
                for (mmid, fz, sn) in res['mfinal']:
                    ctx.count('matrices-compared')
                    if mmid >= len(mfin) or mfin[mmid] != [fz, sn]:
                        _dis(ctx, {'program': prog, 'matrix': mmid}, [fz, sn], mfin[mmid] if mmid < len(mfin) else None, 'state machine, final matrices')
                        break


def record_witness(ctx, runner, key, what, prog):
    """shrink the program for this witness key, then report"""
    ctx.count('witness:' + key)
    if sum(1 for w in ctx.witnesses if w['key'] == key) >= 3:
        ctx.count('witnesses')
        return

    def fails(p):
        try:
            return any(k == key for (k, _, _) in runner.run(p)['witnesses'])
        except Exception:
            return False
    small = prog
    try:
        if fails(prog):
            small = ddmin(prog, fails, budget=250)
            w2 = [w for (k, w, _) in runner.run(small)['witnesses'] if k == key]
            if w2:
                what = w2[0]
    except Exception:
        small = prog
    ctx.witness(key, f'{what}   [program of {len(small)} step(s): ' + '; '.join(describe(s) for s in small[:8]) + ']',
                {'program': small})


def describe(s):
    d = {k: v for k, v in s.items() if k not in ('op', 'id')}
    for k in ('v', 'd', 'tuple'):
        if k in d and isinstance(d[k], list):
            d[k] = [unbits(b) for b in d[k]]
        elif k in d and isinstance(d[k], int):
            d[k] = unbits(d[k])
    return f"#{s['id']} {s['op']} {json.dumps(d, default=str)}"


def search(ctx):
    """The property itself on the implementation: more programs (no model), scalar neighbours of anything that
    disagreed, and direct probes of the three clauses."""
    import srctools.math as smath
    runner = c05_ops.Runner(smath)
    if ctx.evaluations == 0:      # the driver could not be built: run the scalar oracle here
        for x in scalar_cases(ctx):
            check_scalar(ctx, x, impl_scalar(smath, x))
    # neighbours of disagreeing scalars
    for d in ctx.disagreements[:20]:
        c = d['case']
        if 'x' in c:
            x = unbits(c['x'])
            for j in range(-4, 5):
                y = ulp_step(x, j)
                if y == y and abs(y) != math.inf:
                    check_scalar(ctx, y, impl_scalar(smath, y))
        if 'program' in c:
            res = runner.run(c['program'])
            for (key, what, sid) in res['witnesses'][:3]:
                record_witness(ctx, runner, key, what, c['program'])
    # the witnesses of repaired findings must pass now (they act as a fixed corpus)
    for k in common.load_known(PID):
        if k.get('status') != 'fixed':
            continue
        w = k.get('witness') or {}
        ctx.count('corpus')
        if 'program' in w:
            for (key, what, sid) in runner.run(w['program'])['witnesses'][:2]:
                _wit(ctx, key, f'repaired finding {k["key"]} is back: {what}', {'program': w['program']})
        elif 'scalar' in w:
            x = unbits(w['scalar'])
            check_scalar(ctx, x, impl_scalar(smath, x))
    run_programs(ctx, None, smath, ctx.budget(1500, 20000), model=False)
    # rotations of multiples of 45 degrees: results sit exactly on the 0/360 seam
    rng = ctx.rng
    for _ in range(ctx.budget(3000, 40000)):
        a = [float(rng.randrange(8) * 45) for _ in range(3)]
        b = [float(rng.randrange(8) * 45) for _ in range(3)]
        prog = [{'id': 0, 'op': 'ang', 'frozen': rng.random() < 0.5, 'how': 'num', 'v': [bits(v) for v in a]},
                {'id': 1, 'op': 'ang', 'frozen': rng.random() < 0.5, 'how': 'num', 'v': [bits(v) for v in b]},
                {'id': 2, 'op': 'matmul', 'a': 0, 'b': 1}, {'id': 3, 'op': 'str', 'src': 2, 'how': 'str'}]
        res = runner.run(prog)
        ctx.count('seam-products')
        for (key, what, sid) in res['witnesses'][:2]:
            record_witness(ctx, runner, key, what, prog)
            break


def replay(ctx, payload):
    import srctools.math as smath
    inp = payload.get('input') or {}
    if 'program' in inp:
        res = c05_ops.Runner(smath).run(inp['program'])
        for s in inp['program']:
            print('  ', describe(s))
        for (k, w, sid) in res['witnesses']:
            print('  FAIL', k, w)
        bad = [w for w in res['witnesses'] if w[0] not in ()]
        return not bad
    if 'scalar' in inp:
        x = unbits(inp['scalar'])
        n0 = len(ctx.witnesses)
        r = impl_scalar(smath, x)
        check_scalar(ctx, x, r)
        print('x =', repr(x), 'normalised', [unbits(b) for b in r['norm']], 'format_float', repr(r['fmt']))
        for w in ctx.witnesses[n0:]:
            print('  FAIL', w['key'], w['what'])
        return len(ctx.witnesses) == n0
    print('replay file names a broken obligation/correspondence, no input to replay:', payload.get('broken_obligations'),
          payload.get('disagreements', [])[:1])
    return False


def replay_known(ctx, finding):
    import srctools.math as smath
    w = finding.get('witness') or {}
    if 'program' in w:
        res = c05_ops.Runner(smath).run(w['program'])
        return any(k == finding['key'] for (k, _, _) in res['witnesses'])
    if 'scalar' in w:
        c = common.Ctx(PID, ctx.tier, ctx.seed)
        x = unbits(w['scalar'])
        check_scalar(c, x, impl_scalar(smath, x))
        return any(x['key'] == finding['key'] for x in c.witnesses)
    return None
