"""C17 helpers: generators of instance templates / placements / instance parameters (through the public
vmf API of /repo's working tree), extraction of the model's view of a template and of a collapse
result, comparators and the plain-Python statement of the property (spec oracle)."""
from __future__ import annotations
import logging, math, re
from fractions import Fraction

from common import codes, uncodes

TOL_MEM = 1e-7      # in-memory floats (plane points, UV axes): |impl - exact| <= TOL_MEM * max(1, |exact|)
TOL_TXT = 1e-5      # values that went through str(Vec)/str(Angle) (6 decimals) and back
TOL_GIMBAL = 2.5e-3  # orientation whose forward vector is within 0.0011 of vertical (to_angle drops roll there)


def quiet():
    logging.getLogger('srctools').setLevel(logging.CRITICAL)
    logging.getLogger('srctools').propagate = False
    if not logging.getLogger('srctools').handlers:
        logging.getLogger('srctools').addHandler(logging.NullHandler())


# ----------------------------------------------------------------------------------- wire helpers

def rat(x):
    f = Fraction(x)
    return [f.numerator, f.denominator]


def unrat(p):
    return Fraction(p[0], p[1])


def v3(v):
    return [rat(v[0]), rat(v[1]), rat(v[2])]


def mat_entries(m):
    return [m[0, 0], m[0, 1], m[0, 2], m[1, 0], m[1, 1], m[1, 2], m[2, 0], m[2, 1], m[2, 2]]


def m3(m):
    return [rat(x) for x in mat_entries(m)]


def ax5(a):
    return [rat(a.x), rat(a.y), rat(a.z), rat(a.offset), rat(a.scale)]


def close(impl, exact, tol):
    exact = float(exact)
    return abs(float(impl) - exact) <= tol * max(1.0, abs(exact))


# ----------------------------------------------------------------------------------- generators

ORIGINS = [(0, 0, 0), (128, -64, 32), (-1024, 512, 0), (0.5, -0.25, 1024.125), (3000, 3000, -3000)]
AXIS_ANGLES = [(p, y, r) for p in (0, 90, 180, 270) for y in (0, 90, 180, 270) for r in (0, 90, 180, 270)]
STYLE_NAMES = ['PREFIX', 'SUFFIX', 'NONE']
INST_NAMES = ['inst', 'I1', 'Room A', '@i', '!x', 'a-b', 'näme', '']
TABLES = [
    [],
    [('nm', 'door7')],
    [('nm', 'N'), ('id', '3')],
    [('id', '3'), ('idx', '77')],
    [('idx', '77'), ('id', '3')],
    [('NM', '@g'), ('x', '')],
    [('nm', '!self'), ('v.w', 'dot')],
    [('a', '1'), ('ab', '2'), ('abc', '3'), ('b', '$a')],
    [('nm', 'é✓'), ('n', 'short')],
]
NAME_POOL = ['door', 'relay1', 'Tgt', '@glob', '!activator', '', 'a-b', 'x y', 'ünï', '$nm', 'pre$nm', '$nm$id',
             'd$IDx', '!$nm', '@$nm', '$undefined', '$', 'cost$5', '$idx$id', '$ab$a$abc$b', '$Nm-$nM', 'tail$', '$n$nm',
             'npc_citizen', 'info_target']
FIXVALS = ['red', '@glob', '!act', '-5', '.5', '0.5', '12', '', 'name one', 'Δx', 'r$nm', '9lives', 'inst-red']


def rand_angle(rng):
    k = rng.random()
    if k < 0.2:
        return (0.0, 0.0, 0.0), 'identity'
    if k < 0.5:
        return tuple(float(a) for a in rng.choice(AXIS_ANGLES)), 'axis-aligned'
    if k < 0.65:
        return tuple(float(rng.randrange(0, 360, 15)) for _ in range(3)), 'multiple-of-15'
    if k < 0.69:
        # around the vertical, where Matrix.to_angle switches to its gimbal-lock branch (horizontal part <= 0.001)
        return (rng.choice([89.95, 89.99, 90.02, 270.04, 90.0, 269.9999]), rng.uniform(0, 360), rng.uniform(0, 360)), 'near-vertical'
    return tuple(rng.uniform(0, 360) for _ in range(3)), 'random'


def rand_origin(rng):
    k = rng.random()
    if k < 0.2:
        return (0.0, 0.0, 0.0), 'zero'
    if k < 0.5:
        return tuple(float(x) for x in rng.choice(ORIGINS)), 'fixed'
    if k < 0.75:
        return tuple(float(rng.randrange(-4096, 4097, 16)) for _ in range(3)), 'grid'
    return tuple(rng.uniform(-4096, 4096) for _ in range(3)), 'random'


def rand_point(rng, lim=512):
    if rng.random() < 0.6:
        return tuple(float(rng.randrange(-lim, lim + 1, 8)) for _ in range(3))
    return tuple(round(rng.uniform(-lim, lim), rng.choice([0, 1, 3, 6])) for _ in range(3))


def fmt_vec(p):
    return ' '.join(repr(float(x)) if float(x) != int(x) else str(int(x)) for x in p)


def fold_table(strings):
    """Per-character case fold of the non-ASCII characters of `strings` as [[cp, folded cp]] (characters whose
    str.casefold() is not a single character are left out: they fold to themselves in the model)."""
    out = {}
    for st in strings:
        for c in st:
            if ord(c) > 127 and c not in out:
                f = c.casefold()
                if len(f) == 1:
                    out[c] = f
    return [[ord(c), ord(f)] for c, f in sorted(out.items())]


def _lw(c):
    if 'A' <= c <= 'Z':
        return c.lower()
    if ord(c) > 127:
        f = c.casefold()
        return f if len(f) == 1 else c
    return c


_FOLD_OK = {}


def fold_model_applies(key_chars, text_chars):
    """The model compares a (casefolded) key character a with a text character b as a == lw(b), folds matched names
    with map lw and classifies identifier characters through lw. Check on Python itself (re.IGNORECASE / str.casefold)
    that this is what happens for the characters at hand; otherwise the case is outside the table model."""
    for b in text_chars:
        if b in _FOLD_OK:
            ok = _FOLD_OK[b]
        else:
            l = _lw(b)
            start = ('a' <= l <= 'z') or l == '_'
            ok = (len(b.casefold()) == 1 and b.casefold() == l
                  and bool(re.fullmatch('[a-z_]', b, re.I)) == start
                  and bool(re.fullmatch('[a-z0-9_]', b, re.I)) == (start or '0' <= b <= '9'))
            _FOLD_OK[b] = ok
        if not ok:
            return False
        for a in key_chars:
            k = (a, b)
            if k not in _FOLD_OK:
                _FOLD_OK[k] = bool(re.fullmatch(re.escape(a), b, re.I)) == (a == _lw(b))
            if not _FOLD_OK[k]:
                return False
    return True


class FoldDict(dict):
    """Snapshot of an entity's keys with the entity's own case-insensitive lookup."""

    def __init__(self, pairs):
        super().__init__((k.casefold(), v) for k, v in pairs)

    def __contains__(self, k):
        return dict.__contains__(self, k.casefold())

    def __getitem__(self, k):
        return dict.__getitem__(self, k.casefold())

    def get(self, k, d=None):
        return dict.get(self, k.casefold(), d)


def case_variant(rng, s, p=0.25):
    """Another spelling of a classname / key that the code compares case-insensitively (casefold)."""
    if rng.random() >= p or not s:
        return s
    k = rng.randrange(4)
    if k == 0:
        return s.upper()
    if k == 1:
        return s[0].upper() + s[1:]
    if k == 2:
        return '_'.join(w[:1].upper() + w[1:] for w in s.split('_'))
    return ''.join(c.upper() if rng.random() < 0.5 else c for c in s)


def rand_name(rng):
    return rng.choice(NAME_POOL)


def plain_name(rng):
    return rng.choice(['door', 'relay1', 'Tgt', 'a-b', 'x y', 'ünï', 'pre$nm', '$nm', 'd$IDx'])


def gen_inst_params(rng):
    return {
        'name': rng.choice(INST_NAMES),
        'style': rng.choice([0, 1, 2]),       # FixupStyle values: PREFIX 0, SUFFIX 1, NONE 2
        'fixup': list(rng.choice(TABLES)),
    }


def _rand_uv(rng, impl):
    UVAxis = impl['UVAxis']
    k = rng.random()
    if k < 0.5:
        d = rng.choice([(1, 0, 0), (0, 1, 0), (0, 0, 1), (-1, 0, 0), (0, -1, 0), (0, 0, -1)])
    else:
        d = tuple(round(rng.uniform(-1, 1), 4) for _ in range(3))
    return UVAxis(float(d[0]), float(d[1]), float(d[2]),
                  float(rng.choice([0, 16, -128, 0.5, round(rng.uniform(-512, 512), 3)])),
                  float(rng.choice([0.25, 0.5, 1, 0.125, 0.3, -0.25, 2.5])))


def _rand_brush(rng, impl, vmf):
    Vec = impl['Vec']
    while True:
        a, b = rand_point(rng), rand_point(rng)
        if all(abs(a[i] - b[i]) > 1e-3 for i in range(3)):
            break
    solid = vmf.make_prism(Vec(*a), Vec(*b), mat=rng.choice(['tools/toolsnodraw', 'brick/wall01', 'dev/dev_measuregeneric01'])).solid
    mode = rng.random()
    if mode < 0.4:
        for s in solid.sides:
            s.uaxis = _rand_uv(rng, impl)
            s.vaxis = _rand_uv(rng, impl)
    if 0.3 < mode < 0.7:
        # skew the brush: arbitrary plane points (collapse does not need a valid convex solid)
        for s in solid.sides:
            for p in s.planes:
                if rng.random() < 0.5:
                    p.x += rng.choice([0.5, -3, 0.125, round(rng.uniform(-8, 8), 2)])
                    p.z -= rng.choice([0, 1, 0.75])
    if rng.random() < 0.3:
        for _ in range(rng.choice([1, 1, 2])):
            make_disp(rng, impl, vmf, solid, rng.randrange(len(solid.sides)))
    return solid


def _rand_dir(rng):
    k = rng.random()
    if k < 0.25:
        return (0.0, 0.0, 1.0)
    if k < 0.4:
        return tuple(float(x) for x in rng.choice([(1, 0, 0), (0, -1, 0), (0, 0, -1), (0, 0, 0)]))
    v = [rng.uniform(-1, 1) for _ in range(3)]
    n = math.sqrt(sum(x * x for x in v)) or 1.0
    return tuple(round(x / n, 6) for x in v)


def make_disp(rng, impl, vmf, solid, index):
    """Replace one face of `solid` by a displacement face (power 1-3) with random per-vertex normals,
    distances, offsets, offset normals, alphas, triangle tags and (sometimes) multiblend data."""
    Side, Vec, Vec4, TriangleTag, DispFlag = impl['Side'], impl['Vec'], impl['Vec4'], impl['TriangleTag'], impl['DispFlag']
    old = solid.sides[index]
    if old.is_disp:
        return
    power = rng.choice([1, 1, 2, 3])
    new = Side(vmf, [p.copy() for p in old.planes], mat=old.mat, uaxis=old.uaxis.copy(), vaxis=old.vaxis.copy(),
               disp_power=power)
    new.disp_pos = Vec(*rand_point(rng))
    new.disp_elevation = rng.choice([0.0, 0.0, 1.5, -8.0])
    new.disp_flags = DispFlag(rng.choice([0, 1, 7, 8, 15]))
    multi = rng.random() < 0.3
    tags = [TriangleTag.STEEP, TriangleTag.WALKABLE, TriangleTag.WALKABLE | TriangleTag.BUILDABLE]
    flat = rng.random() < 0.15      # the plain "sculpted upwards" displacement: vertical normals, no offsets
    size = new.disp_size
    for y in range(size):
        for x in range(size):
            v = new[x, y]
            v.normal = Vec(0, 0, 1) if flat else Vec(*_rand_dir(rng))
            v.distance = rng.choice([0.0, 1.0, 16.0, round(rng.uniform(-64, 64), 3)])
            if not flat and rng.random() < 0.6:
                v.offset = Vec(*(round(rng.uniform(-32, 32), 3) for _ in range(3)))
            if not flat and rng.random() < 0.6:
                v.offset_norm = Vec(*_rand_dir(rng))
            v.alpha = rng.choice([0.0, 255.0, round(rng.uniform(0, 255), 2)])
            v.triangle_a = rng.choice(tags)
            v.triangle_b = rng.choice(tags)
            if multi:
                v.multi_blend = Vec4(*(round(rng.random(), 3) for _ in range(4)))
                v.multi_alpha = Vec4(*(round(rng.random(), 3) for _ in range(4)))
                if rng.random() < 0.7:
                    v.multi_colors = [Vec(*(round(rng.random(), 3) for _ in range(3))) for _ in range(4)]
    solid.sides[index] = new


ENT_MENU = ['info_target', 'logic_relay', 'func_door', 'light_spot', 'env_beam', 'info_overlay', 'ai_goal_follow',
            'prop_door_rotating', 'func_instance', 'func_brush', 'info_node_link', 'point_template', 'unknown_class_xyz',
            'light_environment', 'func_instance', 'info_node', 'info_node', 'info_node_link']


def _ang_str(rng):
    a, _ = rand_angle(rng)
    return fmt_vec(a)


def gen_template(rng, impl, n_brush=None, n_ent=None, numeric_vars=False, files=None):
    """A template map built through the public API. `files`: candidate file names of nested instances."""
    VMF, Output, Vec = impl['VMF'], impl['Output'], impl['Vec']
    vmf = VMF()
    nb = rng.randrange(0, 4) if n_brush is None else n_brush
    for _ in range(nb):
        b = _rand_brush(rng, impl, vmf)
        if rng.random() < 0.12:
            b.hidden = True
        elif rng.random() < 0.08:
            b.vis_shown = False
        vmf.add_brush(b)
    face_ids = [s.id for b in vmf.brushes for s in b.sides]
    ne = rng.randrange(0, 6) if n_ent is None else n_ent
    for _ in range(ne):
        cls = rng.choice(ENT_MENU)
        kv = {}
        if rng.random() < 0.85:
            kv['origin'] = fmt_vec(rand_point(rng))
        if rng.random() < 0.7:
            kv['angles'] = _ang_str(rng)
        if rng.random() < 0.8:
            kv['targetname'] = rand_name(rng)
        if rng.random() < 0.3:
            kv['parentname'] = rand_name(rng)
        if rng.random() < 0.2:
            kv['my_unknown_key'] = rng.choice(['keep $nm', '1 2 3', ''])
        if rng.random() < 0.2:
            kv['spawnflags'] = rng.choice(['0', '3', '$nm'])
        if cls == 'func_door':
            kv['movedir'] = _ang_str(rng)
            kv['master'] = rand_name(rng)
            kv['speed'] = rng.choice(['100', '$id', 'x$nm'])
        elif cls == 'light_spot' or cls == 'light_environment':
            kv['pitch'] = rng.choice(['-45', '0', '90', '-30.5', '270'])
            if cls == 'light_spot':
                kv['target'] = rand_name(rng)
            kv['_shadoworiginoffset'] = fmt_vec(rand_point(rng, 64))
            if rng.random() < 0.3:
                kv['yaw'] = rng.choice(['0', '45', '270.5'])
        elif cls == 'env_beam':
            kv['targetpoint'] = fmt_vec(rand_point(rng))
            kv['LightningStart'] = rand_name(rng)
            kv['LightningEnd'] = rand_name(rng)
            kv['texture'] = rng.choice(['sprites/laserbeam.spr', 'sprites/$nm.vmt'])
        elif cls == 'info_overlay':
            kv['sides'] = ' '.join(str(rng.choice(face_ids + [9999])) for _ in range(rng.randrange(0, 4))) if face_ids else '17'
            kv['BasisOrigin'] = fmt_vec(rand_point(rng))
            kv['BasisU'] = fmt_vec(rng.choice([(1, 0, 0), (0, 1, 0), (0, 0.6, 0.8)]))
            kv['BasisNormal'] = fmt_vec(rng.choice([(0, 0, 1), (0, -1, 0), (0.6, 0, 0.8)]))
            kv['uv0'] = '-16 -16 0'
        elif cls == 'ai_goal_follow':
            kv['actor'] = rng.choice(['npc_citizen', 'NPC_Citizen', 'barney', '@al', 'info_target', 'alyx1', ''])
            kv['goal'] = rand_name(rng)
        elif cls == 'prop_door_rotating':
            kv['axis'] = fmt_vec(rand_point(rng)) + ', ' + fmt_vec(rand_point(rng))
            if rng.random() < 0.12:
                # malformed VEC_AXIS (no comma): fixup_key raises ValueError in the middle of collapse_one (error path)
                kv['axis'] = fmt_vec(rand_point(rng)) + ' ' + fmt_vec(rand_point(rng))
            kv['ajarangles'] = _ang_str(rng)
            kv['model'] = 'models/props_c17/door01_left.mdl'
        elif cls == 'func_instance':
            kv['file'] = rng.choice(files) if files else rng.choice(['inner.vmf', 'sub/$nm.vmf'])
            kv['fixup_style'] = rng.choice(['0', '1', '2'])
            if rng.random() < 0.3:
                kv['$conv'] = 'hammer $nm'
        elif cls == 'info_node':
            kv['nodeid'] = str(rng.randrange(1, 5))
        elif cls == 'info_node_link':
            kv['startnode'] = str(rng.randrange(1, 5))
            kv['endnode'] = rng.choice(['1', '2', '3', '7', 'x'])
            kv['allowuse'] = rng.choice(['npc_combine_s', 'squad1', ''])
        elif cls == 'point_template':
            kv['template01'] = rand_name(rng)
            kv['Template02'] = rand_name(rng)
        if numeric_vars and 'origin' in kv and rng.random() < 0.5:
            kv['origin'] = rng.choice(['$ox 8 -8', '16 $oy $oz', '$ox $oy $oz'])
        ent = vmf.create_ent(case_variant(rng, cls), **{case_variant(rng, k, 0.15): v for k, v in kv.items()})
        if cls == 'func_instance':
            for i in range(rng.randrange(0, 4)):
                ent.fixup['$' + rng.choice(['color', 'n', 'at', 'Var', 'v2', 'long_name'])] = rng.choice(FIXVALS)
        if cls in ('func_door', 'func_brush'):
            for _ in range(rng.randrange(1, 3)):
                ent.solids.append(_rand_brush(rng, impl, vmf))
        for _ in range(rng.choice([0, 0, 1, 2, 3])):
            ent.add_out(Output(rng.choice(['OnTrigger', 'OnUser1', 'OnOpen']), rand_name(rng),
                               rng.choice(['Trigger', 'Kill', 'FireUser1']), rng.choice(['', '1', '$nm']),
                               rng.choice([0.0, 0.5, 2.0]), times=rng.choice([-1, 1])))
        if rng.random() < 0.1:
            ent.hidden = True
        elif rng.random() < 0.06:
            ent.vis_shown = False
    if rng.random() < 0.45:
        # visgroups (one of them nested) with some of the brushes / entities / entity brushes as members
        groups = [vmf.create_visgroup(rng.choice(['detail', 'Lights', 'grp $nm']), (rng.randrange(256), 10, 20))
                  for _ in range(rng.choice([1, 2]))]
        if rng.random() < 0.5:
            child = impl['VisGroup'](vmf, 'child')
            groups[0].child_groups.append(child)
            groups.append(child)
        items = list(vmf.brushes) + list(vmf.entities) + [b for e in vmf.entities for b in e.solids]
        for it in items:
            if rng.random() < 0.5:
                for g in rng.sample(groups, rng.choice([1, 1, min(2, len(groups))])):
                    it.visgroup_ids.add(g.id)
    return vmf


def vis_tree_flat(groups):
    """[(id, name, color, [child ids])] of a visgroup forest, depth first."""
    out = []
    for g in groups:
        out.append((g.id, g.name, tuple(g.color), [c.id for c in g.child_groups]))
        out += vis_tree_flat(g.child_groups)
    return out


# ----------------------------------------------------------------------------------- classification

SPECIAL_KEYS_NOTE = ("keys `yaw`, ANGLE_NEG_PITCH / EXT_ANGLE_PITCH (`pitch`), SIDE_LIST, TARG_NODE_* and `angles` on an entity "
                     "that also has pitch/yaw are outside the Lean model (checked by the direct search only)")


class Classifier:
    """Mirrors the dispatch of collapse_one/fixup_key on the FGD value type (the FGD database itself is the
    implementation's). Returns the model kind of a key or 'special'."""

    def __init__(self, impl):
        self.impl = impl
        self.cache = {}
        self.classes = impl['EntityDef'].engine_classes()

    def ent_type(self, classname):
        EntityDef, EntityTypes = self.impl['EntityDef'], self.impl['EntityTypes']
        try:
            return self.cache[classname]
        except KeyError:
            pass
        try:
            t = EntityDef.engine_def(classname)
        except KeyError:
            try:
                t = EntityDef.engine_def('_CBaseEntity_')
            except KeyError:
                t = EntityDef(EntityTypes.BASE)
        self.cache[classname] = t
        return t

    def kind(self, ent, key):
        VT = self.impl['ValueTypes']
        folded = key.casefold()
        if folded == 'origin':
            return 'pos'
        if folded == 'angles':
            return 'special' if ('pitch' in ent or 'yaw' in ent) else 'orient'
        if folded == 'yaw':
            return 'special'
        if folded in ('classname', 'hammerid', 'spawnflags'):
            return 'keep'
        try:
            kv = self.ent_type(ent['classname']).kv[folded]
        except KeyError:
            return 'keep'
        t = kv.type
        if t is VT.ANGLE_NEG_PITCH or t is VT.EXT_ANGLE_PITCH:
            return 'special' if folded == 'pitch' else 'keep'
        if t is VT.INST_VAR_REP:
            return 'keep'
        if t is VT.VEC or t is VT.VEC_ORIGIN or t is VT.VEC_LINE:
            return 'pos'
        if t is VT.ANGLES:
            return 'orient'
        if t.is_ent_name:
            return 'name'
        if t is VT.TARG_DEST_CLASS:
            return 'nameOrClass'
        if t is VT.EXT_VEC_DIRECTION:
            return 'dir'
        if t is VT.SIDE_LIST or t is VT.TARG_NODE_SOURCE or t is VT.TARG_NODE_DEST:
            return 'special:' + t.name
        if t is VT.VEC_AXIS:
            return 'axis'
        if t is VT.CHOICES:
            return 'special:CHOICES'
        return 'text'


def visible_brushes(vmf):
    return [b for b in vmf.brushes if not (b.hidden or not b.vis_shown)]


def visible_ents(vmf, keep_hidden=False):
    """Entities collapse_one copies: the visible ones when visgroups are stripped (visgroup=False), all otherwise."""
    if keep_hidden:
        return list(vmf.entities)
    return [e for e in vmf.entities if not (e.hidden or not e.vis_shown)]


def side_model(s):
    d = None
    if s.is_disp:
        d = {'pos': v3(s.disp_pos),
             'verts': [[v3(v.normal), v3(v.offset), v3(v.offset_norm), rat(v.distance), rat(v.alpha)] for v in s._disp_verts]}
    return {'p': [v3(p) for p in s.planes], 'u': ax5(s.uaxis), 'v': ax5(s.vaxis), 'd': d}


def solid_model(b):
    return [side_model(s) for s in b.sides]


def _payload_old(impl, kind, value, subst, classes):
    """Model payload of a template key value (numeric kinds: parsed after substitution by the implementation's
    own parser, which is what the code does)."""
    Vec, Angle, Matrix = impl['Vec'], impl['Angle'], impl['Matrix']
    if kind == 'pos' or kind == 'dir':
        return v3(Vec.from_str(subst(value)))
    if kind == 'axis':
        a, b = subst(value).split(',')
        return [v3(Vec.from_str(a)), v3(Vec.from_str(b))]
    if kind == 'orient':
        return m3(Matrix.from_angle(Angle.from_str(subst(value))))
    if kind == 'nameOrClass':
        return [codes(value), subst(value).casefold() in classes]
    return codes(value)


def template_model(impl, clf, vmf, subst, keep_hidden=False):
    """The model's view of the visible part of a template. `subst` is the instance's own substitute (used only
    to pre-parse numeric values and to decide the classname test, exactly where the code substitutes)."""
    ents = []
    for e in visible_ents(vmf, keep_hidden):
        keys = []
        for k, v in e.items():
            kind = clf.kind(e, k)
            if kind.startswith('special'):
                continue
            # 'angles' uses the raw (unsubstituted) value in the code; the other numeric kinds the substituted one
            sub = (lambda x: x) if k.casefold() == 'angles' else subst
            keys.append([codes(k), kind, _payload_old(impl, kind, v, sub, clf.classes)])
        ents.append({'keys': keys,
                     'outs': [codes(o.target) for o in e.outputs],
                     'fixups': [codes(v) for _, v in e.fixup.items()],
                     'solids': [solid_model(b) for b in e.solids]})
    return {'brushes': [solid_model(b) for b in visible_brushes(vmf)], 'ents': ents}


def result_view(impl, clf, old_ents, new_ents, new_brushes):
    """What the implementation produced, in float form, aligned with template_model (same key filter)."""
    Vec, Angle, Matrix = impl['Vec'], impl['Angle'], impl['Matrix']
    ents = []
    for old, e in zip(old_ents, new_ents):
        keys = []
        for k, v in e.items():
            kind = clf.kind(old, k)
            if kind.startswith('special'):
                continue
            if kind in ('pos', 'dir'):
                val = list(Vec.from_str(v))
            elif kind == 'axis':
                a, b = v.split(',')
                val = [list(Vec.from_str(a)), list(Vec.from_str(b))]
            elif kind == 'orient':
                val = mat_entries(Matrix.from_angle(Angle.from_str(v)))
            else:
                val = v
            keys.append((k, kind, val))
        ents.append({'keys': keys, 'outs': [o.target for o in e.outputs],
                     'fixups': [v for _, v in e.fixup.items()],
                     'solids': [[_side_floats(s) for s in b.sides] for b in e.solids]})
    return {'brushes': [[_side_floats(s) for s in b.sides] for b in new_brushes], 'ents': ents}


def _side_floats(s):
    d = None
    if s.is_disp:
        d = {'pos': list(s.disp_pos),
             'verts': [[list(v.normal), list(v.offset), list(v.offset_norm), v.distance, v.alpha] for v in s._disp_verts],
             # everything of the displacement that a placement must not touch
             'rest': repr((s.disp_power, s.disp_elevation, int(s.disp_flags.value), list(s.disp_allowed_vert or ()),
                           [(v.x, v.y, v.triangle_a.value, v.triangle_b.value, v.multi_blend, v.multi_alpha,
                             [tuple(c) for c in v.multi_colors] if v.multi_colors is not None else None)
                            for v in s._disp_verts]))}
    return {'p': [list(p) for p in s.planes],
            'u': [s.uaxis.x, s.uaxis.y, s.uaxis.z, s.uaxis.offset, s.uaxis.scale],
            'v': [s.vaxis.x, s.vaxis.y, s.vaxis.z, s.vaxis.offset, s.vaxis.scale],
            'd': d}


def _cmp_side(si, sm, where, out):
    for i in range(3):
        for j in range(3):
            if not close(si['p'][i][j], unrat(sm['p'][i][j]), TOL_MEM):
                out.append(f'{where}: plane point {i} coord {j}: impl {si["p"][i][j]!r} model {float(unrat(sm["p"][i][j]))!r}')
    for ax in 'uv':
        for j in range(5):
            if not close(si[ax][j], unrat(sm[ax][j]), TOL_MEM):
                out.append(f'{where}: {ax}axis field {j}: impl {si[ax][j]!r} model {float(unrat(sm[ax][j]))!r}')
    di, dm = si.get('d'), sm.get('d')
    if (di is None) != (dm is None):
        out.append(f'{where}: displacement impl {di is not None} model {dm is not None}')
    elif di is not None:
        if not all(close(di['pos'][j], unrat(dm['pos'][j]), TOL_MEM) for j in range(3)):
            out.append(f'{where}: disp_pos impl {di["pos"]} model {[float(unrat(x)) for x in dm["pos"]]}')
        if len(di['verts']) != len(dm['verts']):
            out.append(f'{where}: {len(di["verts"])} displacement vertices vs model {len(dm["verts"])}')
        else:
            for n, (vi, vm) in enumerate(zip(di['verts'], dm['verts'])):
                ok = all(close(vi[f][j], unrat(vm[f][j]), TOL_MEM) for f in range(3) for j in range(3)) and \
                    all(close(vi[f], unrat(vm[f]), TOL_MEM) for f in (3, 4))
                if not ok:
                    out.append(f'{where}: displacement vertex {n}: impl {vi} model '
                               f'{[[float(unrat(x)) for x in vm[f]] for f in range(3)] + [float(unrat(vm[3])), float(unrat(vm[4]))]}')
                    break


def _cmp_solids(bi, bm, where, out):
    if len(bi) != len(bm):
        out.append(f'{where}: {len(bi)} solids vs model {len(bm)}')
        return
    for n, (a, b) in enumerate(zip(bi, bm)):
        if len(a) != len(b):
            out.append(f'{where}[{n}]: {len(a)} sides vs model {len(b)}')
            continue
        for k, (si, sm) in enumerate(zip(a, b)):
            _cmp_side(si, sm, f'{where}[{n}].side[{k}]', out)


def gimbal(mat9):
    """forward vector (first row) almost vertical: to_angle takes the branch that cannot represent roll."""
    return math.hypot(float(mat9[0]), float(mat9[1])) <= 0.0011


def compare_result(view, model):
    """List of differences between the implementation's result and the model's reply."""
    out = []
    _cmp_solids(view['brushes'], model['brushes'], 'brush', out)
    if len(view['ents']) != len(model['ents']):
        out.append(f'{len(view["ents"])} entities vs model {len(model["ents"])}')
        return out
    for n, (ei, em) in enumerate(zip(view['ents'], model['ents'])):
        w = f'ent[{n}]'
        if len(ei['keys']) != len(em['keys']):
            out.append(f'{w}: {len(ei["keys"])} keys vs model {len(em["keys"])}')
        for (k, kind, val), (mk, mkind, mval) in zip(ei['keys'], em['keys']):
            if k != uncodes(mk) or kind != mkind:
                out.append(f'{w}: key {k!r}/{kind} vs model {uncodes(mk)!r}/{mkind}')
                continue
            if kind in ('pos', 'dir'):
                if not all(close(val[j], unrat(mval[j]), TOL_TXT) for j in range(3)):
                    out.append(f'{w}.{k}: impl {val} model {[float(unrat(x)) for x in mval]}')
            elif kind == 'axis':
                if not all(close(val[i][j], unrat(mval[i][j]), TOL_TXT) for i in range(2) for j in range(3)):
                    out.append(f'{w}.{k}: impl {val} model {[[float(unrat(x)) for x in p] for p in mval]}')
            elif kind == 'orient':
                mm = [unrat(x) for x in mval]
                tol = TOL_GIMBAL if gimbal(mm) else TOL_TXT
                if not all(close(val[j], mm[j], tol) for j in range(9)):
                    out.append(f'{w}.{k}: orientation impl {val} model {[float(x) for x in mm]}')
            elif kind == 'nameOrClass':
                if val != uncodes(mval[0]):
                    out.append(f'{w}.{k}: impl {val!r} model {uncodes(mval[0])!r}')
            else:
                if val != uncodes(mval):
                    out.append(f'{w}.{k}: impl {val!r} model {uncodes(mval)!r}')
        if ei['outs'] != [uncodes(x) for x in em['outs']]:
            out.append(f'{w}: output targets impl {ei["outs"]} model {[uncodes(x) for x in em["outs"]]}')
        if ei['fixups'] != [uncodes(x) for x in em['fixups']]:
            out.append(f'{w}: fixups impl {ei["fixups"]} model {[uncodes(x) for x in em["fixups"]]}')
        _cmp_solids(ei['solids'], em['solids'], w + '.solid', out)
    return out


# ----------------------------------------------------------------------------------- spec oracle (plain Python)

def spec_fixup_name(style, inst, name):
    """The documented naming rule."""
    if name == '' or name[0] in '@!':
        return name
    if style == 2:
        return name
    return f'{inst}-{name}' if style == 0 else f'{name}-{inst}'


def spec_substitute(table, text):
    """$variable replacement for texts in which every `$` starts a *defined* variable: the longest defined
    variable name (case-insensitive) is replaced by its value. Returns None when some `$` is not followed by a
    defined variable (the behaviour is then not specified by the property; only the model covers it)."""
    tbl = {k.casefold(): v for k, v in table}
    out, i = [], 0
    while i < len(text):
        c = text[i]
        if c != '$':
            out.append(c); i += 1
            continue
        best = None
        for k in tbl:
            if text[i + 1:i + 1 + len(k)].casefold() == k and len(text[i + 1:i + 1 + len(k)]) == len(k):
                if best is None or len(k) > len(best):
                    best = k
        if best is None or best == '':
            return None
        out.append(tbl[best]); i += 1 + len(best)
    return ''.join(out)


def py_place(R, o, p):
    """p @ R + o in plain floats (R = 9 entries row-major)."""
    x, y, z = p
    return (x * R[0] + y * R[3] + z * R[6] + o[0],
            x * R[1] + y * R[4] + z * R[7] + o[1],
            x * R[2] + y * R[5] + z * R[8] + o[2])


def py_rot(R, p):
    return py_place(R, (0.0, 0.0, 0.0), p)


def py_tex(ax, p):
    """ax = (x, y, z, offset, scale)"""
    return (p[0] * ax[0] + p[1] * ax[1] + p[2] * ax[2]) / ax[4] + ax[3]


def py_unplace(R, o, q):
    """inverse of py_place for orthogonal R: (q - o) @ R^T"""
    d = (q[0] - o[0], q[1] - o[1], q[2] - o[2])
    return (d[0] * R[0] + d[1] * R[1] + d[2] * R[2],
            d[0] * R[3] + d[1] * R[4] + d[2] * R[5],
            d[0] * R[6] + d[1] * R[7] + d[2] * R[8])


def orth_error(R):
    e = 0.0
    for i in range(3):
        for j in range(3):
            s = sum(R[3 * i + k] * R[3 * j + k] for k in range(3))
            e = max(e, abs(s - (1.0 if i == j else 0.0)))
    return e


_REPL_RE = re.compile(r'^\s*"replace\d+" ')


def template_diff_kind(before, after):
    """'same' | 'fixup-only' (only replaceNN lines differ) | 'other'"""
    if before == after:
        return 'same', []
    a, b = before.splitlines(), after.splitlines()
    if len(a) != len(b):
        return 'other', [f'{len(a)} lines -> {len(b)} lines']
    diffs = [(x, y) for x, y in zip(a, b) if x != y]
    if all(_REPL_RE.match(x) and _REPL_RE.match(y) for x, y in diffs):
        return 'fixup-only', [f'{x.strip()} -> {y.strip()}' for x, y in diffs[:4]]
    return 'other', [f'{x.strip()} -> {y.strip()}' for x, y in diffs[:4]]
