"""C03 — ARGUMENT FORMS and ALIASING of the entry points the property quantifies over:
`Tokenizer(data, filename, error, **options)` and `Keyvalues.parse(file_contents, filename, ...)`.

Established by experiment on the unchanged tree (forms the code rejects are outside the domain and are checked to stay
rejected, as coded):
  accepted `data`: str and str subclasses; any iterable of str — list, tuple, generator, iter(list), map, deque, an
      object with __iter__ (and optionally .name); text file objects (io.StringIO, open(..., 'r'), io.TextIOWrapper) at
      ANY position: the text denoted is what is still unread (position 0, after read(k), after readline(), exhausted);
  rejected `data`: bytes (TypeError at construction); bytearray / memoryview / a chunk that is bytes or not a str /
      a binary file (ValueError when the chunk is reached); None / int (TypeError: not iterable);
  `filename`: None, str, pathlib.Path / os.PathLike, bytes (repr-escaped); taken from data.name when omitted and present;
      an explicit filename wins; an int is rejected (TypeError);
  `error`: TokenSyntaxError, a subclass (errors are raised as exactly that class), None (= TokenSyntaxError);
      a non-subclass is rejected (TypeError);
  options: any truthy/falsy value (coerced with bool()); positional or keyword data/filename/error.
Every accepted form must give the stream of the canonical form `Tokenizer(<denoted text>)` (and of the model: a pure
function of the denoted text), pick up the file name as coded, and leave its arguments unchanged (lists, tuples, option
dicts are snapshotted); the same list given to two tokenizers, consumed interleaved, gives the canonical stream twice.
"""
import collections
import io
import os
import pathlib
import tempfile

from common import codes
import tokutil
import c03_guard as G

LIMIT_S = 2.0


def _stream(tok, n, TSE, limit_s=LIMIT_S):
    toks = []
    res = {'toks': toks, 'err': None}
    try:
        with G.limit(limit_s):
            for _ in range(n + 2):
                k, v = tok()
                toks.append([k.value, codes(v), tok.line_num])
                if k.value == 0:
                    break
            else:
                res['exc'] = f'no EOF or error after {n + 2} tokens'
    except TSE as e:
        res['err'] = tokutil.err_code(e)
        res['errtype'] = type(e).__name__
        res['errfile'] = e.file
    except G.Watchdog:
        res['exc'] = f'no result within {limit_s} s of CPU time'
        res['watchdog'] = True
    except Exception as e:
        res['exc'] = f'{type(e).__name__}: {e}'
    return res


def _strip(r):
    return {'toks': r['toks'], 'err': r['err'], 'exc': r.get('exc')}


class _Str(str):
    pass


class _Named:
    def __init__(self, chunks, name):
        self.chunks = chunks
        self.name = name

    def __iter__(self):
        return iter(self.chunks)


class _Iterable:
    def __init__(self, chunks):
        self.chunks = chunks

    def __iter__(self):
        return iter(self.chunks)


def _cut(text, rng):
    if len(text) < 2:
        return [text] if text else []
    ps = sorted({rng.randrange(1, len(text)) for _ in range(rng.randrange(1, 5))})
    out, last = [], 0
    for p in ps:
        out.append(text[last:p])
        last = p
    out.append(text[last:])
    return out


def tokenizer_forms(classes, text, opts, rng, tmpdir):
    """Run every argument form for (text, options). Returns (problems, denoted): problems = [(form, what)],
    denoted = [(form, denoted text, result)] for the comparison with the model."""
    Tokenizer, TSE = classes
    kw = dict(zip(tokutil.OPT_NAMES, opts))
    n = len(text)
    problems, denoted = [], []
    cache = {}

    def canon(t):
        if t not in cache:
            cache[t] = _stream(Tokenizer(t, **kw), len(t), TSE)
            if cache[t].get('watchdog'):
                cache[t] = _stream(Tokenizer(t, **kw), len(t), TSE, 3 * LIMIT_S)
        return cache[t]

    def check(form, mk, den=None, filename='unset', errtype=None):
        """mk() -> tokenizer; must behave like Tokenizer(den)."""
        den = text if den is None else den
        try:
            tok = mk()
        except Exception as e:
            problems.append((form, f'construction raised {type(e).__name__}: {e}'))
            return
        r = _stream(tok, len(den), TSE)
        if r.get('watchdog'):          # once more, larger limit, before it counts
            try:
                tok = mk()
                r = _stream(tok, len(den), TSE, 3 * LIMIT_S)
            except Exception:
                pass
        want = canon(den)
        denoted.append((form, den, _strip(r)))
        if _strip(r) != _strip(want):
            problems.append((form, f'gives {_strip(r)} but Tokenizer(str) of the denoted text {den!r} gives {_strip(want)}'))
        if filename != 'unset' and tok.filename != filename:
            problems.append((form, f'filename is {tok.filename!r}, expected {filename!r}'))
        if filename != 'unset' and r.get('err') is not None and r.get('errfile') != filename:
            problems.append((form, f'the error carries file {r.get("errfile")!r}, expected {filename!r}'))
        if r.get('err') is not None and r.get('errtype') != (errtype or 'TokenSyntaxError'):
            problems.append((form, f'error raised as {r.get("errtype")}, expected {errtype or "TokenSyntaxError"}'))

    chunks = _cut(text, rng)
    snap = list(chunks)
    # ---- iterables of str
    check('str subclass', lambda: Tokenizer(_Str(text), **kw), filename=None)
    check('list of one', lambda: Tokenizer([text], **kw), filename=None)
    check('list', lambda: Tokenizer(chunks, **kw))
    check('tuple', lambda: Tokenizer(tuple(chunks), **kw))
    check('generator', lambda: Tokenizer((c for c in chunks), **kw))
    check('iter(list)', lambda: Tokenizer(iter(chunks), **kw))
    check('map', lambda: Tokenizer(map(str, chunks), **kw))
    check('deque', lambda: Tokenizer(collections.deque(chunks), **kw))
    check('list of str subclasses', lambda: Tokenizer([_Str(c) for c in chunks], **kw))
    check('object with __iter__', lambda: Tokenizer(_Iterable(chunks), **kw), filename=None)
    check('object with .name', lambda: Tokenizer(_Named(chunks, 'named.kv'), **kw), filename='named.kv')
    check('object with .name = Path', lambda: Tokenizer(_Named(chunks, pathlib.Path('d') / 'n.kv'), **kw), filename=os.path.join('d', 'n.kv'))
    check('object with .name = None', lambda: Tokenizer(_Named(chunks, None), **kw), filename=None)
    check('explicit filename beats .name', lambda: Tokenizer(_Named(chunks, 'named.kv'), 'explicit.kv', **kw), filename='explicit.kv')
    check('list, again (re-used argument)', lambda: Tokenizer(chunks, **kw))
    if chunks != snap:
        problems.append(('list', f'the list of chunks was modified: {snap!r} -> {chunks!r}'))
    # the same list object in two tokenizers, consumed interleaved
    try:
        t1, t2 = Tokenizer(chunks, **kw), Tokenizer(chunks, **kw)
        o1, o2 = [], []
        for _ in range(n + 2):
            for t, o in ((t1, o1), (t2, o2)):
                if not o or (o[-1][0] not in (0, 'err')):
                    try:
                        k, v = t()
                        o.append([k.value, codes(v), t.line_num])
                    except TSE as e:
                        o.append(['err'] + tokutil.err_code(e))
        w = canon(text)
        wl = list(w['toks']) + ([['err'] + w['err']] if w['err'] is not None else [])
        if not w.get('exc') and (o1 != wl or o2 != wl):
            problems.append(('same list in two tokenizers, interleaved', f'streams {o1} / {o2}, canonical {wl}'))
    except Exception as e:
        problems.append(('same list in two tokenizers, interleaved', f'raised {type(e).__name__}: {e}'))
    if chunks != snap:
        problems.append(('same list in two tokenizers, interleaved', f'the list of chunks was modified: {snap!r} -> {chunks!r}'))
    # ---- text file objects at any position
    k = rng.randrange(0, n + 1)

    def sio(pre):
        f = io.StringIO(text)
        pre(f)
        return f

    def rest(mkfile, pre):
        f = mkfile()
        pre(f)
        return f.read()
    for nm, pre in (('at position 0', lambda f: None), (f'after read({k})', lambda f: f.read(k)),
                    ('after readline()', lambda f: f.readline()), ('exhausted', lambda f: f.read())):
        check('io.StringIO ' + nm, lambda pre=pre: Tokenizer(sio(pre), **kw), den=rest(lambda: io.StringIO(text), pre), filename=None)
    try:
        text.encode('utf-8')
        encodable = True
    except UnicodeEncodeError:
        encodable = False
    if encodable:
        path = os.path.join(tmpdir, 'forms.kv')
        with open(path, 'w', encoding='utf-8', newline='') as f:
            f.write(text)
        opened = []

        def fopen(**okw):
            f = open(path, 'r', encoding='utf-8', **okw)
            opened.append(f)
            return f
        for nm, pre in (('at position 0', lambda f: None), ('after readline()', lambda f: f.readline()), (f'after read({k})', lambda f: f.read(k))):
            for mode, okw in (('newline=""', {'newline': ''}), ('universal newlines', {})):
                def mk(pre=pre, okw=okw):
                    f = fopen(**okw)
                    pre(f)
                    return Tokenizer(f, **kw)
                check(f'text file ({mode}) {nm}', mk, den=rest(lambda okw=okw: fopen(**okw), pre), filename=path)
        check('text file, explicit Path filename', lambda: Tokenizer(fopen(newline=''), pathlib.Path('x') / 'y.kv', **kw), filename=os.path.join('x', 'y.kv'))
        check('io.TextIOWrapper(BytesIO)', lambda: Tokenizer(io.TextIOWrapper(io.BytesIO(text.encode('utf-8')), encoding='utf-8', newline=''), **kw), filename=None)
        for f in opened:
            f.close()
    # ---- filename / error / keyword forms
    check('filename str', lambda: Tokenizer(text, 'dir/f.kv', **kw), filename='dir/f.kv')
    check('filename Path', lambda: Tokenizer(text, pathlib.PurePosixPath('dir/f.kv'), **kw), filename='dir/f.kv')
    check('filename bytes', lambda: Tokenizer(text, b'f\xff.kv', **kw), filename='f\\xff.kv')
    check('filename None', lambda: Tokenizer(text, None, **kw), filename=None)
    check('all keyword', lambda: Tokenizer(data=text, filename='k.kv', error=TSE, **kw), filename='k.kv')
    check('all positional', lambda: Tokenizer(text, 'p.kv', TSE, **kw), filename='p.kv')
    check('error=None', lambda: Tokenizer(text, None, None, **kw))

    class MyErr(TSE):
        pass
    check('error=subclass', lambda: Tokenizer(text, 'e.kv', MyErr, **kw), filename='e.kv', errtype='MyErr')
    truthy = {k2: (rng.choice([1, 'x', [0], 2.5]) if v else rng.choice([0, '', None, [], 0.0])) for k2, v in kw.items()}
    tsnap = dict(truthy)
    check('options as truthy/falsy values', lambda: Tokenizer(text, **truthy))
    if truthy != tsnap or kw != dict(zip(tokutil.OPT_NAMES, opts)):
        problems.append(('options', 'the options mapping was modified'))
    explicit_defaults = {k2: v for k2, v in kw.items() if v != dict(zip(tokutil.OPT_NAMES, tokutil.DEFAULT_OPTS))[k2]}
    check('options equal to the default omitted', lambda: Tokenizer(text, **explicit_defaults))
    # ---- rejected forms stay rejected, as coded
    def rejected(form, mk, exc, at_construction):
        try:
            tok = mk()
        except exc:
            if not at_construction:
                problems.append((form, f'raised {exc.__name__} already at construction (as coded: when the chunk is reached)'))
            return
        except Exception as e:
            problems.append((form, f'raised {type(e).__name__}: {e}, as coded it raises {exc.__name__}'))
            return
        if at_construction:
            problems.append((form, f'was accepted, as coded it raises {exc.__name__} at construction'))
            return
        r = _stream(tok, n + 8, TSE)
        if not str(r.get('exc', '')).startswith(exc.__name__):
            problems.append((form, f'as coded it raises {exc.__name__} when the chunk is reached, now {_strip(r)}'))
    b = text.encode('utf-8', 'replace')
    rejected('bytes', lambda: Tokenizer(b, **kw), TypeError, True)
    rejected('bytearray', lambda: Tokenizer(bytearray(b or b'x'), **kw), ValueError, False)
    rejected('memoryview', lambda: Tokenizer(memoryview(b or b'x'), **kw), ValueError, False)
    rejected('bytes chunk in a list', lambda: Tokenizer(['', b'x' + b], **kw), ValueError, False)
    rejected('non-str chunk in a list', lambda: Tokenizer(['', 5], **kw), ValueError, False)
    rejected('binary file', lambda: Tokenizer(io.BytesIO(b or b'x'), **kw), ValueError, False)
    rejected('data=None', lambda: Tokenizer(None, **kw), TypeError, True)
    rejected('error=int', lambda: Tokenizer(text, None, int, **kw), TypeError, True)
    rejected('filename=int', lambda: Tokenizer(text, 5, **kw), TypeError, True)
    return problems, denoted


def keyvalues_forms(Keyvalues, KeyValError, Tokenizer, text, rng):
    """Keyvalues.parse over the forms of `file_contents`: same tree (or same KeyValError) as for the str."""
    problems = []

    def one(mk, **pkw):
        ok, r = G.retrying(lambda: one_(mk, **pkw), LIMIT_S)
        return r if ok else ('HANG',)

    def one_(mk, **pkw):
        try:
            kv = Keyvalues.parse(mk(), **pkw)
            return ('ok', kv.serialise())
        except KeyValError as e:
            return ('KeyValError', e.mess, e.line_num)
        except Exception as e:
            return ('OTHER', f'{type(e).__name__}: {e}')
    want = one(lambda: text)
    chunks = _cut(text, rng)
    snap = list(chunks)
    k = rng.randrange(0, len(text) + 1)

    def sio():
        f = io.StringIO('x' * k + text)
        f.read(k)
        return f
    forms = [('list', lambda: chunks), ('tuple', lambda: tuple(chunks)), ('generator', lambda: (c for c in chunks)),
             ('iter(list)', lambda: iter(chunks)), ('io.StringIO at position 0', lambda: io.StringIO(text)),
             (f'io.StringIO after read({k})', sio), ('list, again (re-used argument)', lambda: chunks),
             ('Tokenizer instance', lambda: Tokenizer(text, string_bracket=True)),
             ('Tokenizer instance over the list', lambda: Tokenizer(chunks, string_bracket=True))]
    for name, mk in forms:
        got = one(mk)
        if got != want:
            problems.append((name, f'Keyvalues.parse gives {got}, for the str {want}'))
    got = one(lambda: text, filename=pathlib.PurePosixPath('d/f.kv'))
    if got != want:
        problems.append(('filename Path', f'Keyvalues.parse gives {got}, for the str {want}'))
    if chunks != snap:
        problems.append(('list', f'the list of chunks was modified: {snap!r} -> {chunks!r}'))
    try:
        Keyvalues.parse(text.encode('utf-8', 'replace'))
        problems.append(('bytes', 'Keyvalues.parse accepted bytes, as coded it raises TypeError'))
    except TypeError:
        pass
    except Exception as e:
        problems.append(('bytes', f'Keyvalues.parse raised {type(e).__name__}: {e}, as coded TypeError'))
    return problems
