"""Generators and canonical forms for the C01 check (Keyvalues serialise / parse)."""
import io

SIGMA17 = ['\\', '"', "'", '\r', '\n', '\t', '\v', '\b', '\f', '\a', '?', '/', 'n', 'a', ' ', 'é', '\U0001F600']
# characters special to the KV1 grammar / tokenizer (never '-', so the open-sections message can be counted)
SYNTAX = ['{', '}', '[', ']', '(', ')', '#', '=', ',', ':', '+', '!', ';', '*', '$', '\ufeff', 'A', 'B', 'İ', 'ß']
INDENTS = ['\t', '  ', '', ' \t']
STARTS = ['', '\t', '  ', ' \t ', '\t\t']


def rand_scalar(rng):
    while True:
        c = rng.choice([rng.randrange(0, 0x80), rng.randrange(0, 0x800), rng.randrange(0, 0x110000)])
        if not 0xD800 <= c <= 0xDFFF:
            return chr(c)


def rand_string(rng, allow_nl=True, maxlen=12):
    r = rng.random()
    if r < 0.12:
        return ''
    if r < 0.45:
        pool = ['a', 'b', 'A', 'name', 'key', 'Value', '0', '1.5', 'x y']
        return rng.choice(pool)
    n = rng.randrange(1, maxlen + 1)
    out = []
    for _ in range(n):
        q = rng.random()
        if q < 0.55:
            c = rng.choice(SIGMA17)
        elif q < 0.8:
            c = rng.choice(SYNTAX)
        else:
            c = rand_scalar(rng)
        if not allow_nl and c in '\r\n':
            c = rng.choice(['"', '\\', 'n', 'r'])
        out.append(c)
    return ''.join(out)


def rand_tree(rng, depth, budget, names_nl=False):
    """A random tree as JSON: leaf [0,name,value] / block [1,name,[children]] with str fields, of depth
    (edges from the node to its deepest descendant) <= `depth` and width <= 6.
    `budget` is a one-element list holding the remaining node budget."""
    budget[0] -= 1
    name = rand_string(rng, allow_nl=names_nl)
    if depth <= 0 or budget[0] <= 0 or rng.random() < 0.3:
        if depth <= 0 or rng.random() < 0.8:
            return [0, name, rand_string(rng, allow_nl=True, maxlen=16)]
        return [1, name, []]          # empty block
    width = rng.choice([0, 1, 2, 2, 3, 3, 4, 5, 6])
    kids = []
    for _ in range(width):
        if budget[0] <= 0:
            break
        k = rand_tree(rng, depth - 1, budget, names_nl)
        if kids and rng.random() < 0.25:          # duplicate names
            k[1] = kids[-1][1]
        kids.append(k)
    return [1, name, kids]


def tree_stats(t):
    """(nodes, depth, max width, has empty block, has duplicate sibling names, has empty name)"""
    if t[0] == 0:
        return 1, 0, 0, False, False, t[1] == ''
    n, d, w, e, en = 1, 0, len(t[2]), not t[2], t[1] == ''
    names = [k[1] for k in t[2]]
    dup = len(set(names)) < len(names)
    for k in t[2]:
        a = tree_stats(k)
        n += a[0]; d = max(d, a[1] + 1); w = max(w, a[2]); e = e or a[3]; dup = dup or a[4]; en = en or a[5]
    return n, d, w, e, dup, en


def tree_strings(t):
    yield t[1]
    if t[0] == 0:
        yield t[2]
    else:
        for k in t[2]:
            yield from tree_strings(k)


def tree_names(t):
    yield t[1]
    if t[0] == 1:
        for k in t[2]:
            yield from tree_names(k)


def tree_block_names(t):
    if t[0] == 1:
        yield t[1]
        for k in t[2]:
            yield from tree_block_names(k)


def enc(t):
    """str fields -> code point lists (wire form)."""
    if t[0] == 0:
        return [0, [ord(c) for c in t[1]], [ord(c) for c in t[2]]]
    return [1, [ord(c) for c in t[1]], [enc(k) for k in t[2]]]


def dec(t):
    if t[0] == 0:
        return [0, ''.join(map(chr, t[1])), ''.join(map(chr, t[2]))]
    return [1, ''.join(map(chr, t[1])), [dec(k) for k in t[2]]]


def build(K, t):
    """JSON tree -> Keyvalues object."""
    if t[0] == 0:
        return K(t[1], t[2])
    return K(t[1], [build(K, k) for k in t[2]])


def canon(kv):
    """Keyvalues object (non-root) -> JSON tree, reading the slots directly."""
    v = kv._value
    if isinstance(v, list):
        return [1, kv._real_name, [canon(k) for k in v]]
    return [0, kv._real_name, v]


def canon_lines(kv, out):
    out.append(kv.line_num)
    if isinstance(kv._value, list):
        for k in kv._value:
            canon_lines(k, out)


def snapshot(kv):
    """Deep snapshot including object identity of every node and child list (for 'does not mutate')."""
    v = kv._value
    if isinstance(v, list):
        return (id(kv), kv._real_name, kv._folded_name, id(v), tuple(snapshot(k) for k in v))
    return (id(kv), kv._real_name, kv._folded_name, v)


def chunkings(rng, text):
    """A random chunk list for `text` (with empty chunks and single characters)."""
    if not text:
        return rng.choice([[], [''], ['', '']])
    cuts = sorted(set(rng.randrange(0, len(text) + 1) for _ in range(rng.randrange(0, 8))))
    out, last = [], 0
    for c in cuts + [len(text)]:
        out.append(text[last:c])
        last = c
        if rng.random() < 0.15:
            out.append('')
    if rng.random() < 0.1:
        out = list(text)
    return out


def sources(rng, text):
    """The three ways the property quantifies over: str, list of chunks, file object."""
    return [('str', text), ('chunks', chunkings(rng, text)), ('file', io.StringIO(text))]


# ----------------------------------------------------------------------------- documents for parse()

FLAGS = ['[x360]', '[!x360]', '[win32]', '[!win32]', '[custom]', '[!custom]', '[CUSTOM]', '[!CUSTOM]',
         '[other]', '[]', '[!]', '[$win32]', '[İ]']
NAMES = ['a', 'b', 'A', '"a"', '"b"', '"a b"', '"A"', '""', 'name', '"q\\"t"', '"x\\\\"', '"n\\nl"']


def _quoted(rng, escape_text):
    s = rand_string(rng, allow_nl=rng.random() < 0.15, maxlen=6)
    return '"' + escape_text(s, rng.random() < 0.2) + '"'


def flag_doc(rng, escape_text, depth=0, lines=None):
    """A mostly well-formed document using flags, repeated names (flag replacement), inline braces."""
    out = []
    n = rng.randrange(0, 5 if depth else 7)
    for _ in range(n):
        ind = rng.choice(['', '\t', '  '])
        name = rng.choice(NAMES) if rng.random() < 0.8 else _quoted(rng, escape_text)
        r = rng.random()
        if r < 0.5 or depth >= 3:
            val = rng.choice(NAMES) if rng.random() < 0.7 else _quoted(rng, escape_text)
            flag = (' ' + rng.choice(FLAGS)) if rng.random() < 0.45 else ''
            out.append(f'{ind}{name} {val}{flag}\n')
        else:
            flag = (' ' + rng.choice(FLAGS)) if rng.random() < 0.45 else ''
            body = flag_doc(rng, escape_text, depth + 1)
            style = rng.random()
            if style < 0.6 or flag:
                out.append(f'{ind}{name}{flag}\n{ind}{{\n{body}{ind}}}\n')
            elif style < 0.8:
                out.append(f'{ind}{name} {{\n{body}{ind}}}\n')
            else:
                out.append(f'{ind}{name}{{{body.strip(chr(10))}}}\n')
    if rng.random() < 0.1:
        out.append('// comment\n')
    return ''.join(out)


LEXEMES = ['"a"', '"b"', 'a', 'b', 'A', '{', '}', '\n', '\n', '\r\n', '\r', ' ', '\t', '[win32]', '[!win32]', '[x360]',
           '[!x360]', '[custom]', '[', ']', '// c\n', '/* c */', '/', '#dir', '#DIR', '(p)', '(', ')', '=', ',', ':', '+',
           '"unterminated', '"esc\\', '\\', '"x\\ny"', '"x\ny"', '""', '\ufeff', ';', '!', '"a" "b"\n', '"a"\n{\n', '}\n',
           '"a" [win32]\n{\n', '"a" [x360]\n{\n', '"a" "c" [win32]\n', '"a" "c" [x360]\n']


def lexeme_doc(rng, maxlen=14):
    return ''.join(rng.choice(LEXEMES) for _ in range(rng.randrange(0, maxlen + 1)))


MUT_CHARS = ['"', '{', '}', '[', ']', '\n', '\r', ' ', '\\', '/', '#', '(', ')', '=', 'a', '!', ',']


def mutate(rng, text):
    """One or two character-level edits."""
    for _ in range(rng.choice([1, 1, 2])):
        if not text:
            return rng.choice(MUT_CHARS)
        i = rng.randrange(0, len(text) + 1)
        r = rng.random()
        if r < 0.4 and i < len(text):
            text = text[:i] + text[i + 1:]
        elif r < 0.8:
            text = text[:i] + rng.choice(MUT_CHARS) + text[i:]
        elif i < len(text):
            text = text[:i] + rng.choice(MUT_CHARS) + text[i + 1:]
    return text


FIXED_DOCS = [
    '', '\n', '"a" "b"', '"a" "b"\n', '"a"\n{\n}\n', 'a{}', '"a"{"b" "c"}', '}', '{', '"a" "b" {', '"a"',
    '"a"\n', '"a" [win32]\n', '"a" [win32]', '"a" "b" [win32]', '"a" "b" [win32]\n', '"a" "b" [x360]\n"c" "d" [win32]\n',
    '"a" "b"\n"a" "d" [win32]\n', '"a" "b"\n"A" "d" [win32]\n', '"a" "b"\n"a" "d" [win32]\n"a" "e" [win32]\n',
    '"a"\n{\n}\n"a" [win32]\n{\n"x" "y"\n}\n', '"a" "b"\n"a" [win32]\n{\n}\n', '"a"\n{\n}\n"a" "v" [win32]\n',
    '"a" [x360]\n{\n}\n"b" [win32]\n{\n}', '"a" [x360]\n{\n"x" "y"\n"z"\n{\n}\n}\n"b" "c"\n',
    '"a" [x360]\n{\n}\n"b" "c" [win32]\n', '"a" "b" "c" "d"', '"a" "b" "c"', '"a" #dir', '"a" (x)', '"a" =', '[win32]',
    '"a\nb" "c"', '"a" "c\nd"', '"a" "b', '"a"\n"b" "c"', '"a" [win32]\n"b"', '"a" { "b" { "c" "d" } }', '"a" {\n',
    '"a" {\n"b" {\n', '"a" {\n"b" {\n"c"\n{\n', '}}', '"a" { } }', '"a" "b" }', '#dir', '(x)', '=', ',', ']', ')',
    '"a" "b" // c\n', '"a" /* c */ "b"', '/', '"a" "b" [win32] "c"', '"a" [win32] {', '"a" [win32] "b"',
    '\ufeff"a" "b"\n', '"a"\r\n{\r\n}\r\n', '"a"\r{\r}\r', '"a" "x\\ny\\t\\"q\\\\"', '"a" "x\\zy"', '"a" "b\\',
    '"a" [!win32]\n{\n"b" "c"\n}\n"d" "e"\n', 'a b\nc d\n', 'a\n{\nb c\n}\n', '"a" "b"\n\n\n"c"\n\n{\n\n}\n',
    '"a" "b" [', '"a" "b" [win32', '"a" [win\n32]\n', '"a" [[x]]\n', '"a" "b"\n{', '"a" [win32]\n\n\n{\n}\n',
]
