"""C03 — tokenizing is total and independent of how the input is chunked."""
import io, itertools, multiprocessing, os, threading, time
import common
from common import codes, uncodes
import tokutil
import c03_sessions as S
import c03_guard as G
import c03_forms as F

PID = 'C03'
GENS = ['tok', 'c03']
DRIVERS = ['drv_c03', 'drv_tok']
PROPS = 'Srctools.Props.C03'
RULE = ("exhaustive: every string of length <= L (L=3 quick; thorough adds length 4 over a 10-symbol sub-alphabet) over a "
        "seed-chosen 16-symbol subset of SIGMA22 = {\" \\ / * [ ] ( ) { } # : + = , CR LF TAB space a A BOM} that always "
        "contains \" \\ / * CR LF, x all 128 option sets x every delivery: Tokenizer(str), every one of the 2^(n-1) "
        "chunkings as a list, each chunking again with empty chunks before every chunk and at the end, a generator "
        "yielding single characters, io.StringIO (line iteration). random: KV/FGD-like documents of 50-500 characters "
        "(quoted strings with escapes, comments of both kinds, flags, parens, directives, CR/LF/CRLF, BOM, garbage) x "
        "random option sets x adversarial chunkings (cuts inside CR-LF, after a backslash, between * and /, between "
        "the two slashes, every character, random cuts, empty chunks, lines, generator, StringIO). "
        "sessions: 1200 (quick) / 12000 (thorough) sequences, in one import of srctools.tokenizer, of 1-4 tokenizers that are "
        "driven by call/peek/push_back/line_num assignments and abandoned (tokens still pushed back, after an error, or "
        "with the chunk iterator raising mid-string/mid-comment), followed by a fresh Tokenizer over a generated text "
        "with random options and delivery whose full stream must equal the model's and the result on a pristine import. "
        "argument forms: for ~100 short texts x 2 option sets, every form of the arguments the code accepts today (str "
        "subclass, list/tuple/generator/iter/map/deque/object with __iter__ and .name, io.StringIO / text file / "
        "TextIOWrapper at position 0, after read(k), after readline(), exhausted, filename str/Path/bytes/None/from "
        ".name, error None/subclass, positional/keyword, truthy option values, the same list in two interleaved "
        "tokenizers and re-used) must give the stream of Tokenizer(<denoted text>) and of the model, leave lists and "
        "option dicts unchanged; rejected forms (bytes, bytearray, memoryview, non-str chunks, binary files, None) must "
        "stay rejected as coded; the same for the file_contents forms of Keyvalues.parse. "
        "A case = (text, option set, delivery) or one session or one (text, options) of the forms phase; non-trivial = the text contains a character with syntactic meaning; "
        "distinct counted per (text, delivery) for the exhaustive part and per (text, options, delivery) for documents.")
TRUSTED = ["models: TokC (lean/Srctools/Model/TokC.lean, the chunk cursor with Python index semantics and every loop of "
           "_get_token/_handle_comment/_handle_string) and TokA (Model/Tok.lean); tables regenerated from tokenizer.py by "
           "tools/gen_tok.py; str.casefold enters the models as a per-character table computed by CPython for the characters "
           "of each input",
           "call counting wraps Tokenizer._next_char in a subclass (same code paths; results compared with the plain class)",
           "BaseTokenizer.__call__/peek/push_back are modelled in lean/Srctools/Model/C03Push.lean; tools/gen_c03.py extracts "
           "from the source that __init__ assigns _pushback = [] and line_num = 1 per instance, that no class-level value "
           "exists, and that the three methods have the modelled shape (obligation C03_init_ok)",
           "a 'pristine import' in sessions = a new import of srctools.tokenizer (new class objects) in the same process",
           "_tokenizer.pyx (Cython twin) control flow is not covered"]
NOT_MODELLED = ['_tokenizer.pyx control flow', 'non-str chunks (bytes / other objects raise ValueError/TypeError by design: outside the property domain)',
                'BaseTokenizer.expect/block/skipping_newlines and IterTokenizer (built on __call__; not exercised)',
                'Keyvalues.parse itself is not modelled: that it raises only KeyValError is searched directly on the implementation',
                'the index invariant is stated at token boundaries (inside the loops it is the pre/post-condition of each refinement lemma, not a separate small-step theorem)']
ASSUMPTIONS = ['str.casefold acts character by character (true of CPython: casefold of a string is the concatenation of the casefolds of its characters)',
               'the iterator handed to Tokenizer yields str objects and does not itself raise']

SIGMA22 = ['"', '\\', '/', '*', '[', ']', '(', ')', '{', '}', '#', ':', '+', '=', ',', '\r', '\n', '\t', ' ', 'a', 'A', '\ufeff']
MANDATORY = ['"', '\\', '/', '*', '\r', '\n']
SPECIAL = set(SIGMA22) - {'a', 'A'}
NPROC = max(1, min(16, (os.cpu_count() or 2)))


# --------------------------------------------------------------------------- deliveries

def chunking(s, ci):
    """Mirror of `chunking` in lean/Drv/C03.lean: ci = 2*m+e; cut after position k iff bit k of m; e=1 adds empties."""
    m, e = divmod(ci, 2)
    base = []
    if s:
        cur = ''
        for pos, c in enumerate(s):
            cur += c
            if (m >> pos) & 1 and pos < len(s) - 1:
                base.append(cur)
                cur = ''
        base.append(cur)
    if e:
        out = []
        for c in base:
            out += ['', c]
        out.append('')
        return out
    return base


def n_chunkings(s):
    return 2 * 2 ** max(len(s) - 1, 0)


def _gen(chunks):
    for c in chunks:
        yield c


# --------------------------------------------------------------------------- observing the implementation

class _TooManyCalls(BaseException):
    pass


# Budgets. Tokens: the proved bound (C03_steps: <= 2n+1 _next_char calls, every token but EOF consumes a character)
# gives at most n+1 tokens before EOF; n+2 calls are allowed. Wall clock: a watchdog around every entry into the
# implementation, for loops that make no calls at all.
OBSERVE_LIMIT_S = 2.0
KV_LIMIT_S = 1.0
MAX_HANGS = 3          # stop exploring a generator / stop running in a process after this many watchdog hits (each costs the limit)
_HANGS = {'n': 0}


def _impl_run_guarded(Tokenizer, TSE, s, opts, n):
    """tokutil.impl_run on the plain class, under the watchdog."""
    ok, r = G.retrying(lambda: tokutil.impl_run(Tokenizer, TSE, s, opts, max_calls=n + 2), OBSERVE_LIMIT_S)
    return r if ok else {'toks': [], 'err': None, 'exc': f'no result within {OBSERVE_LIMIT_S} s of CPU time (twice)'}


_CLS = {}


def _classes():
    """(Tokenizer, counting subclass, TokenSyntaxError) of the working tree; built once per process."""
    if not _CLS:
        from srctools.tokenizer import Tokenizer, TokenSyntaxError

        class CountTok(Tokenizer):
            calls = 0
            limit = 1 << 30

            def _next_char(self):
                self.calls += 1
                if self.calls > self.limit:
                    raise _TooManyCalls()
                return Tokenizer._next_char(self)
        _CLS['v'] = (Tokenizer, CountTok, TokenSyntaxError)
    return _CLS['v']


def observe(data, opts, n):
    """The property, on one delivery of a text of n characters, with the counting subclass. `data` is the delivery or
    a zero-argument factory of it (then a watchdog hit is re-tried once with a larger limit before it counts).
    Returns (result in drv shape incl. 'exc', calls until the first EOF/error, problems)."""
    if not callable(data):
        return _observe_once(data, opts, n, OBSERVE_LIMIT_S)
    out = _observe_once(data(), opts, n, OBSERVE_LIMIT_S)
    if out[0].get('watchdog'):
        _HANGS['n'] -= 1
        out = _observe_once(data(), opts, n, 3 * OBSERVE_LIMIT_S)
    return out


def _observe_once(data, opts, n, limit_s):
    Tokenizer, CountTok, TSE = _classes()
    kw = dict(zip(tokutil.OPT_NAMES, opts))
    problems = []
    toks = []
    res = {'toks': toks, 'err': None}
    tok = None
    if _HANGS['n'] >= MAX_HANGS:      # this process already lost MAX_HANGS x the limit: the witnesses exist, do not wait again
        res['exc'] = 'skipped: the watchdog already fired %d times in this process' % _HANGS['n']
        return res, 0, problems
    G.arm(limit_s)
    try:
        tok = CountTok(data, None, **kw)
        tok.limit = 4 * n + 64
        for _ in range(n + 2):
            k, v = tok()
            toks.append([k.value, [ord(c) for c in v], tok.line_num])
            if k.value == 0:
                break
        else:
            res['exc'] = f'no EOF or error after {n + 2} tokens'
            problems.append(('non-termination', res['exc']))
            return res, tok.calls, problems
        calls = tok.calls
        # EOF forever, nothing moves
        line = tok.line_num
        for _ in range(3):
            k, v = tok()
            if k.value != 0 or v != '' or tok.line_num != line:
                problems.append(('eof-unstable', f'after EOF the next call returned {(k, v)} line {tok.line_num} (was {line})'))
                break
    except TSE as e:
        res['err'] = tokutil.err_code(e)
        calls = tok.calls
        if type(e) is not TSE:
            res['exc'] = 'subclass ' + type(e).__name__
            problems.append(('wrong-exception', res['exc']))
    except _TooManyCalls:
        res['exc'] = f'more than {4 * n + 64} _next_char calls'
        problems.append(('non-termination', res['exc']))
        return res, 4 * n + 64, problems
    except G.Watchdog:
        _HANGS['n'] += 1
        res['exc'] = f'no result within {limit_s} s of CPU time (after {len(toks)} tokens)'
        res['watchdog'] = True
        problems.append(('non-termination', res['exc']))
        return res, getattr(tok, 'calls', 0), problems
    except Exception as e:
        res['exc'] = f'{type(e).__name__}: {e}'
        problems.append(('wrong-exception', f'raised {res["exc"]}'))
        return res, 0, problems
    finally:
        G.disarm()
    if calls > 2 * n + 1:
        problems.append(('too-many-calls', f'{calls} _next_char calls for {n} characters (bound 2n+1, theorem C03_steps)'))
    return res, calls, problems


def deliveries_small(s):
    """(name, factory) for every delivery of a small string."""
    out = [('str', lambda: s)]
    for ci in range(n_chunkings(s)):
        ch = chunking(s, ci)
        out.append((f'list:{ci}', lambda ch=ch: list(ch)))
    out.append(('gen:chars', lambda: _gen(list(s))))
    out.append(('stringio', lambda: io.StringIO(s)))
    out.append(('stringio-universal', lambda: io.StringIO(s, newline='')))
    return out


def optset(oi):
    return [bool((oi >> j) & 1) for j in range(7)]


def _exh_worker(strings):
    """For each string: impl results for Tokenizer(str) under all 128 option sets, every delivery whose result
    differs from it, property problems, statistics."""
    Tokenizer, CountTok, TSE = _classes()
    out = []
    for s in strings:
        n = len(s)
        dels = deliveries_small(s)
        a = []
        acalls = []
        diffs = []
        cdiffs = []
        probs = []
        maxcalls = 0
        nerr = 0
        for oi in range(128):
            opts = optset(oi)
            ref = None
            for name, mk in dels:
                r, calls, pr = observe(mk, opts, n)
                if calls > maxcalls:
                    maxcalls = calls
                if ref is None:
                    acalls.append(calls)
                elif calls != acalls[-1]:
                    cdiffs.append((oi, name, calls))
                for key, what in pr:
                    probs.append((key, what, oi, name))
                if ref is None:
                    ref = r
                    # cross-check with the plain class through tokutil.impl_run (not when the guarded run showed
                    # that the loop does not end: the plain class has no guard)
                    r0 = r if any(k == 'non-termination' for k, _w in pr) else _impl_run_guarded(Tokenizer, TSE, s, opts, n)
                    if r0 != r:
                        probs.append(('wrong-exception' if r0.get('exc') else 'chunk-dependence',
                                      f'plain Tokenizer gives {r0}, counting subclass {r}', oi, name))
                    a.append(tokutil.strip_exc(r))
                    if r['err'] is not None:
                        nerr += 1
                elif tokutil.strip_exc(r) != tokutil.strip_exc(ref):
                    diffs.append((oi, name, tokutil.strip_exc(r)))
                    probs.append(('chunk-dependence', f'delivery {name} gives {tokutil.strip_exc(r)} but the whole string gives {tokutil.strip_exc(ref)}', oi, name))
        out.append((s, a, diffs, probs, maxcalls, nerr, len(dels), acalls, cdiffs))
    return out


# --------------------------------------------------------------------------- random documents

# every special character as the LAST character of the text, at top level and inside each construct
ENDINGS = ['\r', '\\', '/', '*', '"', '[', '(', '#', '\r\n', '\n\r', '//', '/*', '*/', "'", ' \r', '\t\r']
CONTEXTS = ['', 'a', 'a ', '"x', '"x" ', '"key" "value"', '// c', '/* c', '/* c */', '[f', '[f]', '(p', '(p)', '#d', '{\n', 'a\n',
            '"x\\', 'a\r', '\ufeff']
ENDING_OPTS = [[b, p, True, s, s, False, False] for b in (False, True) for p in (False, True) for s in (False, True)] + \
              [[False, True, False, False, False, True, True], [True, True, True, True, False, False, False]]


def ending_cases():
    return [c + e for c in CONTEXTS for e in ENDINGS]


WORDS = ['a', 'key', 'Value', 'x1', 'model', 'ent', 'ß', 'İ', 'É', 'targetname', '0', '-1.5', 'a/b', 'a*b', 'c:d', 'e+f']
ESC = ['\\n', '\\t', '\\"', '\\\\', '\\/', '\\?', '\\x', '\\\n', '\\\r\n', '\\\r', "\\'"]


def gen_doc(rng, noisy=None, star=None):
    """A KV/FGD-like document with every construct the tokenizer knows. Clean documents (70 %) tokenize to EOF under
    the default options (plus allow_star_comments when they contain a star comment); noisy ones add unterminated
    constructs, nesting, stray closers and garbage, so that every error site is reached."""
    if noisy is None:
        noisy = rng.random() < 0.3
    if star is None:
        star = rng.random() < 0.5
    target = rng.randrange(50, 501)
    parts = []
    if rng.random() < 0.25:
        parts.append('\ufeff')
    nl = rng.choice(['\n', '\r\n', '\r', None])

    def newline():
        return nl if nl is not None else rng.choice(['\n', '\r\n', '\r', '\n\r', '\r\r\n'])
    total = 0
    while total < target:
        k = rng.random()
        if k < 0.22:
            body = ''.join(rng.choice(ESC) if rng.random() < 0.25 else rng.choice(['a', 'b', ' ', '/', '*', '\n', '\r\n', '\r', '{', '[', '(', '#', 'é'])
                           for _ in range(rng.randrange(0, 12)))
            p = '"' + body + ('"' if not noisy or rng.random() < 0.97 else '')
        elif k < 0.40:
            p = rng.choice(WORDS)
        elif k < 0.52:
            p = newline()
        elif k < 0.62:
            p = rng.choice([' ', '\t', '  ', ' \t '])
        elif k < 0.68:
            p = rng.choice(['{', '}', '=', ',', ':', '+'])
        elif k < 0.75:
            p = ' //' + ''.join(rng.choice(['a', ' ', '/', '*', '"', '\r', '\\', '[']) for _ in range(rng.randrange(0, 10))) + rng.choice([newline(), newline(), ''])
        elif k < 0.83:
            if not (star or noisy):
                continue
            p = ' /*' + ''.join(rng.choice(['a', ' ', '*', 'x/', '\n', '\r\n', '**', '* /', '"']) for _ in range(rng.randrange(0, 10))) \
                + (rng.choice(['*/', '**/', '***/']) if not noisy else rng.choice(['*/', '*/', '*/', '**/', '*', '']))
        elif k < 0.88:
            p = ' [' + ''.join(rng.choice(['a', '!', ' ', '$', '\r', '*']) for _ in range(rng.randrange(0, 6))) \
                + (']' if not noisy else rng.choice([']', ']', ']', '\n', '[', '']))
        elif k < 0.93:
            p = ' (' + ''.join(rng.choice(['a', ' ', ',', '\n', '\r\n', '"', '/'] if noisy else ['a', ' ', ',', '\n', '\r\n', 'b/c']) for _ in range(rng.randrange(0, 8))) \
                + (')' if not noisy else rng.choice([')', ')', ')', '(', '']))
        elif k < 0.97:
            p = ' #' + rng.choice(['Include', 'BASE', 'ß', 'İx', 'a:b', 'a+b', '']) + rng.choice([' ', '\n', '"x"', ''])
        else:
            if not noisy:
                continue
            p = rng.choice(["'", ';', ']', ')', '/', '/ /', '\ufeff', '\\', '*/', '\x00', '\U0001F600'])
        parts.append(p)
        total += len(p)
    return ''.join(parts)


def cut(s, positions):
    ps = sorted(set(p for p in positions if 0 < p < len(s)))
    out, last = [], 0
    for p in ps:
        out.append(s[last:p])
        last = p
    out.append(s[last:])
    return out


def adversarial_cuts(s):
    """Positions that split CR|LF, backslash|escaped char, *|/, /|/, /|* and quote boundaries."""
    ps = set()
    for i in range(len(s) - 1):
        two = s[i:i + 2]
        if two in ('\r\n', '*/', '//', '/*', '**') or s[i] == '\\' or s[i + 1] in '"\n' or s[i] in '"\n\r':
            ps.add(i + 1)
    return ps


def doc_deliveries(rng, s):
    adv = adversarial_cuts(s)
    out = [('str', [s], True)]
    out.append(('list:adversarial', cut(s, adv), False))
    out.append(('list:chars', list(s), False))
    rnd = {rng.randrange(1, max(2, len(s))) for _ in range(rng.randrange(1, 12))}
    out.append(('list:random', cut(s, rnd), False))
    mix = cut(s, set(rng.sample(sorted(adv), min(len(adv), rng.randrange(0, 8)))) | rnd)
    em = []
    for c in mix:
        em += [''] * rng.randrange(0, 3) + [c]
    em += [''] * rng.randrange(0, 3)
    out.append(('list:empties', em, False))
    out.append(('gen:adversarial', cut(s, adv), False))
    out.append(('lines', s.splitlines(keepends=True), False))
    out.append(('stringio', list(io.StringIO(s)), False))
    out.append(('stringio-universal', list(io.StringIO(s, newline='')), False))
    return out


def _mk_delivery(name, chunks, s):
    if name == 'str':
        return s
    if name.startswith('gen'):
        return _gen(list(chunks))
    if name == 'stringio':
        return io.StringIO(s)
    if name == 'stringio-universal':
        return io.StringIO(s, newline='')
    return list(chunks)


def _doc_worker(jobs):
    Tokenizer, CountTok, TSE = _classes()
    out = []
    for (s, optsets, dels) in jobs:
        n = len(s)
        res = []
        for opts in optsets:
            ref = None
            row = []
            probs = []
            for (name, chunks, _isstr) in dels:
                r, calls, pr = observe(lambda: _mk_delivery(name, chunks, s), opts, n)
                for key, what in pr:
                    probs.append((key, what, name))
                if ref is None:
                    ref = r
                    r0 = r if any(k == 'non-termination' for k, _w in pr) else _impl_run_guarded(Tokenizer, TSE, s, opts, n)
                    if r0 != r:
                        probs.append(('chunk-dependence', f'plain Tokenizer gives {r0}, counting subclass {r}', name))
                elif tokutil.strip_exc(r) != tokutil.strip_exc(ref):
                    probs.append(('chunk-dependence', f'delivery {name} gives {tokutil.strip_exc(r)} but the whole string gives {tokutil.strip_exc(ref)}', name))
                row.append((tokutil.strip_exc(r), calls))
            res.append((opts, row, probs))
        out.append(res)
    return out


# --------------------------------------------------------------------------- pool helpers

def _pmap(fn, jobs, timeout):
    """Ordered parallel map over job batches (fork: workers inherit the imported working tree)."""
    if NPROC == 1 or len(jobs) <= 1:
        return [fn(j) for j in jobs]
    mp = multiprocessing.get_context('fork')
    with mp.Pool(NPROC) as pool:
        ar = pool.map_async(fn, jobs, chunksize=1)
        try:
            return ar.get(timeout)
        except multiprocessing.TimeoutError:
            pool.terminate()
            raise common.Timeout(f'implementation workers exceeded {timeout}s')


def _drv_parallel(drv, reqs, parts=NPROC, timeout=900):
    """Run one driver over request slices concurrently (each slice = one process)."""
    if not reqs:
        return []
    k = max(1, min(parts, len(reqs)))
    step = (len(reqs) + k - 1) // k
    slices = [reqs[i:i + step] for i in range(0, len(reqs), step)]
    res = [None] * len(slices)
    errs = []

    def run(i):
        try:
            res[i] = drv.batch(slices[i], timeout=timeout)
        except BaseException as e:
            errs.append(e)
    ths = [threading.Thread(target=run, args=(i,)) for i in range(len(slices))]
    for t in ths:
        t.start()
    for t in ths:
        t.join()
    if errs:
        raise errs[0]
    return [r for sl in res for r in sl]


def _batches(items, size):
    return [items[i:i + size] for i in range(0, len(items), size)]


# --------------------------------------------------------------------------- generators of the exhaustive part

def alphabet16(ctx):
    rest = [c for c in SIGMA22 if c not in MANDATORY]
    return MANDATORY + sorted(ctx.rng.sample(rest, 10), key=SIGMA22.index)


def exhaustive_strings(ctx, alpha):
    out = []
    for n in range(0, 4):
        out += [''.join(t) for t in itertools.product(alpha, repeat=n)]
    if ctx.thorough:
        sub = MANDATORY + sorted(ctx.rng.sample([c for c in alpha if c not in MANDATORY], 4), key=SIGMA22.index)
        out += [''.join(t) for t in itertools.product(sub, repeat=4)]
        ctx.extra['exhaustive_len4_alphabet'] = [ord(c) for c in sub]
    return out


def _witness_from(ctx, s, key, what, opts, name):
    ctx.witness(key, f'text {s!r}, options {dict(zip(tokutil.OPT_NAMES, opts))}, delivery {name}: {what}',
                {'s': codes(s), 'opts': opts, 'delivery': name})


# --------------------------------------------------------------------------- correspondence

def correspond(ctx, drivers):
    drv_c, drv_a = drivers['drv_c03'], drivers['drv_tok']
    # 0. the chunking enumeration is the same on both sides
    probe = ['', 'a', 'ab', 'a\rb', 'abcd']
    reqs = [{'op': 'chunking', 's': codes(s), 'ci': ci} for s in probe for ci in range(n_chunkings(s))]
    rep = drv_c.batch(reqs)
    i = 0
    for s in probe:
        for ci in range(n_chunkings(s)):
            if [uncodes(c) for c in rep[i]] != chunking(s, ci):
                ctx.disagree({'s': codes(s), 'ci': ci}, chunking(s, ci), rep[i], 'chunking enumeration')
            i += 1

    # 1. exhaustive part
    alpha = alphabet16(ctx)
    ctx.extra['exhaustive_alphabet'] = [ord(c) for c in alpha]
    strings = exhaustive_strings(ctx, alpha)
    ctx.exhaustive = False
    ctx.extra['exhaustive_part'] = (f'all {len(strings)} strings of length <= 3 over the 16-symbol alphabet'
                                    + (' and length 4 over a 10-symbol sub-alphabet' if ctx.thorough else '')
                                    + ' x 128 option sets x all deliveries')
    model_box = {}

    def model_side():
        try:
            model_box['r'] = _drv_parallel(drv_c, [{'op': 'exh', 's': codes(s), 'fold': tokutil.fold_table(s)} for s in strings],
                                           parts=max(2, NPROC // 2))
        except BaseException as e:
            model_box['e'] = e
    th = threading.Thread(target=model_side)
    th.start()
    t0 = time.time()
    impl = [x for b in _pmap(_exh_worker, _batches(strings, 24), ctx.budget(600, 2400)) for x in b]
    th.join()
    if 'e' in model_box:
        raise model_box['e']
    ctx.extra['exhaustive_wall_s'] = round(time.time() - t0, 1)
    maxratio = 0
    for (s, a, diffs, probs, maxcalls, nerr, ndel, acalls, cdiffs), m in zip(impl, model_box['r']):
        n = len(s)
        nontriv = bool(SPECIAL & set(s))
        for name_i in range(ndel):
            ctx.case({'s': codes(s), 'delivery': name_i}, nontrivial=nontriv, sample_every=4999)
        ctx.evaluations += ndel * 127
        ctx.traces_vs_impl += ndel * 128
        ctx.count(f'exh len={n}', ndel * 128)
        ctx.count('exh runs ending in error', nerr)
        ctx.count('exh runs ending in EOF', 128 - nerr)
        if n:
            maxratio = max(maxratio, maxcalls - 2 * n)
        if 'error' in m:
            ctx.disagree({'s': codes(s)}, None, m, 'driver error')
            continue
        for oi in range(128):
            if a[oi] != m['a'][oi]:
                ctx.disagree({'s': codes(s), 'opts': optset(oi), 'delivery': 'str'}, a[oi], m['a'][oi], 'TokA vs Tokenizer(str)')
        # model says some chunking differs from the abstract run: compare with what the implementation did there
        mdiff = {(d[0], d[1]): d[2] for d in m['cdiff']}
        idiff = {}
        for (oi, name, r) in diffs:
            idiff[(oi, name)] = r
        for (oi, ci), r in mdiff.items():
            name = 'str' if ci == m['n'] else f'list:{ci}'
            if idiff.get((oi, name)) != r:
                ctx.disagree({'s': codes(s), 'opts': optset(oi), 'delivery': name}, idiff.get((oi, name), a[oi]), r, 'TokC differs from TokA here, implementation does not (or differently)')
        for (oi, name), r in idiff.items():
            ci = m['n'] if name == 'str' else (int(name[5:]) if name.startswith('list:') else None)
            if ci is None or mdiff.get((oi, ci)) != r:
                ctx.disagree({'s': codes(s), 'opts': optset(oi), 'delivery': name}, r, mdiff.get((oi, ci), m['a'][oi]), 'implementation depends on the delivery, TokC does not (or differently)')
        # number of _next_char calls: the same in model and implementation, for every delivery
        if acalls != m['calls']:
            oi = next(i for i in range(128) if acalls[i] != m['calls'][i])
            ctx.disagree({'s': codes(s), 'opts': optset(oi), 'delivery': 'str'}, acalls[oi], m['calls'][oi], 'number of _next_char calls')
        mcd = {(d[0], 'str' if d[1] == m['n'] else f'list:{d[1]}'): d[2] for d in m['callsdiff']}
        icd = {(oi, name): k for (oi, name, k) in cdiffs}
        if mcd != {k: v for k, v in icd.items() if k[1] == 'str' or k[1].startswith('list:')} or any(k not in mcd for k in icd):
            key = next(iter(set(mcd.items()) ^ set(icd.items())))[0]
            ctx.disagree({'s': codes(s), 'opts': optset(key[0]), 'delivery': key[1]}, icd.get(key, acalls[key[0]]), mcd.get(key, m['calls'][key[0]]), 'number of _next_char calls depends on the delivery')
        for (key, what, oi, name) in probs[:5]:
            _witness_from(ctx, s, key, what, optset(oi), name)
    ctx.extra['max_calls_minus_2n'] = maxratio

    # 2. structured random documents
    rng = ctx.rng
    ndocs = ctx.budget(900, 12000)
    jobs, meta = [], []
    for s in ending_cases():
        dd = doc_deliveries(rng, s)
        jobs.append((s, ENDING_OPTS, [d for d in dd if d[0] in ('str', 'list:adversarial', 'list:chars', 'list:empties', 'stringio-universal')]))
        ctx.count('doc ending in a special character')
    for _ in range(ndocs):
        noisy, star = rng.random() < 0.3, rng.random() < 0.5
        s = gen_doc(rng, noisy, star)
        optsets = [tokutil.DEFAULT_OPTS, [True, True, True, True, True, False, False]]
        optsets += [[rng.random() < 0.5 for _ in range(7)] for _ in range(2)]
        if star and not noisy:      # clean documents with star comments: allow them, so the run gets to the end
            optsets = [o2[:3] + [True] + o2[4:] if rng.random() < 0.85 else o2 for o2 in optsets]
        ctx.count('doc ' + ('noisy' if noisy else 'clean') + (' with star comments' if star else ''))
        dels = doc_deliveries(rng, s)
        jobs.append((s, optsets, dels))
    t0 = time.time()
    reqs = []
    for (s, optsets, dels) in jobs:
        fold = tokutil.fold_table(s)
        for opts in optsets:
            reqs.append(('a', {'op': 'run', 'opts': opts, 's': codes(s), 'fold': fold}))
            for (name, chunks, isstr) in dels:
                reqs.append(('c', {'op': 'run', 'opts': opts, 'chunks': [codes(c) for c in chunks], 'str': isstr, 'fold': fold}))
    box = {}

    def model_docs():
        try:
            box['a'] = _drv_parallel(drv_a, [r for k, r in reqs if k == 'a'], parts=2)
            box['c'] = _drv_parallel(drv_c, [r for k, r in reqs if k == 'c'], parts=max(2, NPROC // 2))
        except BaseException as e:
            box['e'] = e
    th = threading.Thread(target=model_docs)
    th.start()
    impl_docs = [x for b in _pmap(_doc_worker, _batches(jobs, 8), ctx.budget(600, 2400)) for x in b]
    th.join()
    if 'e' in box:
        raise box['e']
    ctx.extra['documents_wall_s'] = round(time.time() - t0, 1)
    ia, ic = iter(box['a']), iter(box['c'])
    for (s, optsets, dels), res in zip(jobs, impl_docs):
        n = len(s)
        nontriv = bool(SPECIAL & set(s))
        ctx.count('doc len %d-%d' % (n // 100 * 100, n // 100 * 100 + 99))
        for (opts, row, probs) in res:
            ma = next(ia)
            ctx.count('doc runs ending in ' + ('EOF' if row[0][0]['err'] is None else 'error %d' % row[0][0]['err'][0]))
            if row[0][0] != ma:
                ctx.disagree({'s': codes(s), 'opts': opts, 'delivery': 'str'}, row[0][0], ma, 'TokA vs Tokenizer(str) on a document')
            for (name, chunks, isstr), (r, calls) in zip(dels, row):
                mc = next(ic)
                mcalls = mc.pop('calls', None)
                if mcalls != calls and 'error' not in mc:
                    ctx.disagree({'s': codes(s), 'opts': opts, 'delivery': name, 'chunks': [codes(c) for c in chunks]}, calls, mcalls, 'number of _next_char calls on a document')
                ctx.case({'s': codes(s), 'opts': opts, 'delivery': name, 'chunks': len(chunks)}, nontrivial=nontriv, sample_every=7919)
                ctx.traces_vs_impl += 1
                ctx.count('delivery ' + name)
                if r != mc:
                    ctx.disagree({'s': codes(s), 'opts': opts, 'delivery': name, 'chunks': [codes(c) for c in chunks]}, r, mc, 'TokC vs implementation on a document')
            for (key, what, name) in probs[:3]:
                _witness_from(ctx, s, key, what, opts, name)

    # 3. tokenizer-level sessions
    t0 = time.time()
    run_sessions(ctx, drv_c)
    ctx.extra['sessions_wall_s'] = round(time.time() - t0, 1)

    # 4. argument forms and aliasing
    t0 = time.time()
    run_forms(ctx, drv_a)
    ctx.extra['forms_wall_s'] = round(time.time() - t0, 1)


# --------------------------------------------------------------------------- sessions

def run_sessions(ctx, drv):
    """Sequences of tokenizer objects in one import: abandoned ones (tokens pushed back, mid-string, after an error,
    line_num modified), then a fresh Tokenizer whose full stream must equal the model's and the pristine-state result.
    A failing session is confirmed from a pristine import, shrunk (ddmin) and becomes the witness."""
    rng = ctx.rng
    n = ctx.budget(1200, 12000)
    EPOCH = 40
    classes, epoch_calls = None, []
    reqs, meta = [], []
    nfound = nhang = 0
    for si in range(n):
        if si % EPOCH == 0:
            classes, epoch_calls = S.fresh_classes(), []
        calls = S.gen_session(rng, gen_doc)
        res = S.run_session(classes, calls)
        ctx.count('session')
        for c in calls:
            ctx.count('session call:' + c['mode'] + ('' if c['mode'] != 'ops' else (' leaving tokens pushed back' if c['ops'][-1] in ('peek', 'push') else '')))
        ctx.case({'session': calls}, nontrivial=True, sample_every=397)
        ctx.traces_vs_impl += 1
        for c, r in zip(calls, res):
            rq = S.model_req(c)
            if rq is not None and drv is not None:
                reqs.append(rq)
                meta.append((calls, c, r))
        # totality: a fresh tokenizer run to the end must get there within n+3 tokens / the watchdog
        for c, r in zip(calls, res):
            if S.hangs(r) and c['mode'] == 'full':
                text = ''.join(uncodes(x) for x in c['chunks'])
                nhang += 1
                if nhang <= 3:
                    _witness_from(ctx, text, 'non-termination', f'(in a session) {r.get("exc")}', c['opts'],
                                  'str' if c['str'] else c.get('delivery', 'list'))
        if nhang >= MAX_HANGS * 4:
            ctx.notes.append(f'sessions stopped after {nhang} runs that do not end ({si + 1} of {n} sessions)')
            break
        # the property itself: the last call gives what it gives on a pristine import
        if res[-1] != S.pristine(calls[-1]):
            nfound += 1
            if nfound <= 3:
                hist, note = calls, ''
                if not S.session_fails(hist):
                    if S.session_fails(epoch_calls + calls):
                        hist = epoch_calls + calls
                    else:
                        note = ' (not reproduced from a pristine import: depends on more history than this run kept)'
                if not note and nfound == 1:
                    hist = S.shrink(hist)
                after = S.run_session(S.fresh_classes(), hist)[-1] if not note else res[-1]
                ctx.witness('session-history', f'the token stream of a text depends on what other tokenizers of the process did before: '
                            f'{S.describe(hist[:-1])}; THEN {S.describe(hist[-1:])} gives {after} but on a pristine import {S.pristine(hist[-1])}{note}',
                            {'session': hist})
            classes, epoch_calls = S.fresh_classes(), []
            continue
        epoch_calls += calls
    if reqs:
        replies = _drv_parallel(drv, reqs, parts=4)
        for (calls, c, r), m in zip(meta, replies):
            want = S.model_expect(c, m)
            if r != want:
                ctx.disagree({'session': calls, 'call': c}, r, want, 'session call vs model (pure function of the call)')


# --------------------------------------------------------------------------- argument forms and aliasing

def _forms_one(ctx, classes, text, opts, rng, tmpdir, reqs=None, meta=None):
    problems, denoted = F.tokenizer_forms(classes, text, opts, rng, tmpdir)
    for form, what in problems[:4]:
        ctx.witness('argument-form', f'text {text!r}, options {dict(zip(tokutil.OPT_NAMES, opts))}, argument form "{form}": {what}',
                    {'s': codes(text), 'opts': opts, 'form': form})
    if reqs is not None:
        seen = {}
        for form, den, r in denoted:
            if den not in seen:
                seen[den] = len(reqs)
                reqs.append({'op': 'run', 'opts': opts, 's': codes(den), 'fold': tokutil.fold_table(den)})
            meta.append((text, opts, form, den, r, seen[den]))
    return len(problems), len(denoted)


def run_forms(ctx, drv_a):
    """Every accepted form of the arguments of Tokenizer(...) / Keyvalues.parse(...) gives the result of the canonical
    form (and of the model on the denoted text), arguments are left unchanged, rejected forms stay rejected."""
    import tempfile
    from srctools.tokenizer import Tokenizer, TokenSyntaxError
    from srctools.keyvalues import Keyvalues, KeyValError
    rng = ctx.rng
    texts = ending_cases()[::7] + list(S.SNIPPETS) + list(S.BROKEN)
    texts += [gen_doc(rng)[:rng.randrange(5, 120)] for _ in range(ctx.budget(60, 600))]
    reqs, meta = [], []
    with tempfile.TemporaryDirectory(prefix='c03forms') as tmpdir:
        for text in texts:
            for opts in (list(tokutil.DEFAULT_OPTS), [rng.random() < 0.5 for _ in range(7)]):
                np_, nd = _forms_one(ctx, (Tokenizer, TokenSyntaxError), text, opts, rng, tmpdir, reqs if drv_a is not None else None, meta)
                ctx.count('argument forms: tokenizer runs', nd)
                ctx.case({'forms': codes(text), 'opts': opts}, nontrivial=True, sample_every=211)
                ctx.traces_vs_impl += nd
        kvtexts = [rng.choice(['\n', '\r\n']).join(gen_kv(rng)) for _ in range(ctx.budget(60, 600))] + list(S.SNIPPETS)
        for text in kvtexts:
            for form, what in F.keyvalues_forms(Keyvalues, KeyValError, Tokenizer, text, rng)[:3]:
                ctx.witness('argument-form', f'Keyvalues.parse, text {text!r}, argument form "{form}": {what}', {'kvform': codes(text), 'form': form})
            ctx.count('argument forms: Keyvalues.parse texts')
    if reqs:
        replies = _drv_parallel(drv_a, reqs, parts=2)
        for (text, opts, form, den, r, i) in meta:
            m = replies[i]
            if r.get('exc') or {'toks': r['toks'], 'err': r['err']} != m:
                ctx.disagree({'s': codes(text), 'opts': opts, 'form': form, 'denoted': codes(den)}, r, m, 'argument form vs model on the denoted text')


# --------------------------------------------------------------------------- direct search on the implementation

def _check_text(ctx, s, optsets, rng=None, full=False):
    """The property itself on one text: all deliveries agree; EOF forever or TokenSyntaxError only; 2n+2 calls."""
    import random
    rng = rng or random.Random(0)
    n = len(s)
    found = 0
    if full and n <= 6:
        dels = [(name, mk) for name, mk in deliveries_small(s)]
    else:
        dd = doc_deliveries(rng, s)
        dels = [(name, (lambda name=name, chunks=chunks: _mk_delivery(name, chunks, s))) for (name, chunks, _x) in dd]
    for opts in optsets:
        ref = None
        for name, mk in dels:
            r, calls, pr = observe(mk, opts, n)
            for key, what in pr:
                _witness_from(ctx, s, key, what, opts, name)
                found += 1
            if ref is None:
                ref = r
            elif tokutil.strip_exc(r) != tokutil.strip_exc(ref):
                _witness_from(ctx, s, 'chunk-dependence', f'gives {tokutil.strip_exc(r)} but the whole string gives {tokutil.strip_exc(ref)}', opts, name)
                found += 1
    return found


GARBAGE = ['"', '\\', '/', '*', '[', ']', '{', '}', '\r', '\n', ' ', 'a', 'b', '#', '(', ')', '=', ',', "'", ';', '\ufeff', '!', '$']


KV_FLAGS = ['x360', '!x360', 'win32', '!win32', '$X360', 'ps3', 'flag', '', '!', 'linux', 'a b']
KV_OPTS = ['allow_escapes', 'single_line', 'newline_keys', 'newline_values', 'single_block']
KV_DEFAULT = {'allow_escapes': True, 'single_line': False, 'newline_keys': False, 'newline_values': True, 'single_block': False}


def gen_kv(rng, depth=0):
    """Lines of a KeyValues1 document: leaves and blocks, with and without [flags] (enabled and disabled ones),
    braces on the same or the next line, the odd stray token."""
    lines = []
    for _ in range(rng.randrange(0, 5)):
        name = rng.choice(['a', 'b', '"a"', '"b c"', 'key', '"k\\n"'])
        flag = (' [' + rng.choice(KV_FLAGS) + ']') if rng.random() < 0.45 else ''
        r = rng.random()
        if r < 0.40:
            lines.append(f'{name} {rng.choice(["v", chr(34) + "v w" + chr(34), chr(34) + chr(34)])}{flag}')
        elif r < 0.88 and depth < 3:
            body = gen_kv(rng, depth + 1)
            if rng.random() < 0.7:
                lines += [name + flag, '{'] + body + ['}']
            else:
                lines += [name + flag + ' {'] + body + [rng.choice(['}', '} ' + name + ' "x"'])]
        elif r < 0.94:
            lines.append(rng.choice(['{', '}', '[x360]', '"lonely"', 'a b c', '// comment', '#base "x"', 'a [x360] b']))
        else:
            lines.append(name + flag)
    return lines


def _kv_parse_check(ctx, text, chunks=None, kw=None, limit_s=KV_LIMIT_S):
    """Keyvalues.parse on garbage: returns normally or raises KeyValError, nothing else, the same for chunked input."""
    import traceback
    from srctools.keyvalues import Keyvalues, KeyValError
    kw = dict(kw or {})

    def one(data):
        ok, r = G.retrying(lambda: one_(data), limit_s)
        return r if ok else ('HANG', f'no result within {limit_s} s of CPU time (twice)', None, None)

    def one_(data):
        try:
            kv = Keyvalues.parse(data, **kw)
            return ('ok', kv.serialise() if hasattr(kv, 'serialise') else repr(kv), None, None)
        except KeyValError as e:
            return ('KeyValError', e.mess, e.line_num, None)
        except Exception as e:
            tb = traceback.extract_tb(e.__traceback__)
            mine = [f.line or '' for f in tb if f.filename.endswith('keyvalues.py') and f.name == 'parse']
            return ('OTHER', f'{type(e).__name__}: {e}', None, mine[-1] if mine else ((tb[-1].line or '') if tb else ''))
    r = one(text)
    inp = {'kv': codes(text), 'kw': kw}
    if r[0] == 'HANG':
        ctx.witness('non-termination', f'Keyvalues.parse({text!r}{", " + repr(kw) if kw else ""}) does not return: {r[1]} '
                    f'(a text of {len(text)} characters)', inp)
        return False
    if r[0] == 'OTHER':
        key = 'kv-wrong-exception'
        if kw.get('single_block') and r[1].startswith('IndexError') and 'root[0]' in (r[3] or ''):
            key = 'kv-single-block-skipped'
        ctx.witness(key, f'Keyvalues.parse({text!r}{", " + repr(kw) if kw else ""}) raised {r[1]} at `{r[3]}` (only KeyValError is allowed)', inp)
        return False
    if chunks is not None:
        r2 = one(list(chunks))
        if r2 != r:
            ctx.witness('kv-chunk-dependence', f'Keyvalues.parse of {text!r}: whole string {r[:3]}, chunks {chunks!r} {r2[:3]}', dict(inp, chunks=[codes(c) for c in chunks]))
            return False
    return True


class _Probe:
    """Stand-in for ctx while shrinking."""
    def __init__(self):
        self.witnesses = []

    def witness(self, key, what, inp):
        self.witnesses.append({'key': key, 'what': what, 'input': inp})

    def count(self, *a):
        pass


def search(ctx):
    rng = ctx.rng
    # (a) if the drivers could not be built nothing ran yet: evaluate the property on the same inputs
    if ctx.evaluations == 0:
        alpha = alphabet16(ctx)
        strings = [''.join(t) for n in range(0, 4) for t in itertools.product(alpha, repeat=n)]
        for b in _pmap(_exh_worker, _batches(strings, 24), 900):
            for (s, a, diffs, probs, maxcalls, nerr, ndel, acalls, cdiffs) in b:
                for (key, what, oi, name) in probs[:5]:
                    _witness_from(ctx, s, key, what, optset(oi), name)
        for _ in range(300):
            s = gen_doc(rng)
            _check_text(ctx, s, [tokutil.DEFAULT_OPTS, [rng.random() < 0.5 for _ in range(7)]], rng)
        run_sessions(ctx, None)
        run_forms(ctx, None)
    # (b) neighbours of every disagreeing input
    for d in ctx.disagreements[:20]:
        c = d.get('case') or {}
        if 's' not in c:
            continue
        s = uncodes(c['s'])
        optsets = [c['opts']] if 'opts' in c else [optset(oi) for oi in range(128)]
        neigh = [s, s + s, s + '\n', '\n' + s, s + '"', '"' + s] + [s[:i] + s[i + 1:] for i in range(min(len(s), 40))]
        for t in neigh:
            _check_text(ctx, t, optsets, rng, full=True)
    # (c) Keyvalues.parse: garbage and near-valid documents raise KeyValError only, and parse the same when chunked
    nkv = ctx.budget(6000, 60000)
    seen_kv = set()
    kv_hangs = 0
    for i in range(nkv):
        if kv_hangs >= MAX_HANGS:
            ctx.notes.append(f'Keyvalues.parse search stopped after {kv_hangs} inputs on which it does not return ({i} of {nkv} inputs tried)')
            break
        kw = {}
        if i % 4 == 0:
            t = ''.join(rng.choice(GARBAGE) for _ in range(rng.randrange(0, 30)))
        elif i % 4 == 1:
            t = gen_doc(rng)[:rng.randrange(10, 200)]
        else:
            t = rng.choice(['\n', '\r\n', '\n', ' ']).join(gen_kv(rng)) + rng.choice(['', '\n'])
            if rng.random() < 0.3 and t:
                j = rng.randrange(len(t))
                t = t[:j] + rng.choice(GARBAGE) + t[j + (rng.random() < 0.5):]
        if rng.random() < 0.15:           # texts ENDING in each special character
            t = t.rstrip('\n') + rng.choice(ENDINGS)
        if i % 2:
            kw = {k: rng.random() < 0.5 for k in KV_OPTS if rng.random() < 0.4}
        chunks = cut(t, adversarial_cuts(t) | {rng.randrange(1, max(2, len(t))) for _ in range(3)})
        n0 = len(ctx.witnesses)
        ok = _kv_parse_check(ctx, t, chunks, kw)
        ctx.count('Keyvalues.parse ' + ('default options' if not kw else 'random parse options'))
        if not ok:
            w = ctx.witnesses[n0] if len(ctx.witnesses) > n0 else None
            hang = w is not None and w['key'] == 'non-termination'
            kv_hangs += hang
            if w is not None and w['key'] not in seen_kv:
                seen_kv.add(w['key'])
                # shrink by lines, then by characters (a hanging probe costs its whole time limit: small limit, small budget)
                def fails(parts, key=w['key'], kw=kw, sep=''):
                    p = _Probe()
                    _kv_parse_check(p, sep.join(parts), None, kw, limit_s=0.25 if hang else KV_LIMIT_S)
                    return any(x['key'] == key for x in p.witnesses)
                budget = 40 if hang else 400
                if w['key'] != 'kv-chunk-dependence':
                    ls = t.split('\n')
                    if len(ls) > 1 and fails(ls, sep='\n'):
                        ls = common.ddmin(ls, lambda q: fails(q, sep='\n'), budget=budget)
                    small = '\n'.join(ls)
                    if len(small) > 1 and fails(list(small)):
                        small = ''.join(common.ddmin(list(small), fails, budget=budget))
                    if fails(list(small)):
                        w['input']['shrunk'] = codes(small)
                        w['what'] += f' (shrunk to {small!r})'
            elif w is not None and len(ctx.witnesses) > 12:
                ctx.witnesses.pop()      # keep the list short: one shrunk witness per kind is enough
    # (d) shrink the first tokenizer witness
    for w in ctx.witnesses:
        inp = w['input']
        if 's' not in inp or w['key'] not in ('chunk-dependence', 'wrong-exception', 'non-termination', 'eof-unstable', 'too-many-calls'):
            continue
        s = uncodes(inp['s'])
        opts = inp['opts']

        def fails(chars):
            p = _Probe()
            t = ''.join(chars)
            return _check_text(p, t, [opts], __import__('random').Random(1), full=len(t) <= 8) > 0
        if len(s) > 1 and fails(list(s)):
            small = ''.join(common.ddmin(list(s), fails))
            inp['shrunk'] = codes(small)
            w['what'] += f' (shrunk to {small!r})'
        break


def replay(ctx, payload):
    inp = payload.get('input') or {}
    if 'kv' in inp:
        t = uncodes(inp.get('shrunk') or inp['kv'])
        ch = [uncodes(c) for c in inp['chunks']] if 'chunks' in inp else None
        ok = _kv_parse_check(ctx, t, ch, inp.get('kw'))
        print('Keyvalues.parse input', repr(t), 'options', inp.get('kw'), 'chunks', ch, '->', 'only KeyValError / ok' if ok else ctx.witnesses[-1]['what'])
        return ok
    if 'form' in inp:
        import random, tempfile
        from srctools.tokenizer import Tokenizer, TokenSyntaxError
        from srctools.keyvalues import Keyvalues, KeyValError
        if 'kvform' in inp:
            probs = F.keyvalues_forms(Keyvalues, KeyValError, Tokenizer, uncodes(inp['kvform']), random.Random(0))
        else:
            with tempfile.TemporaryDirectory(prefix='c03forms') as tmpdir:
                probs = []
                for seed in range(5):
                    probs += F.tokenizer_forms((Tokenizer, TokenSyntaxError), uncodes(inp['s']), inp['opts'], random.Random(seed), tmpdir)[0]
        for form, what in probs[:5]:
            print(f'  argument form "{form}": {what}')
        return not probs
    if 'session' in inp:
        bad = S.session_fails(inp['session'])
        print('session:', S.describe(inp['session'][:-1]), '; THEN', S.describe(inp['session'][-1:]))
        print('  after this history :', S.run_session(S.fresh_classes(), inp['session'])[-1])
        print('  on a pristine import:', S.pristine(inp['session'][-1]))
        return not bad
    if 's' not in inp:
        print('replay file names a broken obligation/correspondence, no input to replay:', payload.get('broken_obligations'), payload.get('disagreements', [])[:1])
        return False
    s = uncodes(inp.get('shrunk') or inp['s'])
    n0 = len(ctx.witnesses)
    found = _check_text(ctx, s, [inp['opts']], full=True)
    if len(s) <= 6:
        found += _check_text(ctx, s, [inp['opts']], full=False)
    print('text', repr(s), 'options', dict(zip(tokutil.OPT_NAMES, inp['opts'])))
    for w in ctx.witnesses[n0:n0 + 5]:
        print('  ', w['what'])
    return found == 0


LEVEL_TEXT = ("Lean theorems about the executable models: the concrete chunk-cursor tokenizer TokC (Tokenizer._next_char with "
              "Python index semantics, push-back, every loop of _get_token/_handle_comment/_handle_string, all 7 options, "
              "line numbers, _last_was_cr, BOM rule, errors) refines the abstract tokenizer TokA through the view "
              "'characters still to be read' (C03_refine); hence the whole observable stream is the same for every "
              "chunking and for Tokenizer(str) (C03_chunk_indep); fuel length+1 per token and length+2 tokens always "
              "suffice, for both models (C03_total*); after EOF every further call is EOF (C03_eof_stable*, C03_eof_forever); the "
              "cursor index never goes below -1 at token boundaries, so the negative-index wrap-around is unreachable "
              "(C03_idx_inv); a whole run makes at most 2n+1 calls of _next_char for every chunking (C03_steps, potential "
              "argument). Model and implementation are tied by an exhaustive (length<=3 over 16 symbols x 128 option sets "
              "x all chunkings) and structured-random differential run on every check, comparing tokens, values, line "
              "numbers, errors and the number of _next_char calls. BaseTokenizer's push-back layer is a small state machine "
              "(C03_peek_call, C03_push_call, C03_fresh_stream: a fresh tokenizer drained through __call__ yields run); that "
              "every tokenizer object starts from its own empty stack and line 1 is the translator obligation C03_init_ok, "
              "and sessions of abandoned tokenizers followed by a fresh one are compared with the model and a pristine import.")
LEVEL_NOTE = ("Trusted: Lean kernel + propext/Classical.choice/Quot.sound; tools/gen_tok.py; the correspondence harness. "
              "'Only TokenSyntaxError escapes' holds of the model by typing and is checked directly on the implementation; "
              "'only KeyValError escapes Keyvalues.parse' is searched on the implementation only (one defect fixed, one open "
              "known finding for single_block=True). The Cython twin _tokenizer.pyx is not covered.")
TECHNIQUE = "Lean 4 refinement proof (concrete chunk cursor -> abstract list tokenizer), loop by loop by induction on fuel; translator + exhaustive differential correspondence over all chunkings"
DESIGN_REF = "DESIGN.md section 6, C03 and Appendix A"


def replay_known(ctx, finding):
    """Does an open known finding still reproduce on the working tree?"""
    w = finding.get('witness') or {}
    if 'kv' in w:
        p = _Probe()
        _kv_parse_check(p, w['kv'] if isinstance(w['kv'], str) else uncodes(w['kv']), None, w.get('kw'))
        return any(x['key'] == finding['key'] for x in p.witnesses)
    return None
