"""C20 helpers: per-format generators (restricted to the representable alphabet of each format),
canonical dumps, writers and readers of the implementation in /repo.

A *format* object has: name, gen(rng, size, avoid) -> value, dump(value) -> JSON-able canonical
form, write(value) -> bytes|str, read(data) -> value, and `lossy` (True when the writer
quantises: then the first generation is compared with a tolerance / projection and the exact
law is asked of the second generation).  Object equality in these modules is partly
identity-based, so every comparison is on the canonical dumps.
"""
from __future__ import annotations
import io, struct, math, json, itertools


def f32(x: float) -> float:
    return struct.unpack('<f', struct.pack('<f', x))[0]


def fbits(x: float) -> str:
    """Exact, order-free representation of a float (so -0.0 != 0.0 and no tolerance)."""
    return float(x).hex()


# ------------------------------------------------------------------ string alphabets
ASCII_NONUL = [chr(c) for c in range(1, 128)]
IDENT = list('abcdefghijklmnopqrstuvwxyzABCDEFGHIJKLMNOPQRSTUVWXYZ0123456789_.$%')
TRICKY = list('"\\\'\n\t\r {}[]()=,;:+/#?*@!<>^~`&|-') + ['é', 'ÿ', 'Δ', '\U0001F600', '\x0b', '\x08', '\x0c', '\x07']
LATIN1 = [chr(c) for c in range(1, 256)]


def rstr(rng, alphabet, maxlen=12, minlen=0):
    n = rng.randrange(minlen, maxlen + 1)
    return ''.join(rng.choice(alphabet) for _ in range(n))


def ident(rng, maxlen=10):
    return rng.choice(IDENT[:52]) + rstr(rng, IDENT, maxlen - 1)


def anystr(rng, maxlen=10, extra=()):
    """Mostly plain, sometimes containing characters special to the tokenizer."""
    r = rng.random()
    if r < 0.45:
        return rstr(rng, IDENT + [' '], maxlen)
    alpha = IDENT + TRICKY + list(extra)
    return rstr(rng, alpha, maxlen)


class Twins:
    """Remembers the strings handed out for one value and, now and then, returns a *twin* of an
    earlier one: equal under a coarse key (casefold, surrounding blanks, a path separator) but
    different in content — or the very same string again.  Every de-duplicated table (string
    pool, sound list, bone / material names, DMX string table) must keep twins apart and merge
    only exact repeats."""

    def __init__(self, allow=None, rate=0.22):
        self.seen = []
        self.allow = allow      # predicate on the resulting string (format alphabet), or None
        self.rate = rate

    def twin_of(self, rng, s):
        k = rng.randrange(0, 7)
        if k == 0:
            return s.swapcase()
        if k == 1:
            return s.upper()
        if k == 2:
            return s.lower()
        if k == 3:
            return s                                  # exact repeat: must share a slot
        if k == 4:
            return s.capitalize()
        if k == 5:
            return s.replace('ss', '\xdf') if 'ss' in s else s.replace('s', 'S', 1)   # casefold('ß') == 'ss'
        return s.replace('/', '\\') if '/' in s else s + ' '

    def __call__(self, rng, fresh):
        """`fresh()` makes a new string; returns it or a twin of an earlier one."""
        if self.seen and rng.random() < self.rate:
            t = self.twin_of(rng, rng.choice(self.seen))
            if self.allow is None or self.allow(t):
                self.seen.append(t)
                return t
        t = fresh()
        self.seen.append(t)
        return t


def grid(rng, lo=-64, hi=64, den=64):
    """A float with at most 6 binary (hence 6 decimal) fractional digits: exact under %.6f and float32."""
    return rng.randrange(lo * den, hi * den + 1) / den


def rf32(rng):
    r = rng.random()
    if r < 0.4:
        return grid(rng)
    if r < 0.5:
        return rng.choice([0.0, -0.0, 1.0, -1.0, 0.5, f32(1e-3), 3.4028234663852886e+38, 1.401298464324817e-45])
    return f32(rng.uniform(-1000, 1000) * 10 ** rng.randrange(-3, 3))


# =================================================================== cmdseq
class CmdSeq:
    name = 'cmdseq'
    lossy = False

    def __init__(self):
        from srctools import cmdseq
        self.m = cmdseq

    def _s(self, rng, width):
        r = rng.random()
        if r < 0.08:
            n = width
        elif r < 0.14:
            n = width - 1
        elif r < 0.25:
            n = 0
        else:
            n = rng.randrange(1, 24)
        return ''.join(rng.choice(ASCII_NONUL) for _ in range(n))

    def gen(self, rng, size=3, avoid=()):
        m = self.m
        seqs = {}
        tw = Twins(allow=lambda t: all(0 < ord(ch) < 128 for ch in t))
        raw_s = self._s
        self._s = lambda rng, width: (lambda t: t if len(t) <= width else t[:width])(tw(rng, lambda: raw_s(rng, width)))
        try:
            return self._gen(rng, size, seqs)
        finally:
            del self._s

    def _gen(self, rng, size, seqs):
        m = self.m
        for _ in range(rng.randrange(0, size + 1)):
            cmds = []
            for _ in range(rng.randrange(0, size + 1)):
                exe = rng.choice(list(m.SpecialCommand)) if rng.random() < 0.35 else self._s(rng, 260)
                cmds.append(m.Command(
                    exe, self._s(rng, 260),
                    enabled=rng.random() < 0.5,
                    ensure_file=None if rng.random() < 0.5 else self._s(rng, 260),
                    use_proc_win=rng.random() < 0.5,
                    no_wait=rng.random() < 0.5,
                ))
            seqs[self._s(rng, 128)] = cmds
        return seqs

    def dump(self, seqs):
        m = self.m
        out = []
        for name, cmds in seqs.items():
            cl = []
            for c in cmds:
                if isinstance(c.exe, m.SpecialCommand):
                    exe = ['special', c.exe.value]
                else:
                    exe = ['str', c.exe]
                cl.append([exe, c.args, _b(c.enabled), c.ensure_file, _b(c.use_proc_win), _b(c.no_wait)])
            out.append([name, cl])
        return out

    def write(self, seqs):
        f = io.BytesIO()
        self.m.write(seqs, f)
        return f.getvalue()

    def read(self, data):
        return self.m.parse(io.BytesIO(data))

    def features(self, v):
        return []


def _b(x):
    """bool-typed fields must come back as real bools."""
    return ['bool', bool(x)] if isinstance(x, bool) else ['notbool', repr(x)]


# =================================================================== choreo
class ChoreoBase:
    """Shared generator and dump of choreo scenes. mode = 'text' | 'bin'."""

    def __init__(self, mode):
        from srctools import choreo
        self.c = choreo
        self.mode = mode

    # ---- generation
    twins = None

    def _fresh(self, rng, maxlen):
        if self.mode == 'img':
            return rstr(rng, LATIN1, maxlen) if rng.random() < 0.3 else rstr(rng, IDENT + [' '], maxlen)
        return anystr(rng, maxlen)

    def _str(self, rng, avoid, maxlen=8):
        if self.twins is None:
            self.twins = Twins()
        return self.twins(rng, lambda: self._fresh(rng, maxlen))

    def _time(self, rng):
        # exact in float32 and with six decimals
        return grid(rng, -4, 60)

    def _curve_type(self, rng):
        c = self.c
        ints = list(c.Interpolation)
        return c.CurveType(rng.choice(ints), rng.choice(ints))

    def _byteval(self, rng):
        """A value a quantised byte can carry (k/255), as the reader produces it."""
        return rng.randrange(0, 256) / 255.0

    def _sample(self, rng, with_curve):
        c = self.c
        if self.mode == 'text':
            value = rng.choice([self._byteval(rng), grid(rng, 0, 1), rng.random()])
        else:
            value = self._byteval(rng)
        ct = self._curve_type(rng) if with_curve and rng.random() < 0.5 else c.CURVE_DEFAULT
        return c.ExpressionSample(self._time(rng), value, ct)

    def _edge(self, rng):
        c = self.c
        if self.mode != 'text' or rng.random() < 0.6:
            return c.CurveEdge(False)
        return c.CurveEdge(True, grid(rng, 0, 1), self._curve_type(rng))

    def _curve(self, rng, size, event):
        c = self.c
        ramp = [self._sample(rng, self.mode == 'text') for _ in range(rng.randrange(0, size + 1))]
        left, right = self._edge(rng), self._edge(rng)
        if event and not ramp:
            # Event.export_text only writes the ramp block when it has samples
            left = right = c.CurveEdge(False)
        return c.Curve(ramp, left, right)

    def _tags(self, rng, cls, size, avoid):
        c = self.c
        out = []
        for _ in range(rng.randrange(0, size + 1) if rng.random() < 0.5 else 0):
            if cls is c.AbsoluteTag:
                # 16-bit code / 4096: the whole range [0, 16)
                k = rng.choice([rng.randrange(0, 4097), rng.randrange(0, 65536), 65535])
                v = k / 4096.0 if self.mode != 'text' else rng.choice([k / 4096.0, rng.random() * 15.9])
            else:
                v = self._byteval(rng) if self.mode != 'text' else rng.choice([self._byteval(rng), rng.random()])
            name = self._str(rng, avoid)
            if self.mode == 'text' and not name:
                name = 'tag'
            if cls is c.TimingTag:
                out.append(cls(name, v, rng.random() < 0.5 if self.mode == 'text' else False))
            else:
                out.append(cls(name, v))
        return out

    def _flex(self, rng, size, avoid):
        c = self.c
        mag = [self._sample(rng, True) for _ in range(rng.randrange(0, size + 1))]
        dirt = None if rng.random() < 0.5 else [self._sample(rng, True) for _ in range(rng.randrange(0, size + 1))]
        return c.FlexAnimTrack(self._str(rng, avoid), rng.random() < 0.7, rf32(rng), rf32(rng), mag, dirt,
                               self._edge(rng), self._edge(rng))

    def _event(self, rng, size, avoid):
        c = self.c
        etype = rng.choice(list(c.EventType))
        text = self.mode == 'text'
        flags = c.EventFlags(rng.randrange(0, 64))
        start = self._time(rng)
        end = -1.0 if rng.random() < 0.4 else self._time(rng)
        kw = dict(
            name=self._str(rng, avoid),
            flags=flags,
            parameters=(self._str(rng, avoid), self._str(rng, avoid) if rng.random() < 0.4 else '',
                        self._str(rng, avoid) if rng.random() < 0.3 else ''),
            start_time=start, end_time=end,
            ramp=self._curve(rng, size, True),
            dist_to_targ=0.0 if rng.random() < 0.6 else grid(rng, 0, 200, 4),
            relative_tags=self._tags(rng, c.Tag, size, avoid),
            timing_tags=self._tags(rng, c.TimingTag, size, avoid),
            absolute_playback_tags=self._tags(rng, c.AbsoluteTag, size, avoid),
            absolute_shifted_tags=self._tags(rng, c.AbsoluteTag, size, avoid),
        )
        if rng.random() < 0.35 and 'relative-tag' not in avoid:
            kw['tag_name'] = self._str(rng, avoid)
            kw['tag_wav_name'] = self._str(rng, avoid)
        if rng.random() < 0.3 and not (text and 'text-flexanim' in avoid):
            kw['flex_anim_tracks'] = [self._flex(rng, size, avoid) for _ in range(rng.randrange(1, size + 1))]
        if text:
            if rng.random() < 0.3:
                kw['pitch'] = rng.randrange(-100, 101)
            if rng.random() < 0.3:
                kw['yaw'] = rng.randrange(-100, 101)
            if rng.random() < 0.2 and kw.get('flex_anim_tracks'):
                kw['default_curve_type'] = self._curve_type(rng)
        if etype is c.EventType.Gesture:
            return c.GestureEvent(gesture_sequence_duration=rng.choice([0.0, grid(rng, 0, 8)]), **kw)
        if etype is c.EventType.Loop:
            return c.LoopEvent(loop_count=rng.randrange(-128, 128), **kw)
        if etype is c.EventType.Speak:
            ct = rng.choice(list(c.CaptionType))
            comb = rng.random() < 0.5
            if ct is c.CaptionType.Disabled:
                comb = False   # not written for disabled captions, by design of the writer
            r = rng.random()
            if r < 0.3:
                token = self.twins.twin_of(rng, kw['parameters'][0])     # e.g. sound Vo.Greeting, token vo.greeting
                if self.mode == 'img' and not all(0 < ord(ch) < 256 for ch in token):
                    token = kw['parameters'][0]
            elif r < 0.65:
                token = self._str(rng, avoid)
            else:
                token = ''
            return c.SpeakEvent(caption_type=ct, cc_token=token,
                                suppress_caption_attenuation=rng.random() < 0.5,
                                use_combined_file=comb, use_gender_token=rng.random() < 0.5, **kw)
        return c.Event(type=etype, **kw)

    def gen_scene(self, rng, size=3, avoid=(), keep_twins=False):
        c = self.c
        text = self.mode == 'text'
        if not keep_twins or self.twins is None:
            # one memory per value: for scenes.image it spans all the scenes sharing the pool
            self.twins = Twins(allow=(lambda t: all(0 < ord(ch) < 256 for ch in t)) if self.mode == 'img' else None)
        events = [self._event(rng, size, avoid) for _ in range(rng.randrange(0, size + 1))]
        actors = []
        for _ in range(rng.randrange(0, size + 1)):
            chans = []
            for _ in range(rng.randrange(0, size + 1)):
                chans.append(c.Channel(self._str(rng, avoid), rng.random() < 0.7,
                                       [self._event(rng, size, avoid) for _ in range(rng.randrange(0, size + 1))]))
            actors.append(c.Actor(self._str(rng, avoid), rng.random() < 0.7, chans,
                                  self._str(rng, avoid) if text and rng.random() < 0.3 else ''))
        kw = dict(events=events, actors=actors, ramp=self._curve(rng, size, False),
                  ignore_phonemes=rng.random() < 0.5)
        if text:
            kw['map_name'] = self._str(rng, avoid) if rng.random() < 0.4 else ''
            kw['fps'] = rng.choice([10, 30, 60, 240, rng.randrange(10, 241)])
            kw['use_frame_snap'] = rng.random() < 0.5
            if rng.random() < 0.5:
                kw['scale_settings'] = {(ident(rng) if 'text-scalekey' in avoid else (self._str(rng, avoid) or 'k')): self._str(rng, avoid)
                                        for _ in range(rng.randrange(1, 4))}
        else:
            kw['text_crc'] = rng.randrange(0, 2 ** 32)
        return c.Scene(**kw)

    # ---- dump
    def d_ct(self, ct):
        return [ct.first.name, ct.second.name]

    def d_sample(self, s):
        return [fbits(s.time), fbits(s.value), self.d_ct(s.curve_type)]

    def d_edge(self, e):
        return [_b(e.active), fbits(e.zero_pos), self.d_ct(e.curve_type)]

    def d_curve(self, cv):
        return {'ramp': [self.d_sample(s) for s in cv.ramp], 'left': self.d_edge(cv.left), 'right': self.d_edge(cv.right)}

    def d_tag(self, t):
        d = [type(t).__name__, t.name, fbits(t.value)]
        if isinstance(t, self.c.TimingTag):
            d.append(_b(t.locked))
        return d

    def d_flex(self, t):
        return {'name': t.name, 'active': _b(t.active), 'min': fbits(t.min), 'max': fbits(t.max),
                'mag': [self.d_sample(s) for s in t.mag_track],
                'dir': None if t.dir_track is None else [self.d_sample(s) for s in t.dir_track],
                'left': self.d_edge(t.left), 'right': self.d_edge(t.right)}

    def d_event(self, e):
        c = self.c
        d = {'cls': type(e).__name__, 'type': e.type.name, 'name': e.name, 'flags': e.flags.value,
             'params': list(e.parameters), 'start': fbits(e.start_time), 'end': fbits(e.end_time),
             'ramp': self.d_curve(e.ramp), 'tag_name': e.tag_name, 'tag_wav_name': e.tag_wav_name,
             'dist': fbits(e.dist_to_targ),
             'rel': [self.d_tag(t) for t in e.relative_tags], 'timing': [self.d_tag(t) for t in e.timing_tags],
             'absp': [self.d_tag(t) for t in e.absolute_playback_tags], 'abss': [self.d_tag(t) for t in e.absolute_shifted_tags],
             'flex': [self.d_flex(t) for t in e.flex_anim_tracks],
             'default_curve': self.d_ct(e.default_curve_type), 'pitch': e.pitch, 'yaw': e.yaw}
        if isinstance(e, c.GestureEvent):
            d['gesture_dur'] = fbits(e.gesture_sequence_duration)
        if isinstance(e, c.LoopEvent):
            d['loop'] = e.loop_count
        if isinstance(e, c.SpeakEvent):
            d['speak'] = [e.caption_type.name, e.cc_token, _b(e.suppress_caption_attenuation),
                          _b(e.use_combined_file), _b(e.use_gender_token)]
        return d

    def dump_scene(self, s):
        return {'events': [self.d_event(e) for e in s.events],
                'actors': [{'name': a.name, 'active': _b(a.active), 'model': a.faceposer_model,
                            'channels': [{'name': ch.name, 'active': _b(ch.active),
                                          'events': [self.d_event(e) for e in ch.events]} for ch in a.channels]}
                           for a in s.actors],
                'ramp': self.d_curve(s.ramp), 'ignore_phonemes': _b(s.ignore_phonemes), 'text_crc': s.text_crc,
                'map_name': s.map_name, 'fps': s.fps, 'zoom': sorted(s.time_zoom_lookup.items()),
                'snap': _b(s.use_frame_snap), 'scale': list(s.scale_settings.items())}

    def scene_features(self, s):
        fs = set()
        for e in s.iter_events():
            if e.tag_name is not None or e.tag_wav_name is not None:
                fs.add('relative-tag')
            if e.flex_anim_tracks:
                fs.add('flexanim')
            if isinstance(e, self.c.SpeakEvent) and any(ch in e.cc_token for ch in '"\\\n\t\r'):
                fs.add('cctoken-special')
        if any(any(ch in k for ch in '"\\\n\t\r') for k in s.scale_settings):
            fs.add('scalekey-special')
        return sorted(fs)


class ChoreoText(ChoreoBase):
    name = 'choreo_text'
    lossy = True   # time with six decimals, distancetotarget with two

    def __init__(self):
        super().__init__('text')

    def gen(self, rng, size=3, avoid=()):
        return self.gen_scene(rng, size, avoid)

    dump = ChoreoBase.dump_scene
    features = ChoreoBase.scene_features

    def write(self, s):
        f = io.StringIO()
        s.export_text(f)
        return f.getvalue()

    def read(self, data):
        from srctools.tokenizer import Tokenizer
        return self.c.Scene.parse_text(Tokenizer(data))


class ChoreoBin(ChoreoBase):
    name = 'choreo_bin'
    lossy = False

    def __init__(self):
        super().__init__('bin')

    def gen(self, rng, size=3, avoid=()):
        return self.gen_scene(rng, size, avoid)

    dump = ChoreoBase.dump_scene
    features = ChoreoBase.scene_features

    def write(self, s):
        """BVCD bytes followed by the string pool (the pool is part of what a reader needs)."""
        from srctools import binformat
        pool = []
        data = s.export_binary(binformat.find_or_insert(pool, lambda x: x))
        return json.dumps([data.hex(), pool]).encode()

    def read(self, blob):
        data, pool = json.loads(blob.decode())
        return self.c.Scene.parse_binary(io.BytesIO(bytes.fromhex(data)), pool)


class ScenesImage(ChoreoBase):
    """Value = (version, [ (filename, scene) | raw entry ]). Dump = per CRC: summary + scene dump."""
    name = 'image'
    lossy = False

    def __init__(self):
        super().__init__('img')

    def gen(self, rng, size=3, avoid=()):
        c = self.c
        version = rng.choice([2, 3])
        entries, seen = [], set()
        self.twins = None
        for _ in range(rng.randrange(0, size + 2)):
            fname = 'scenes/' + ident(rng) + '.vcd' if rng.random() < 0.7 else ident(rng) + '\\' + ident(rng) + '.VCD'
            crc = c.checksum_filename(fname)
            if crc in seen:
                continue
            seen.add(crc)
            scene = self.gen_scene(rng, size, avoid, keep_twins=True)
            if scene.duration() < 0.0 or scene.duration(c.EventType.Speak) < 0.0:
                continue    # the summary stores the duration unsigned: negative durations are not representable
            e = c.Entry.from_scene(fname, scene)
            if version == 2:
                e.last_speak_ms = e.duration_ms     # version 2 has no such field: the reader substitutes the duration
            entries.append(e)
        if 'unsorted' not in avoid:
            # canonical input order (the reader returns the entries in table order = by CRC);
            # the string pool is laid out in entry order, so byte identity is asked for this order
            entries.sort(key=lambda e: e.checksum)
        return (version, entries)

    def dump(self, v):
        version, entries = v
        out = []
        for e in (entries.values() if isinstance(entries, dict) else entries):
            out.append({'crc': e.checksum, 'dur': e.duration_ms, 'last': e.last_speak_ms, 'sounds': list(e.sounds),
                        'scene': self.dump_scene(e.data)})
        out.sort(key=lambda d: d['crc'])
        return [version, out]

    def write(self, v):
        version, entries = v
        f = io.BytesIO()
        self.c.save_scenes_image_sync(f, entries, version=version)
        return bytes([version]) + f.getvalue()

    def read(self, blob):
        version = blob[0]
        return (version, self.c.parse_scenes_image(io.BytesIO(blob[1:])))

    def features(self, v):
        fs = set()
        for e in (v[1].values() if isinstance(v[1], dict) else v[1]):
            fs.update(self.scene_features(e.data))
        return sorted(fs)


# =================================================================== sndscript
class SndScript:
    name = 'sndscript'
    lossy = False

    def __init__(self):
        from srctools import sndscript
        self.m = sndscript

    def _pair(self, rng, enums, fl, avoid):
        def one():
            return rng.choice(enums) if rng.random() < 0.5 else fl()
        a = one()
        if rng.random() < 0.5 or 'range' in avoid:
            return (a, a)
        return (a, one())

    def _kv(self, rng, depth=0):
        from srctools.keyvalues import Keyvalues
        if depth < 2 and rng.random() < 0.4:
            return Keyvalues(ident(rng), [self._kv(rng, depth + 1) for _ in range(rng.randrange(0, 3))])
        return Keyvalues(ident(rng), anystr(rng))

    def _stack(self, rng):
        from srctools.keyvalues import Keyvalues
        if rng.random() < 0.5:
            return None
        return Keyvalues('', [self._kv(rng) for _ in range(rng.randrange(0, 3))])

    def gen(self, rng, size=3, avoid=()):
        m = self.m
        sounds, seen = [], set()
        tw = Twins()
        for _ in range(rng.randrange(1, size + 2)):
            # the KeyValues reader rejects line breaks in keys: not representable in a sound name
            name = (ident(rng) if 'name-special' in avoid else (anystr(rng).replace('\n', '').replace('\r', '') or 'n'))
            if name.casefold() in seen or name.startswith('#'):
                continue
            seen.add(name.casefold())
            wavs = [(ident(rng) + '.wav' if 'name-special' in avoid else tw(rng, lambda: anystr(rng, 14))) for _ in range(rng.choice([0, 1, 1, 2, 3]))]
            vol = self._pair(rng, [m.VOL_NORM], lambda: rng.choice([1.0, 0.5, rng.random(), grid(rng, 0, 1)]), avoid)
            pitch = self._pair(rng, list(m.Pitch), lambda: rng.choice([100.0, 95.0, grid(rng, 1, 255, 4), rng.uniform(1, 255)]), avoid)
            level = self._pair(rng, list(m.Level), lambda: rng.choice([75.0, grid(rng, 0, 180, 4), rng.uniform(0, 180), 1e-7]), avoid)
            chan = rng.choice(list(m.Channel)) if rng.random() < 0.7 else rng.randrange(-3, 200)
            stacks = [self._stack(rng) for _ in range(3)] if rng.random() < 0.4 else [None, None, None]
            force = rng.random() < 0.2 or any(stacks)
            sounds.append(m.Sound(name, wavs, vol, chan, level, pitch, *stacks, force_v2=force))
        return sounds

    def _d_val(self, x):
        if isinstance(x, self.m.Pitch):
            # Pitch members *are* floats (class Pitch(float, Enum)) and compare equal to them
            return ['f', fbits(float(x.value))]
        if isinstance(x, (self.m.VOLUME, self.m.Level)):
            return ['enum', x.name]
        return ['f', fbits(x)]

    def _d_kv(self, kv):
        if kv.has_children():
            return [kv.real_name, [self._d_kv(c) for c in kv]]
        return [kv.real_name, kv.value]

    def _d_stack(self, kv):
        if kv is None:
            return []
        return [self._d_kv(c) for c in kv]

    def dump(self, sounds):
        if isinstance(sounds, dict):
            sounds = list(sounds.values())
        out = []
        for s in sounds:
            vol = [self._d_val(v) for v in s.volume]
            # VOL_NORM *is* volume 1 for the writer's purposes only when written; keep the distinction
            out.append({'name': s.name, 'wavs': list(s.sounds), 'vol': vol,
                        'pitch': [self._d_val(v) for v in s.pitch], 'level': [self._d_val(v) for v in s.level],
                        'chan': s.channel.name if isinstance(s.channel, self.m.Channel) else s.channel,
                        'v2': bool(s.force_v2 or s._stack_start or s._stack_update or s._stack_stop),
                        'start': self._d_stack(s._stack_start), 'update': self._d_stack(s._stack_update),
                        'stop': self._d_stack(s._stack_stop)})
        return out

    def write(self, sounds):
        f = io.StringIO()
        for s in (sounds.values() if isinstance(sounds, dict) else sounds):
            s.export(f)
        return f.getvalue()

    def read(self, text):
        from srctools.keyvalues import Keyvalues
        return self.m.Sound.parse(Keyvalues.parse(text))

    def features(self, sounds):
        fs = set()
        for s in (sounds.values() if isinstance(sounds, dict) else sounds):
            for p in (s.volume, s.pitch, s.level):
                if p[0] != p[1]:
                    fs.add('range')
            if any(ch in s.name for ch in '"\\\n\t\r') or any(any(ch in w for ch in '"\\\n\t\r') for w in s.sounds):
                fs.add('name-special')
        return sorted(fs)


# =================================================================== vmt
VMT_VALUE = [c for c in IDENT + TRICKY if c not in '"\r']
# characters Keyvalues.serialise rewrites (escape_text) although the VMT reader does not decode escapes
VMT_ESCAPED = '\\\n\t\v\b\f\a\'"\r'


class Vmt:
    name = 'vmt'
    lossy = False

    def __init__(self):
        from srctools import vmt
        self.m = vmt

    def _val(self, rng, avoid, maxlen=10):
        r = rng.random()
        if r < 0.4:
            s = rstr(rng, IDENT + ['/'], maxlen)
        else:
            s = rstr(rng, VMT_VALUE, maxlen)
        if 'lead' in avoid:
            s = s.lstrip('/#')
        if 'backslash' in avoid:
            s = s.replace('\\', '')
        return s

    def _kv(self, rng, avoid, depth=0):
        from srctools.keyvalues import Keyvalues
        if depth < 2 and rng.random() < 0.3:
            return Keyvalues(ident(rng), [self._kv(rng, avoid, depth + 1) for _ in range(rng.randrange(0, 3))])
        v = self._val(rng, avoid)
        if 'block-backslash' in avoid:
            v = ''.join(ch for ch in v if ch not in VMT_ESCAPED)
        return Keyvalues(ident(rng), v)

    def _block(self, rng, avoid):
        from srctools.keyvalues import Keyvalues
        name = ident(rng)
        if name.casefold() == 'proxies':
            name = 'blk'
        return Keyvalues(name, [self._kv(rng, avoid, 1) for _ in range(rng.randrange(0, 4))])

    def gen(self, rng, size=3, avoid=()):
        shader = ident(rng) if ('shader-special' in avoid or rng.random() < 0.8) else (self._val(rng, avoid).strip() or 'S')
        params = {}
        tw = Twins(allow=lambda t: '"' not in t and '\r' not in t)
        raw_val = self._val
        self._val = lambda rng, avoid, maxlen=10: tw(rng, lambda: raw_val(rng, avoid, maxlen))
        try:
            return self._gen(rng, size, avoid, shader, params)
        finally:
            del self._val

    def _gen(self, rng, size, avoid, shader, params):
        for _ in range(rng.randrange(0, size + 3)):
            name = rng.choice(['$', '%', '']) + ident(rng) if rng.random() < 0.7 else (self._val(rng, avoid) or 'p')
            params[name] = self._val(rng, avoid) if rng.random() < 0.9 else ''
        blocks = [self._block(rng, avoid) for _ in range(rng.randrange(0, 3) if rng.random() < 0.5 else 0)]
        proxies = [self._block(rng, avoid) for _ in range(rng.randrange(0, 3) if rng.random() < 0.5 else 0)]
        return self.m.Material(shader, params, blocks, proxies)

    def _d_kv(self, kv):
        if kv.has_children():
            return [kv.real_name, [self._d_kv(c) for c in kv]]
        return [kv.real_name, kv.value]

    def dump(self, mat):
        return {'shader': mat.shader, 'params': [[v.name, v.value] for v in mat._params.values()],
                'blocks': [self._d_kv(b) for b in mat.blocks], 'proxies': [self._d_kv(b) for b in mat.proxies]}

    def write(self, mat):
        f = io.StringIO()
        mat.export(f)
        return f.getvalue()

    def read(self, text):
        return self.m.Material.parse(text)

    def features(self, mat):
        fs = set()

        def walk(kv):
            if kv.has_children():
                for c in kv:
                    walk(c)
            elif any(ch in kv.value for ch in VMT_ESCAPED) or any(ch in kv.real_name for ch in VMT_ESCAPED):
                fs.add('block-backslash')
        for b in list(mat.blocks) + list(mat.proxies):
            walk(b)
        for v in mat._params.values():
            if v.value[:1] in ('/', '#') or v.name[:1] in ('/', '#'):
                fs.add('lead')
        from srctools.tokenizer import BARE_DISALLOWED
        if any(ch in BARE_DISALLOWED for ch in mat.shader) or mat.shader[:1] in ('/', '#'):
            fs.add('shader-special')
        return sorted(fs)


# =================================================================== particles (PCF via DMX)
class Pcf:
    name = 'pcf'
    lossy = False

    def __init__(self):
        from srctools import particles, dmx
        self.m, self.dmx = particles, dmx

    def _attr(self, rng, avoid):
        A = self.dmx.Attribute
        name = ident(rng) if rng.random() < 0.5 else rstr(rng, IDENT[:52] + [' '], 14, 1)
        if 'attr-case' in avoid:
            name = name.lower()
        k = rng.randrange(0, 8)
        if k == 0:
            return A.int(name, rng.randrange(-2 ** 31, 2 ** 31))
        if k == 1:
            # the KeyValues2 text encoding prints floats with six decimals (a DMX matter, property C14)
            return A.float(name, grid(rng) if 'f32-inexact' in avoid else rf32(rng))
        if k == 2:
            return A.bool(name, rng.random() < 0.5)
        if k == 3:
            return A.string(name, self.tw(rng, lambda: rstr(rng, [ch for ch in ASCII_NONUL if ch not in '\r'], 16)))
        if k == 4:
            return A.vec3(name, grid(rng), grid(rng), grid(rng))
        if k == 5:
            return A.color(name, rng.randrange(256), rng.randrange(256), rng.randrange(256), rng.randrange(256))
        if k == 6:
            return A.vec2(name, grid(rng), grid(rng))
        return A.vec4(name, grid(rng), grid(rng), grid(rng), grid(rng))

    def _opts(self, rng, n, avoid):
        out = {}
        for _ in range(rng.randrange(0, n + 1)):
            a = self._attr(rng, avoid)
            if a.name.casefold() in ('functionname', 'children', 'renderers', 'operators', 'initializers',
                                     'emitters', 'forces', 'constraints', 'name'):
                continue
            out[a.name.casefold()] = a
        return out

    def _ops(self, rng, size, avoid):
        return [self.m.Operator(self.tw(rng, lambda: ident(rng)), self.tw(rng, lambda: rstr(rng, IDENT[:52] + [' '], 12, 1)), self._opts(rng, 4, avoid))
                for _ in range(rng.randrange(0, size + 1) if rng.random() < 0.6 else 0)]

    def gen(self, rng, size=3, avoid=()):
        m = self.m
        enc = rng.choice(['bin1', 'bin2', 'bin3', 'bin4', 'bin5', 'kv2'])
        self.tw = Twins(allow=lambda t: all(0 < ord(ch) < 128 for ch in t) and t.strip() != '')
        if enc == 'kv2':
            avoid = tuple(avoid) + ('f32-inexact',)
        parts, seen = [], set()
        for _ in range(rng.randrange(1, size + 2)):
            name = ident(rng)
            if name.casefold() in seen:
                continue
            seen.add(name.casefold())
            parts.append(m.Particle(name, self._opts(rng, 5, avoid), *[self._ops(rng, size, avoid) for _ in range(6)]))
        for p in parts:
            for q in parts:
                if rng.random() < 0.25:
                    p.children.append(m.Child(q.name))
        return (enc, rng.choice([1, 2]), parts)

    def _d_attr(self, a):
        VT = self.dmx.ValueType
        v = a._value
        def one(x):
            if a.type is VT.FLOAT:
                return fbits(x)
            if a.type in (VT.VEC2, VT.VEC3, VT.VEC4, VT.QUATERNION, VT.ANGLE):
                return [fbits(c) for c in x]
            if a.type is VT.COLOR:
                return list(x)
            return repr(x)
        return [a.name, a.type.name, [one(x) for x in v] if a.is_array else one(v)]

    def _d_op(self, o):
        # the reader leaves the element's own `name` attribute among the options: not part of the value
        return [o.name, o.function, [[k, self._d_attr(a)] for k, a in o.options.items()
                                     if not (k == 'name' and a.type.name == 'STRING' and a.val_str == o.name)]]

    def dump(self, v):
        enc, ver, parts = v
        if isinstance(parts, dict):
            parts = list(parts.values())
        out = []
        by_fold = {p.name.casefold(): p.name for p in parts}
        for p in parts:
            out.append({'name': p.name, 'options': sorted([k, self._d_attr(a)] for k, a in p.options.items()
                                                           if not (k == 'name' and a.type.name == 'STRING' and a.val_str == p.name)),
                        **{k: [self._d_op(o) for o in getattr(p, k)] for k in
                           ('renderers', 'operators', 'initializers', 'emitters', 'forces', 'constraints')},
                        # a child is a REFERENCE to a particle system; names are case-insensitive identifiers
                        # (Particle.parse / export key them by casefold): compare by target, not by spelling
                        'children': [by_fold.get(ch.particle.casefold(), ch.particle) for ch in p.children]})
        return [enc, ver, out]

    def write(self, v):
        enc, ver, parts = v
        if isinstance(parts, dict):
            parts = list(parts.values())
        # element ids are fresh random UUIDs on every export; pin them so that bytes are comparable
        import uuid
        counter = itertools.count(1)
        saved = self.dmx.get_uuid
        self.dmx.get_uuid = lambda: uuid.UUID(int=next(counter))
        try:
            root = self.m.Particle.export(parts)
        finally:
            self.dmx.get_uuid = saved
        f = io.BytesIO()
        if enc == 'kv2':
            root.export_kv2(f, self.m.FORMAT_NAME, ver, cull_uuid=True)
        else:
            root.export_binary(f, int(enc[3:]), self.m.FORMAT_NAME, ver)
        return enc.encode() + b'|' + f.getvalue()

    def read(self, blob):
        enc, data = blob.split(b'|', 1)
        root, fmt, ver = self.dmx.Element.parse(io.BytesIO(data))
        if fmt != self.m.FORMAT_NAME:
            raise ValueError('format name ' + fmt)
        return (enc.decode(), ver, self.m.Particle.parse(root, ver))

    def features(self, v):
        fs = set()
        for p in (v[2].values() if isinstance(v[2], dict) else v[2]):
            for o in itertools.chain(p.renderers, p.operators, p.initializers, p.emitters, p.forces, p.constraints):
                if any(a.name != a.name.casefold() for a in o.options.values()):
                    fs.add('attr-case')
            if any(a.name != a.name.casefold() for a in p.options.values()):
                fs.add('attr-case')
        return sorted(fs)


# =================================================================== SMD
SMD_NAME = [c for c in ASCII_NONUL if c not in '"#;\r\n' and c >= ' ']


class Smd:
    name = 'smd'
    lossy = True    # %.6f positions, radians with six decimals

    def __init__(self):
        from srctools import smd
        from srctools.math import Vec, Angle
        self.m, self.Vec, self.Angle = smd, Vec, Angle

    def _bname(self, rng):
        s = rstr(rng, SMD_NAME, 10, 1)
        return s.replace('//', '/_')

    def _mat(self, rng):
        s = rstr(rng, [c for c in IDENT if c != '.'] + ['/', ' ', '-'], 12, 1).replace('//', '/_').strip().rstrip('\\/ \t')
        if not s or s in ('end',) or s.startswith(('version',)):
            s = 'mat'
        return s

    def gen(self, rng, size=3, avoid=()):
        m = self.m
        bones, lst = {}, []
        ok = lambda t: all(ch in SMD_NAME for ch in t) and '//' not in t
        twb = Twins(allow=lambda t: ok(t) and t == t.strip() and t != '', rate=0.3)
        twm = Twins(allow=lambda t: ok(t) and '.' not in t and t == t.strip().rstrip('\\/ \t') and t not in ('', 'end'), rate=0.3)
        raw_mat = self._mat
        self._mat = lambda rng: twm(rng, lambda: raw_mat(rng))
        try:
            return self._gen(rng, size, avoid, bones, lst, twb)
        finally:
            del self._mat

    def _gen(self, rng, size, avoid, bones, lst, twb):
        m = self.m
        for _ in range(rng.randrange(1, size + 3)):
            name = twb(rng, lambda: self._bname(rng))
            if name in bones:
                continue
            b = m.Bone(name, rng.choice(lst) if lst and rng.random() < 0.8 else None)
            bones[name] = b
            lst.append(b)
        anim = {}
        for t in sorted(rng.sample(range(0, 20), rng.randrange(1, 4))):
            anim[t] = [m.BoneFrame(b, self.Vec(grid(rng), grid(rng), grid(rng)),
                                   self.Angle(*(rng.choice([0.0, rng.uniform(0, 359.9)]) for _ in range(3))))
                       for b in lst if rng.random() < 0.8]
        tris = []
        for _ in range(rng.randrange(0, size + 1)):
            verts = []
            for _ in range(3):
                if rng.random() < 0.6 or 'multilink' in avoid:
                    links = [(rng.choice(lst), 1.0)]
                else:
                    links = [(rng.choice(lst), grid(rng, 0, 1)) for _ in range(rng.randrange(2, 4))]
                verts.append(m.Vertex(self.Vec(grid(rng), grid(rng), grid(rng)), self.Vec(grid(rng, -1, 1), grid(rng, -1, 1), grid(rng, -1, 1)),
                                      grid(rng, -2, 2), grid(rng, -2, 2), links))
            tris.append(m.Triangle(self._mat(rng), *verts))
        return m.Mesh(bones, anim, tris)

    def dump(self, mesh, angles=True):
        def fl(x):
            return fbits(x)
        bones = sorted([b.name, b.parent.name if b.parent is not None else None] for b in mesh.bones.values())
        anim = []
        for t, frames in sorted(mesh.animation.items()):
            fr = []
            for f in frames:
                rot = [fl(a) for a in f.rotation] if angles else None
                fr.append([f.bone.name, [fl(a) for a in f.position], rot])
            anim.append([t, fr])
        tris = []
        for tr in mesh.triangles:
            tris.append([tr.mat, [[[fl(a) for a in v.pos], [fl(a) for a in v.norm], fl(v.tex_u), fl(v.tex_v),
                                   [[b.name, fl(w)] for b, w in v.links]] for v in tr]])
        return {'bones': bones, 'anim': anim, 'tris': tris}

    def angles(self, mesh):
        return [[list(f.rotation) for f in frames] for t, frames in sorted(mesh.animation.items())]

    def write(self, mesh):
        f = io.BytesIO()
        mesh.export(f)
        return f.getvalue()

    def read(self, data):
        return self.m.Mesh.parse_smd(io.BytesIO(data))

    def features(self, mesh):
        fs = set()
        for tr in mesh.triangles:
            for v in tr:
                if len(v.links) > 1:
                    fs.add('multilink')
        return sorted(fs)


def all_formats():
    return [CmdSeq(), ChoreoText(), ChoreoBin(), ScenesImage(), SndScript(), Vmt(), Pcf(), Smd()]


# =================================================================== the round-trip oracle
def check_roundtrip(fmt, value):
    """The property on one value. Returns None when it holds, else (what, detail).
    Laws: read(write(x)) dumps equal to x (first generation; for lossy writers only the
    non-quantised skeleton is compared there), write(read(write(x))) == write(x) bytes, and
    read of the second generation dumps equal to the first read."""
    try:
        w0 = fmt.write(value)
    except Exception as e:
        return ('write-raises', f'{type(e).__name__}: {e}')
    try:
        x1 = fmt.read(w0)
    except Exception as e:
        return ('read-raises', f'{type(e).__name__}: {e}')
    d0 = fmt.dump(value)
    try:
        d1 = fmt.dump(x1)
    except Exception as e:     # lazily parsed parts (scenes.image entries) fail here
        return ('read-raises', f'{type(e).__name__}: {e}')
    if d0 != d1:
        if not fmt.lossy:
            return ('value-differs', _first_diff(d0, d1))
        if fmt.name == 'smd':
            if fmt.dump(value, angles=False) != fmt.dump(x1, angles=False):
                return ('value-differs', _first_diff(fmt.dump(value, angles=False), fmt.dump(x1, angles=False)))
            for fa, fb in zip(fmt.angles(value), fmt.angles(x1)):
                for ra, rb in zip(fa, fb):
                    for a, b in zip(ra, rb):
                        dlt = abs(a - b) % 360.0
                        if min(dlt, 360.0 - dlt) > 1e-4:
                            return ('value-differs', f'angle {a} read back as {b}')
        else:
            return ('value-differs', _first_diff(d0, d1))
    try:
        w1 = fmt.write(x1)
    except Exception as e:
        return ('rewrite-raises', f'{type(e).__name__}: {e}')
    if w1 != w0:
        return ('second-generation-bytes-differ', _first_diff(_show(w0), _show(w1)))
    try:
        x2 = fmt.read(w1)
    except Exception as e:
        return ('reread-raises', f'{type(e).__name__}: {e}')
    if fmt.dump(x2) != d1:
        return ('second-read-differs', _first_diff(d1, fmt.dump(x2)))
    return None


def _show(w):
    return w.hex() if isinstance(w, (bytes, bytearray)) else w


def _first_diff(a, b, path=''):
    if type(a) is not type(b):
        return f'{path}: {a!r} != {b!r}'[:300]
    if isinstance(a, dict):
        for k in a:
            if k not in b:
                return f'{path}.{k} missing'
            if a[k] != b[k]:
                return _first_diff(a[k], b[k], f'{path}.{k}')
        return f'{path}: extra keys {set(b) - set(a)}'
    if isinstance(a, list):
        if len(a) != len(b):
            return f'{path}: length {len(a)} != {len(b)}: {a!r} vs {b!r}'[:300]
        for i, (x, y) in enumerate(zip(a, b)):
            if x != y:
                return _first_diff(x, y, f'{path}[{i}]')
    if isinstance(a, str) and len(a) > 60:
        i = next((i for i, (x, y) in enumerate(zip(a, b)) if x != y), min(len(a), len(b)))
        return f'{path}: at {i}: {a[max(0, i - 20):i + 20]!r} != {b[max(0, i - 20):i + 20]!r}'
    return f'{path}: {a!r} != {b!r}'[:300]
