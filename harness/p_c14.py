"""C14 — DMX export/parse preserves the element graph in binary and KeyValues2 form; KV1 bridge."""
import io, json, copy
from common import codes, uncodes, ddmin
from tokutil import fold_table
import c14_graphs as G

PID = 'C14'
GENS = ['dmx', 'tok']
DRIVERS = ['drv_c14']
PROPS = 'Srctools.Props.C14'
RULE = ("a case = (graph spec, format configuration). Graph specs: one deterministic graph holding every one of the 14 "
        "value types as scalar, 2-array and empty array plus child, self reference, parent cycle, NULL, stubs (shared "
        "and distinct); then seeded random graphs of 1-9 elements built from a random spanning tree plus random extra "
        "edges (sharing, self loops, mutual cycles), element references placed in scalar and array attributes mixed "
        "with NULL and stub references, 0-4 further attributes per element of a random type (40% arrays, lengths "
        "0,1,2,3,5), strings over the 17-symbol alphabet SIGMA17 of C02 (ASCII subset and full), attribute names with "
        "mixed case incl. other spellings of 'name'; in the 'wild' profile element types and attribute names are drawn "
        "from SIGMA17 as well. Configurations: binary versions 1-5 x unicode mode ascii/format/silent; KeyValues2 text x "
        "unicode mode x flat x cull_uuid. Values are inside the wire types (int32, float32 patterns without NaN, "
        "angles in [0,360), time = k/10000). KV1 bridge: random Keyvalues trees (depth <= 3, duplicate / reserved / "
        "mixed-case names, empty blocks, root or named top, leaf top). Sessions: 4-8 export/parse calls in one process over a "
        "family of related graphs (the same graph again, the same UUIDs with other names, partial graphs in which some elements "
        "are replaced by stub references to their UUIDs), binary and text interleaved; after every call the result is compared "
        "with the same call made in a pristine (forked) interpreter and every tree built or returned earlier is re-dumped. "
        "Argument forms: each graph is also built through the other forms the API accepts today (arrays from list/tuple/"
        "generator/iterator via Attribute.array or item assignment, raw values vs classmethod-built Attribute objects vs "
        "mutable Vec/Angle/Matrix twins, bytes vs bytearray, name via constructor/property/item, uuid positional/keyword) and "
        "exported/parsed through other call forms (keyword/positional, BytesIO, pre-filled BytesIO, real file object, the same "
        "buffer parsed twice): same bytes/graph as the canonical form, inputs unchanged; plus hand-built aliasing scenarios "
        "(same element twice in an array, self reference, one Attribute in two elements, one list in two attributes, twins "
        "mutated later, aliased bytearray, name removed / coerced). Non-trivial = graph has more than one element "
        "or a non-string attribute; distinct by (spec, configuration) content.")
TRUSTED = ["model: C14.encodeBin / C14.decodeBin / C14.encodeType / C14.decodeType / string table / fromKv1 / toKv1 "
           "(lean/Srctools/Model/C14.lean) and the KV2 emitter/reader (Model/C14Kv2.lean); tables regenerated from dmx.py by "
           "tools/gen_dmx.py",
           "strings cross the boundary as their UTF-8 bytes: CPython's str.encode/bytes.decode, uuid.UUID text form, "
           "struct float32<->double conversion and the float->text conversions of dmx.py (_fmt_float, repr) are not modelled",
           "harness/c14_graphs.py numbers the elements of an implementation graph the way export_binary does (list "
           "iteration with append) and canonicalises values (floats as float32 bit patterns)"]
NOT_MODELLED = ["UTF-8 validity of decoded strings, exotic UUID spellings accepted by uuid.UUID",
                "float formatting/parsing in KeyValues2 text (values are carried as their text)",
                "nested KeyValues2 layout: that the emission order is a permutation of the elements (orderOK) is checked per generated graph by the driver, not proved from reachability",
                "the header comment regex of Element.parse (the harness checks the literal header)",
                "element types that collide with a value type name in KeyValues2 (format ambiguity, excluded)",
                "values outside the wire types (ints beyond int32, doubles that are not float32, NaN payloads, strings with U+0000)"]
ASSUMPTIONS = ["every element of a graph has its own UUID and its `name` attribute is a string scalar",
               "KV1 bridge: root keyvalues only at the top of a tree, leaf names are strings"]

MODES = ['ascii', 'format', 'silent']
ERR_NONASCII, ERR_TIME = 4, 9


def _impl():
    from srctools.dmx import Element
    return Element


def kv2_header(mode):
    return b'<!-- dmx encoding %skeyvalues2 1 format dmx 1 -->\r\n' % (b'unicode_' if mode == 'format' else b'')


def bin_header(v, mode):
    return b'<!-- dmx encoding %sbinary %i format dmx 1 -->' % (b'unicode_' if mode == 'format' else b'', v)


def reachable(spec):
    seen, todo = {0}, [0]
    while todo:
        i = todo.pop()
        for a in spec['elems'][i]['attrs']:
            if a['t'] == 'ELEMENT':
                for v in a['vals']:
                    if v[0] == 'i' and v[1] not in seen:
                        seen.add(v[1]); todo.append(v[1])
    return seen


def has_time(spec):
    return any(a['t'] == 'TIME' for i in reachable(spec) for a in spec['elems'][i]['attrs'])


def nonascii_reachable(spec):
    """does the exported part of the graph (what spec_canon lists) hold a non-ASCII string?"""
    def na(b): return any(x > 127 for x in b)
    for e in G.spec_canon(spec)['elems']:
        if na(e['type']) or na(e['name']):
            return True
        for a in e['attrs']:
            if na(a['name']) or (a['t'] == G.VT_NUM['STRING'] and any(na(v[1]) for v in a['vals'])):
                return True
    return False


def expected_export_error(spec, fmt, v, mode):
    """Documented refusals of the exporter (not property violations)."""
    if fmt == 'binary' and v < 3 and has_time(spec):
        return 'ValueError'
    if mode == 'ascii' and nonascii_reachable(spec):
        return 'UnicodeEncodeError'
    return None


def roundtrip(spec, cfg):
    """Export with the implementation and parse again. Returns a dict:
    orig (canonical graph of the built elements), data, export_exc, parse_exc, parsed (canonical)."""
    Element = _impl()
    elems = G.build(spec)
    root = elems[0]
    res = {'orig': G.canon(root)}
    if cfg['fmt'] == 'kv2':
        res['orig_text'] = G.canon_text(root)
    buf = io.BytesIO()
    try:
        if cfg['fmt'] == 'binary':
            root.export_binary(buf, version=cfg['v'], unicode=cfg['mode'])
        else:
            root.export_kv2(buf, flat=cfg['flat'], cull_uuid=cfg['cull'], unicode=cfg['mode'])
    except Exception as e:
        res['export_exc'] = type(e).__name__
        res['export_msg'] = str(e)[:200]
        return res
    res['data'] = buf.getvalue()
    try:
        parsed, fmt_name, fmt_ver = Element.parse(io.BytesIO(res['data']), unicode=(cfg['mode'] == 'silent'))
        res['parsed'] = G.canon(parsed)
        if cfg['fmt'] == 'kv2':
            res['parsed_text'] = G.canon_text(parsed)
        res['fmt'] = [fmt_name, fmt_ver]
    except Exception as e:
        res['parse_exc'] = type(e).__name__
        res['parse_msg'] = str(e)[:200]
    return res


def kv2_roots(g, flat):
    """element indices written with their UUID when cull_uuid is on."""
    n = len(g['elems'])
    if flat:
        return set(range(n))
    cnt = [0] * n
    cnt[0] = 1
    for e in g['elems']:
        for a in e['attrs']:
            if a['t'] == 0:
                for v in a['vals']:
                    if v[0] == 'i':
                        cnt[v[1]] += 1
    return {i for i in range(n) if cnt[i] > 1} | {0}


def judge(spec, cfg, res):
    """The property on one (graph, configuration): None if it holds, else (key, text)."""
    exp = expected_export_error(spec, cfg['fmt'], cfg.get('v', 0), cfg['mode'])
    tag = cfg['fmt']
    if 'export_exc' in res:
        if exp == res['export_exc']:
            return None
        return (f'{tag}:export:{res["export_exc"]}', f'export raised {res["export_exc"]}: {res["export_msg"]}')
    if exp is not None:
        return (f'{tag}:export-accepted', f'export should have refused ({exp}) but wrote a file')
    if 'parse_exc' in res:
        return (f'{tag}:parse:{res["parse_exc"]}', f'the exported file cannot be parsed: {res["parse_exc"]}: {res["parse_msg"]}')
    if res['fmt'] != ['dmx', 1]:
        return (f'{tag}:format-name', f'format name/version read back as {res["fmt"]}')
    if cfg['fmt'] == 'binary':
        d = G.approx_equal(res['orig'], res['parsed'], tol=0)
    else:
        keep = kv2_roots(res['orig'], cfg['flat']) if cfg['cull'] else None
        d = G.approx_equal(res['orig'], res['parsed'], keep_uuid=keep)
    if d:
        return (f'{tag}:graph-differs', f'export then parse gives a different graph: {d}')
    return None


def cfg_list(ctx):
    out = []
    for v in (1, 2, 3, 4, 5):
        for mode in MODES:
            out.append({'fmt': 'binary', 'v': v, 'mode': mode})
    for mode in MODES:
        for flat in (False, True):
            for cull in (False, True):
                out.append({'fmt': 'kv2', 'mode': mode, 'flat': flat, 'cull': cull})
    return out


PROFILES = [
    {'name': 'ascii', 'alpha': G.SIGMA_ASCII, 'name_case': True},
    {'name': 'unicode', 'alpha': G.SIGMA17, 'name_case': True},
    {'name': 'plain', 'alpha': ['a', 'n', ' ', 'Z'], 'name_case': False},
    {'name': 'wild', 'alpha': G.SIGMA17, 'wild_names': True, 'name_case': True},
]


def fixed_witnesses():
    """witness graphs of the repaired defects (known_findings.d/C14.json): run first, under every configuration."""
    import common
    out = []
    for k in common.load_known(PID):
        w = k.get('witness') or {}
        if 'spec' in w:
            out.append((k['key'], w['spec']))
    return out


def gen_specs(ctx, n):
    for key, spec in fixed_witnesses():
        yield 'regression', spec
    yield 'all-types', G.all_types_spec('x')
    yield 'all-types-uni', G.all_types_spec('é\U0001F600"\\')
    for i in range(n):
        p = PROFILES[i % len(PROFILES)]
        yield p['name'], G.gen_spec(ctx.rng, p)


def _nontrivial(spec):
    return len(spec['elems']) > 1 or any(a['t'] != 'STRING' for a in spec['elems'][0]['attrs'])


# ----------------------------------------------------------------------------- KV1 trees

def gen_kv(rng, depth=0, top=True):
    names = ['a', 'A', 'b', 'Name', 'name', 'subkeys', 'SubKeys', 'value', 'id', '', 'k"q', 'é']
    alpha = G.SIGMA17
    if top:
        kind = rng.choice(['root', 'block', 'block', 'leaf'])
    else:
        kind = 'leaf' if depth >= 3 or rng.random() < 0.6 else 'block'
    if kind == 'leaf':
        return ['l', rng.choice(names), G.rand_string(rng, alpha, 4)]
    n = rng.choice([0, 1, 2, 3, 4])
    return ['b', None if kind == 'root' else rng.choice(names), [gen_kv(rng, depth + 1, False) for _ in range(n)]]


def kv_build(t):
    from srctools.keyvalues import Keyvalues
    if t[0] == 'l':
        return Keyvalues(t[1], t[2])
    ch = [kv_build(c) for c in t[2]]
    if t[1] is None:
        return Keyvalues.root(*ch)
    return Keyvalues(t[1], ch)


def kv_canon(kv):
    if kv.has_children():
        return ['b', None if kv.is_root() else kv.real_name, [kv_canon(c) for c in kv]]
    return ['l', kv.real_name, kv.value]


def kv_names(t, out):
    if t[1] is not None:
        out.add(t[1])
    if t[0] == 'b':
        for c in t[2]:
            kv_names(c, out)


def kv_wire(t):
    if t[0] == 'l':
        return ['l', codes(t[1]), codes(t[2])]
    return ['b', None if t[1] is None else codes(t[1]), [kv_wire(c) for c in t[2]]]


def kv_unwire(t):
    if t[0] == 'l':
        return ['l', uncodes(t[1]), uncodes(t[2])]
    return ['b', None if t[1] is None else uncodes(t[1]), [kv_unwire(c) for c in t[2]]]


def etree_canon(el):
    """shape of from_kv1's result: [type 0/1/2, name, [[k, v]...], None | [children]]."""
    ty = {'DmElementLeaf': 0, 'DmElement': 1, 'DmElementRoot': 2}.get(el.type, -1)
    attrs, sub = [], None
    for a in el.values():
        if a.name == 'name':
            continue
        if a.name == 'subkeys' and a.type.name == 'ELEMENT' and a.is_array:
            sub = [etree_canon(c) for c in a.iter_elem()]
        else:
            attrs.append([codes(a.name), codes(a.val_str)])
    return [ty, codes(el.name), attrs, sub]


def kv1_check(ctx, t, through=None):
    """Property on the implementation: to_kv1(from_kv1(t)) == t (optionally through a DMX file)."""
    Element = _impl()
    import warnings
    with warnings.catch_warnings():
        warnings.simplefilter('ignore')
        try:
            kv = kv_build(t)
            el = Element.from_kv1(kv)
            shape = etree_canon(el)
            if through is not None:
                buf = io.BytesIO()
                if through == 'kv2':
                    el.export_kv2(buf, unicode='format')
                else:
                    el.export_binary(buf, version=through, unicode='format')
                buf.seek(0)
                el = Element.parse(buf)[0]
            back = kv_canon(el.to_kv1())
        except Exception as e:
            return None, f'{type(e).__name__}: {e}'[:200], None
    return shape, None, back


# ----------------------------------------------------------------------------- value text conversions

def gen_valtext(ctx):
    """('fmt', (type, value), None) and ('parse', type, text) cases for the four integer/fixed-format types."""
    rng = ctx.rng
    out = []
    ints = [0, 1, -1, 9, 10, -10, 99, 100, 2 ** 31 - 1, -2 ** 31, 10 ** 20, -10 ** 20] + [rng.randrange(-10 ** 12, 10 ** 12) for _ in range(ctx.budget(200, 2000))]
    for i in ints:
        out.append(('fmt', ('int', i), None))
        out.append(('parse', 'int', str(i)))
    for t in ['', '-', '12a', 'x', '--1', '1-', '007', '-0']:
        out.append(('parse', 'int', t))
    for b in (0, 1):
        out.append(('fmt', ('bool', b), None))
    from srctools import BOOL_LOOKUP
    for k in list(BOOL_LOOKUP) + ['maybe', '', '2', 'tru', 'ß']:
        for t in {k, k.upper(), k.title()}:
            out.append(('parse', 'bool', t))
    for _ in range(ctx.budget(200, 2000)):
        c = [rng.choice([0, 1, 9, 10, 99, 100, 255, rng.randrange(256)]) for _ in range(4)]
        out.append(('fmt', ('color', c), None))
        out.append(('parse', 'color', ' '.join(map(str, c))))
        out.append(('parse', 'color', ' '.join(map(str, c[:3]))))
    for t in ['', '1 2', '1 2 3 4 5', '300 -4 7 1000', '1  2\t3\n4', ' 1 2 3 ', 'a b c', '1 2 x 4']:
        out.append(('parse', 'color', t))
    for _ in range(ctx.budget(200, 2000)):
        bs = [rng.randrange(256) for _ in range(rng.choice([0, 1, 2, 5, 33]))]
        out.append(('fmt', ('binary', bs), None))
        h = bytes(bs).hex(' ', 1).upper()
        out.append(('parse', 'binary', h))
        out.append(('parse', 'binary', h.lower().replace(' ', rng.choice(['', '  ', '\n', ' \t']))))
    for t in ['0', '0 0', 'GG', '0a 1', 'a b', ' 0a', '0a ']:
        out.append(('parse', 'binary', t))
    return out


def _impl_fmt(t, v):
    from srctools import dmx
    VT = dmx.ValueType
    if t == 'int': return dmx.TYPE_CONVERT[VT.INT, VT.STRING](v)
    if t == 'bool': return dmx.TYPE_CONVERT[VT.BOOL, VT.STRING](bool(v))
    if t == 'color': return dmx.TYPE_CONVERT[VT.COLOR, VT.STRING](dmx.Color(*v))
    if t == 'binary': return dmx.TYPE_CONVERT[VT.BINARY, VT.STRING](bytes(v))


def _impl_parse(t, text):
    """value in the driver's shape, or None when the conversion raises."""
    from srctools import dmx
    VT = dmx.ValueType
    try:
        if t == 'int': return int(dmx.TYPE_CONVERT[VT.STRING, VT.INT](text))
        if t == 'bool': return 1 if dmx.TYPE_CONVERT[VT.STRING, VT.BOOL](text) else 0
        if t == 'color':
            c = dmx.TYPE_CONVERT[VT.STRING, VT.COLOR](text)
            return [c.r, c.g, c.b, c.a]
        if t == 'binary': return list(dmx.TYPE_CONVERT[VT.STRING, VT.BINARY](text))
    except (ValueError, KeyError):
        return None


# spellings CPython's int() accepts beyond the canonical decimal form are outside the model
def _noncanonical_int(text):
    import re
    return not re.fullmatch(r'-?[0-9]+', text)


def _valtext_compare(ctx, cases, it):
    for kind, v, text in cases:
        r = next(it)
        ctx.traces_vs_impl += 1
        if kind == 'fmt':
            ctx.count('valtext:fmt:' + v[0])
            want = _impl_fmt(v[0], v[1])
            if uncodes(r.get('text', [])) != want:
                ctx.disagree({'valtext': v}, want, uncodes(r.get('text', [])), 'value -> text conversion')
        else:
            ctx.count('valtext:parse:' + v)
            want = _impl_parse(v, text)
            if v == 'int' and (_noncanonical_int(text) or (want is not None and str(want) != text and text not in ('-0',))):
                if _noncanonical_int(text) and r.get('v') is None and want is None:
                    continue
            if r.get('v') != want:
                # int('007') = 7 and int('-0') = 0 are read by both; anything else must agree exactly
                ctx.disagree({'valparse': [v, text]}, want, r.get('v'), 'text -> value conversion')


# ----------------------------------------------------------------------------- correspondence

def _model_err(r):
    return r.get('err', [None])[0] if isinstance(r, dict) and 'err' in r else None


def correspond(ctx, drivers):
    drv = drivers['drv_c14']
    n_graphs = ctx.budget(220, 2500)
    cfgs = cfg_list(ctx)
    reqs, meta = [{'op': 'tables'}, {'op': 'codes'}], []
    ctx.extra['failing_cases'] = []
    heaps = []
    for prof, spec in gen_specs(ctx, n_graphs):
        sc = G.spec_canon(spec)
        # the numbering traversal: the model numbers the heap graph given in spec order
        reqs.append({'op': 'number', 'g': G.spec_heap(spec), 'root': 0})
        heaps.append([spec, sc, None])
        for cfg in cfgs:
            res = roundtrip(spec, cfg)
            case = {'spec': spec, 'cfg': cfg}
            ctx.case(case, nontrivial=_nontrivial(spec), sample_every=397)
            ctx.count(f"cfg:{cfg['fmt']}" + (f":v{cfg['v']}" if cfg['fmt'] == 'binary' else (':flat' if cfg['flat'] else ':nested') + (':cull' if cfg['cull'] else '')))
            ctx.count(f'mode:{cfg["mode"]}')
            j = judge(spec, cfg, res)
            if j:
                ctx.extra['failing_cases'].append((spec, cfg, j))
            if 'export_exc' in res:
                ctx.count('export-refused:' + res['export_exc'])
            if res['orig'] != sc:
                ctx.disagree(case, res['orig'], sc, 'harness: canonical form of built elements vs spec')
            if cfg['fmt'] == 'binary':
                uni = cfg['mode'] != 'ascii'
                reqs.append({'op': 'encode', 'v': cfg['v'], 'uni': uni, 'g': res['orig']})
                if 'data' in res:
                    hdr = bin_header(cfg['v'], cfg['mode'])
                    if not res['data'].startswith(hdr):
                        ctx.disagree(case, res['data'][:80].decode('latin1'), hdr.decode(), 'binary header comment')
                    reqs.append({'op': 'decode', 'v': cfg['v'], 'uni': uni, 'bytes': list(res['data'][len(hdr):])})
                meta.append((spec, sc, cfg, res))
                if 'data' in res and heaps[-1][2] is None:
                    heaps[-1][2] = len(meta) - 1      # a binary case whose decoded bytes show the implementation's numbering
            else:
                gtext = ''.join(chr(c) for e in res['orig_text']['elems'] for c in e['type'])
                reqs.append({'op': 'kv2', 'flat': cfg['flat'], 'cull': cfg['cull'], 'g': res['orig_text'],
                             'fold': fold_table(gtext + 'abcdefghijklmnopqrstuvwxyz_0123456789')})
                if 'data' in res:
                    hdr = kv2_header(cfg['mode'])
                    if not res['data'].startswith(hdr):
                        ctx.disagree(case, res['data'][:80].decode('latin1'), hdr.decode(), 'kv2 header comment')
                    text = res['data'][len(hdr):].decode('utf8')
                    # TextIOWrapper(newline=None) hands the tokenizer universal-newline text
                    text_nl = text.replace('\r\n', '\n').replace('\r', '\n')
                    reqs.append({'op': 'kv2parse', 'text': codes(text_nl), 'fold': fold_table(text_nl)})
                meta.append((spec, sc, cfg, res))
        ctx.count(f'profile:{prof}')
        ctx.count('elements=%d' % min(len(sc['elems']), 9))
        for e in sc['elems']:
            for a in e['attrs']:
                ctx.count(('array:' if a['arr'] else 'scalar:') + G.VT_NAMES[a['t']])
                if a['t'] == 0:
                    for v in a['vals']:
                        ctx.count('ref:' + {'n': 'NULL', 's': 'stub', 'i': 'element'}[v[0]])
                if a['arr'] and not a['vals']:
                    ctx.count('empty-array')
    # text forms of int / bool / color / binary values: model conversions vs TYPE_CONVERT
    vt_cases = gen_valtext(ctx)
    for kind, v, text in vt_cases:
        if kind == 'fmt':
            reqs.append({'op': 'valtext', 't': v[0], 'v': v[1]})
        else:
            reqs.append({'op': 'valparse', 't': v, 'text': codes(text), 'fold': fold_table(text)})
    # KV1 trees
    kv_cases = []
    for _ in range(ctx.budget(1500, 20000)):
        t = gen_kv(ctx.rng)
        names = set()
        kv_names(t, names)
        names |= {'name', 'subkeys', 'value'}
        reqs.append({'op': 'kv1', 't': kv_wire(t), 'fold': [[codes(n), codes(n.casefold())] for n in sorted(names)]})
        kv_cases.append(t)
        ctx.case({'kv1': t}, nontrivial=(t[0] == 'b' and len(t[2]) > 0), sample_every=499)
        ctx.count('kv1:' + ('leaf' if t[0] == 'l' else 'root' if t[1] is None else 'block'))
    replies = drv.batch(reqs)
    it = iter(replies)
    tables = next(it); codes_tbl = next(it)
    ctx.extra['model_tables'] = tables
    from srctools import dmx
    impl_codes = []
    for t in G.VT_NAMES:
        vt = getattr(dmx.ValueType, t)
        for arr in (False, True):
            impl_codes.append([G.VT_NUM[t], arr, dmx.VAL_TYPE_TO_IND[vt] + (dmx.ARRAY_OFFSET if arr else 0)])
    if [c[:3] for c in codes_tbl] != impl_codes:
        ctx.disagree('codes', impl_codes, codes_tbl, 'type code table')
    ctx.traces_vs_impl += 1
    per_spec = len(cfgs)
    heap_iter = iter(heaps)
    decoded = {}
    for mi, (spec, sc, cfg, res) in enumerate(meta):
        case = {'spec': spec, 'cfg': cfg}
        if mi % per_spec == 0:
            hspec, hsc, hmi = next(heap_iter)
            num = next(it)
            ctx.traces_vs_impl += 1
            ctx.count('numbering')
            if not num.get('closed'):
                ctx.disagree({'spec': hspec}, 'generated heap', 'heapClosed = false', 'generator left the domain of C14_iso')
            if num.get('g') != hsc:
                ctx.disagree({'spec': hspec}, 'harness BFS', G.approx_equal(hsc, num.get('g', {'elems': []}), tol=0), 'model numbering (indexed) vs generator graph')
            pending_num = (hspec, num, hmi)
        enc = next(it)
        if cfg['fmt'] == 'kv2':
            _kv2_compare(ctx, case, cfg, res, enc, it)
            continue
        hdr = bin_header(cfg['v'], cfg['mode'])
        if 'export_exc' in res:
            want = {'UnicodeEncodeError': ERR_NONASCII, 'ValueError': ERR_TIME}.get(res['export_exc'])
            if _model_err(enc) != want or want is None:
                ctx.disagree(case, res['export_exc'] + ': ' + res['export_msg'], enc if 'err' in enc else 'bytes', 'export refusal')
            ctx.traces_vs_impl += 1
            continue
        dec = next(it)
        body = list(res['data'][len(hdr):])
        if enc.get('bytes') != body:
            ctx.disagree(case, 'impl bytes %d' % len(body), enc if 'err' in enc else 'model bytes %d, first difference at %s' % (
                len(enc['bytes']), next((i for i, (x, y) in enumerate(zip(enc['bytes'], body)) if x != y), 'length')), 'export_binary bytes')
        elif not enc.get('ok'):
            ctx.disagree(case, 'exported', 'graphOK = false', 'model well-formedness predicate rejects an exportable graph')
        # independent decode of the implementation's bytes by the model
        if 'g' in dec and pending_num[2] == mi and dec['g'] != pending_num[1].get('g'):
            ctx.disagree(case, 'order written by export_binary', G.approx_equal(dec['g'], pending_num[1].get('g', {'elems': []}), tol=0),
                         'element numbering: decoded implementation bytes vs model traversal of the heap graph')
        if 'g' not in dec:
            ctx.disagree(case, res.get('parsed', res.get('parse_exc')), dec, 'model cannot decode the exported bytes')
        else:
            if dec['g'] != sc:
                ctx.disagree(case, 'generator graph', G.approx_equal(sc, dec['g'], tol=0), 'model decode of exported bytes vs generated graph')
            if 'parsed' in res and dec['g'] != res['parsed']:
                ctx.disagree(case, G.approx_equal(res['parsed'], dec['g'], tol=0), 'model decode', 'Element.parse vs model decode of the same bytes')
            if 'parse_exc' in res:
                ctx.disagree(case, res['parse_exc'] + ': ' + res['parse_msg'], 'model decodes', 'Element.parse fails where the model decodes')
        ctx.traces_vs_impl += 1
    _valtext_compare(ctx, vt_cases, it)
    for t in kv_cases:
        r = next(it)
        shape, exc, back = kv1_check(ctx, t)
        m_back = kv_unwire(r['back'])
        if exc is not None:
            ctx.disagree({'kv1': t}, exc, r['e'], 'from_kv1/to_kv1 raised')
        else:
            if shape != r['e']:
                ctx.disagree({'kv1': t}, shape, r['e'], 'from_kv1 element tree')
            if back != m_back:
                ctx.disagree({'kv1': t}, back, m_back, 'to_kv1(from_kv1(t))')
        if not r.get('ok'):
            ctx.disagree({'kv1': t}, 'generated tree', 'KV.ok = false', 'generator left the domain of the theorem')
        ctx.traces_vs_impl += 1


def _kv2_compare(ctx, case, cfg, res, emitted, it):
    """model emit vs exported text; model parse of the exported text vs original graph and Element.parse."""
    ctx.traces_vs_impl += 1
    if 'export_exc' in res:
        # the text model has no encoding step: a refusal must be the documented ascii one (judged by search)
        return
    par = next(it)
    body = res['data'][len(kv2_header(cfg['mode'])):].decode('utf8')
    # the generated graph must satisfy the decidable hypotheses of C14_kv2, and its emission order must be a
    # permutation of the element indices (then the relation of C14_kv2 is a graph isomorphism)
    ctx.count('kv2-hyp:' + str(bool(emitted.get('hyp'))))
    if not emitted.get('hyp'):
        ctx.disagree(case, 'exportable graph', 'graphWf/uuidsOK/nestAllOK = false', 'generator left the domain of C14_kv2')
    if not emitted.get('bfs'):
        ctx.disagree(case, 'graph numbered by the export traversal', 'bfsOrdered = false', 'generator left the domain of C14_kv2_nested')
    if not emitted.get('orderOK'):
        ctx.disagree(case, 'reachable graph', emitted.get('order'), 'emission order is not a permutation of the elements (orderOK = false)')
    if uncodes(emitted.get('text', [])) != body:
        m = uncodes(emitted.get('text', []))
        k = next((i for i, (x, y) in enumerate(zip(m, body)) if x != y), min(len(m), len(body)))
        ctx.disagree(case, body[max(0, k - 30):k + 30], m[max(0, k - 30):k + 30], 'export_kv2 text (first difference at %d)' % k)
    if 'nodes' not in par:
        ctx.disagree(case, res.get('parsed_text', res.get('parse_exc')), par, 'model cannot parse the exported text')
        return
    mg = G.renumber_nodes(par['nodes'])
    # written uuids: all, or only the roots under cull_uuid
    keep = kv2_roots(res['orig'], cfg['flat']) if cfg['cull'] else set(range(len(res['orig']['elems'])))
    for i, e in enumerate(mg['elems']):
        if (e['uuid'] is not None) != (i in keep):
            ctx.disagree(case, sorted(keep), i, 'which elements carry an id in the text')
            break
    d = G.text_graph_diff(res['orig_text'], mg)
    if d:
        ctx.disagree(case, 'original graph', d, 'model parse of exported text vs original graph')
    if 'parsed_text' in res:
        d = G.text_graph_diff(res['parsed_text'], mg)
        if d:
            ctx.disagree(case, 'Element.parse', d, 'Element.parse vs model parse of the same text')
    elif 'parse_exc' in res:
        ctx.disagree(case, res['parse_exc'] + ': ' + res['parse_msg'], 'model parses', 'Element.parse fails where the model parses')


# ----------------------------------------------------------------------------- sessions (history independence)

class Pristine:
    """Client of harness/c14_worker.py: every call is answered from a pristine interpreter state."""

    def __init__(self):
        import subprocess, sys, pathlib, os
        env = dict(os.environ)
        self.p = subprocess.Popen([sys.executable, str(pathlib.Path(__file__).with_name('c14_worker.py'))],
                                  stdin=subprocess.PIPE, stdout=subprocess.PIPE, text=True, env=env)

    def ask(self, req):
        self.p.stdin.write(json.dumps(req) + '\n')
        self.p.stdin.flush()
        line = self.p.stdout.readline()
        if not line:
            raise RuntimeError('pristine worker died')
        return json.loads(line)

    def call(self, spec, cfg):
        r = self.ask({'op': 'call', 'spec': spec, 'cfg': cfg})
        if 'data' in r:
            r['data'] = r['data'].encode('latin1')
        return r

    def session(self, steps):
        return self.ask({'op': 'session', 'steps': steps}).get('fail')

    def close(self):
        try:
            self.p.stdin.close()
            self.p.wait(timeout=10)
        except Exception:
            self.p.kill()


def call_keep(spec, cfg):
    """roundtrip() that also returns the live objects: (result dict, original root, parsed root | None)."""
    Element = _impl()
    elems = G.build(spec)
    root = elems[0]
    res = {'orig': G.canon(root)}
    buf = io.BytesIO()
    try:
        if cfg['fmt'] == 'binary':
            root.export_binary(buf, version=cfg['v'], unicode=cfg['mode'])
        else:
            root.export_kv2(buf, flat=cfg['flat'], cull_uuid=cfg['cull'], unicode=cfg['mode'])
    except Exception as e:
        res['export_exc'] = type(e).__name__
        res['export_msg'] = str(e)[:200]
        return res, root, None
    res['data'] = buf.getvalue()
    parsed = None
    try:
        parsed, fmt_name, fmt_ver = Element.parse(io.BytesIO(res['data']), unicode=(cfg['mode'] == 'silent'))
        res['parsed'] = G.canon(parsed)
        res['fmt'] = [fmt_name, fmt_ver]
    except Exception as e:
        res['parse_exc'] = type(e).__name__
        res['parse_msg'] = str(e)[:200]
    return res, root, parsed


def _same_as_pristine(cfg, res, pr):
    """None, or how the in-session result differs from the pristine result of the same call."""
    for k in ('export_exc', 'parse_exc'):
        if res.get(k) != pr.get(k):
            return f'{k}: {res.get(k)} in the session, {pr.get(k)} in a pristine state'
    if res.get('data') != pr.get('data'):
        return 'exported bytes differ from the pristine export of the same graph'
    if 'parsed' in res:
        keep = None
        if cfg['fmt'] == 'kv2' and cfg['cull']:
            keep = kv2_roots(res['orig'], cfg['flat'])        # other UUIDs are freshly generated by each parse
        d = G.approx_equal(pr['parsed'], res['parsed'], keep_uuid=keep, tol=0)
        if d:
            return f'parsed graph differs from the pristine parse of the same bytes: {d}'
    return None


def check_session(steps, pristine):
    """Run the calls of a session one after the other in THIS process. After every call: the property
    (judge), equality with the same call made in a pristine state (if `pristine`), and no change in
    any tree built or returned by an earlier call. Returns None or [step index, key, text]."""
    live = []
    for k, st in enumerate(steps):
        spec, cfg = st['spec'], st['cfg']
        try:
            res, root, parsed = call_keep(spec, cfg)
        except Exception as e:
            return [k, 'session:harness', f'{type(e).__name__}: {e}'[:200]]
        j = judge(spec, cfg, res)
        if j:
            return [k, 'session:' + j[0], f'step {k} {cfg}: {j[1]}']
        if pristine is not None:
            d = _same_as_pristine(cfg, res, pristine.call(spec, cfg))
            if d:
                return [k, 'session:history-dependent', f'step {k} {cfg}: {d}']
        for k0, what, obj, snap in live:
            try:
                now = G.canon(obj)
            except Exception as e:
                now = f'{type(e).__name__}: {e}'
            if now != snap:
                d = G.approx_equal(snap, now, tol=0) if isinstance(now, dict) else now
                return [k, 'session:earlier-tree-mutated', f'the {what} tree of step {k0} changed during step {k} {cfg}: {d}']
        live.append((k, 'exported', root, res['orig']))
        if parsed is not None:
            live.append((k, 'parsed', parsed, res['parsed']))
    return None


def stubify(spec, victims):
    """The partial graph: the elements in `victims` are excluded from the file; every reference to one of
    them becomes a stub reference carrying its UUID."""
    s = copy.deepcopy(spec)
    for e in s['elems']:
        for a in e['attrs']:
            if a['t'] == 'ELEMENT':
                a['vals'] = [['s', spec['elems'][v[1]]['uuid']] if v[0] == 'i' and v[1] in victims else v for v in a['vals']]
    return s


def renamed(spec, rng):
    """Same UUIDs and shape, other names / one more attribute: distinguishes an element from its namesake
    of another parse."""
    s = copy.deepcopy(spec)
    for i, e in enumerate(s['elems']):
        e['name'] = 'renamed%d' % i
        e['attrs'].append({'name': 'gen2', 't': 'INTEGER', 'arr': False, 'vals': [rng.randrange(1000)]})
    return s


def gen_session(rng, base):
    n = len(base['elems'])
    reach = sorted(reachable(base) - {0})
    variants = [base, base, renamed(base, rng)]
    if reach:
        for _ in range(2):
            k = rng.randrange(1, len(reach) + 1)
            variants.append(stubify(base, set(rng.sample(reach, k))))
        variants.append(stubify(renamed(base, rng), set(rng.sample(reach, 1))))
    cfgs = [{'fmt': 'kv2', 'mode': 'format', 'flat': f, 'cull': c} for f in (False, True) for c in (False, False, True)] + \
           [{'fmt': 'binary', 'v': v, 'mode': 'format'} for v in (2, 5)]
    steps = [{'spec': base, 'cfg': rng.choice(cfgs[:6])}]
    for _ in range(rng.randrange(3, 8)):
        steps.append({'spec': rng.choice(variants), 'cfg': rng.choice(cfgs)})
    return steps


def run_sessions(ctx, n_sessions):
    """Sessions over related graphs; a failing session becomes a witness (shrunk over its steps in a
    pristine process)."""
    rng = ctx.rng
    pr = Pristine()
    found = {}
    try:
        bases = [G.all_types_spec('x')]
        for i in range(n_sessions):
            if i % 3 == 0 or len(bases) < 2:
                bases.append(G.gen_spec(rng, PROFILES[i % 2]))
            steps = gen_session(rng, rng.choice(bases[-3:]))
            ctx.count('session')
            ctx.count('session-steps', len(steps))
            f = check_session(steps, pr if i % 2 == 0 or ctx.thorough else None)
            if f and f[1] not in found:
                k, key, text = f
                small = steps[:k + 1]
                # shrink the history in a pristine process, keeping the failing call last
                def fails(prefix):
                    r = pr.session(list(prefix) + [small[-1]])
                    return bool(r) and r[1] == key
                if len(small) > 2 and fails(small[:-1]):
                    small = ddmin(small[:-1], fails, budget=40) + [small[-1]]
                elif len(small) > 1 and pr.session([small[-1]]) and pr.session([small[-1]])[1] == key:
                    small = [small[-1]]
                found[key] = (text, small)
    finally:
        pr.close()
    for key, (text, small) in found.items():
        ctx.witness(key, f'session of {len(small)} export/parse calls in one process: {text}', {'session': small})


# ----------------------------------------------------------------------------- argument forms and aliasing

def _export_form(root, cfg, form):
    """export with one of the accepted call forms; returns the bytes written by this export."""
    import tempfile, os
    kw = dict(version=cfg['v'], unicode=cfg['mode']) if cfg['fmt'] == 'binary' else \
        dict(flat=cfg['flat'], cull_uuid=cfg['cull'], unicode=cfg['mode'])
    fn = root.export_binary if cfg['fmt'] == 'binary' else root.export_kv2
    if form == 'bytesio-kw':
        b = io.BytesIO(); r = fn(b, **kw); data = b.getvalue()
    elif form == 'positional':
        b = io.BytesIO()
        r = root.export_binary(b, cfg['v'], 'dmx', 1, cfg['mode']) if cfg['fmt'] == 'binary' else \
            root.export_kv2(b, 'dmx', 1, flat=cfg['flat'], cull_uuid=cfg['cull'], unicode=cfg['mode'])
        data = b.getvalue()
    elif form == 'defaults':
        b = io.BytesIO(); r = fn(b, fmt_name='dmx', fmt_ver=1, **kw); data = b.getvalue()
    elif form == 'prefixed':      # a file that already holds data: the export is appended at the current position
        b = io.BytesIO(); b.write(b'PREFIX'); r = fn(b, **kw); data = b.getvalue()
        if not data.startswith(b'PREFIX'):
            return b'<prefix overwritten>' + data
        data = data[6:]
    else:                         # 'realfile'
        fd, path = tempfile.mkstemp(prefix='c14_')
        try:
            with os.fdopen(fd, 'wb') as f:
                r = fn(f, **kw)
            with open(path, 'rb') as f:
                data = f.read()
        finally:
            os.unlink(path)
    if r is not None:
        return b'<export returned a value>' + data
    return data


def _parse_form(data, mode, form):
    """parse with one of the accepted call forms; returns (canonical graph, note)."""
    import tempfile, os
    Element = _impl()
    uni = mode == 'silent'
    if form == 'bytesio-kw':
        f = io.BytesIO(data); p = Element.parse(f, unicode=uni)
        return G.canon(p[0]), None if (not f.closed and f.getvalue() == data) else 'buffer closed or changed by parse'
    if form == 'positional':
        return G.canon(Element.parse(io.BytesIO(data), uni)[0]), None
    if form == 'twice':           # the same buffer parsed a second time after seek(0)
        f = io.BytesIO(data); a = G.canon(Element.parse(f, unicode=uni)[0]); f.seek(0)
        b = G.canon(Element.parse(f, unicode=uni)[0])
        return b, None if G.approx_equal(a, b, tol=0) is None else 'second parse of the same buffer differs'
    fd, path = tempfile.mkstemp(prefix='c14_')
    try:
        with os.fdopen(fd, 'wb') as f:
            f.write(data)
        with open(path, 'rb') as f:
            p = Element.parse(f, unicode=uni)
            closed = f.closed
        return G.canon(p[0]), None if not closed else 'file closed by parse'
    finally:
        os.unlink(path)


EXPORT_FORMS = ['bytesio-kw', 'positional', 'defaults', 'prefixed', 'realfile']
PARSE_FORMS = ['bytesio-kw', 'positional', 'twice', 'realfile']


def forms_case(spec, seed, cfg, log=lambda k: None):
    """One graph built canonically and through other accepted argument forms (chosen from `seed`), exported and
    parsed through other accepted call forms: every form must give the canonical result, no input may be
    changed. Returns None or (key, text)."""
    import random
    rng = random.Random(seed)
    a = G.build(spec)[0]
    els, check = G.build_forms(spec, rng, log)
    b = els[0]
    ca = G.canon(a)
    if G.canon(b) != ca:
        return ('forms:graph-differs', 'built through other argument forms: ' + str(G.approx_equal(ca, G.canon(b), tol=0)))
    if expected_export_error(spec, cfg['fmt'], cfg.get('v', 0), cfg['mode']):
        return None
    ref = _export_form(a, cfg, 'bytesio-kw')
    ef = rng.choice(EXPORT_FORMS)
    log('export-form:' + ef)
    snap = G.canon(b)
    out = _export_form(b, cfg, ef)
    again = _export_form(b, cfg, 'bytesio-kw')
    if out != ref or again != ref:
        return ('forms:export-differs', f'export form {ef} of the graph built through other argument forms: bytes differ from the canonical export')
    if G.canon(b) != snap:
        return ('forms:export-mutates', f'export ({ef}) changed the element graph it wrote')
    c = check()
    if c:
        return ('forms:argument-mutated', c)
    if cfg['fmt'] == 'kv2' and cfg['cull']:
        return None      # fresh UUIDs per parse: covered by the round-trip cases
    want, _ = _parse_form(ref, cfg['mode'], 'bytesio-kw')
    pf = rng.choice(PARSE_FORMS)
    log('parse-form:' + pf)
    got, note = _parse_form(out, cfg['mode'], pf)
    if note:
        return ('forms:parse-side-effect', f'parse form {pf}: {note}')
    d = G.approx_equal(want, got, tol=0)
    if d:
        return ('forms:parse-differs', f'parse form {pf}: {d}')
    return None


def _alias_scenarios():
    """Hand-written aliasing / unusual-state graphs (as the code accepts them today). Each returns the root."""
    import uuid
    from srctools.dmx import Element, Attribute, ValueType, StubElement, NULL
    from srctools.math import Vec, Angle, Matrix
    U = lambda k: uuid.UUID(int=0xC140000 + k)

    def same_elem_twice():
        r = Element('r', 'T', U(1)); c = Element('c', 'T', U(2))
        r['arr'] = Attribute.array('arr', ValueType.ELEMENT, [c, c, r, NULL, c])
        r['self'] = r
        c['back'] = Attribute.array('back', ValueType.ELEMENT, [r, c])
        return r

    def attr_in_two_elems():
        r = Element('r', 'T', U(1)); c = Element('c', 'T', U(2)); r['kid'] = c
        a = Attribute.array('shared', ValueType.INT, [1, 2])
        r['shared'] = a; c['shared'] = a
        a.append(3)                      # edit through the shared object: both elements hold the current value
        assert list(r['shared'].iter_int()) == list(c['shared'].iter_int()) == [1, 2, 3]
        return r

    def list_in_two_attrs():
        r = Element('r', 'T', U(1))
        l = [1, 2, 3]
        r['p'] = Attribute.int('p', l); r['q'] = Attribute.int('q', l)      # as coded: both attributes hold THE list
        r['p'].append(4)
        assert list(r['q'].iter_int()) == [1, 2, 3, 4]
        m = [5, 6]
        r['u'] = m; r['v'] = m; m.append(7)                                   # item assignment copies
        assert list(r['u'].iter_int()) == list(r['v'].iter_int()) == [5, 6]
        return r

    def twins_mutated_later():
        r = Element('r', 'T', U(1))
        v, a, m = Vec(1, 2, 3), Angle(10, 20, 30), Matrix.from_yaw(90)
        r['v'] = v; r['a'] = a; r['m'] = m; r['vs'] = [v, v.freeze()]
        v.x = 99; a.yaw = 5; m[0, 0] = 7.0
        assert r['v'].val_vec3.x == 1 and r['a'].val_ang.yaw == 20
        return r

    def bytearray_alias():
        r = Element('r', 'T', U(1))
        ba = bytearray(b'abc')
        r['b'] = Attribute.binary('b', ba)
        ba[0] = 0x7a                     # as coded the attribute holds the caller's buffer: export shows the current bytes
        return r

    def name_removed():
        r = Element('r', 'T', U(1)); c = Element('c', 'T', U(2)); r['kid'] = c; r['i'] = 1
        del c['name']; del r['name']
        return r

    def name_coerced():
        r = Element('r', 'T', U(1)); c = Element('c', 'T', U(2)); r['kid'] = c
        r['name'] = 5; c['name'] = Attribute.float('name', 2.5)
        c.name = 7                       # the property coerces to str
        return r

    return [same_elem_twice, attr_in_two_elems, list_in_two_attrs, twins_mutated_later, bytearray_alias,
            name_removed, name_coerced]


def scenario_case(name):
    """Export -> parse of a hand-built aliasing scenario under several configurations. None or (key, text)."""
    Element = _impl()
    fn = {f.__name__: f for f in _alias_scenarios()}[name]
    for cfg in ({'fmt': 'binary', 'v': 5, 'mode': 'ascii'}, {'fmt': 'binary', 'v': 2, 'mode': 'ascii'},
                {'fmt': 'kv2', 'mode': 'ascii', 'flat': False, 'cull': False},
                {'fmt': 'kv2', 'mode': 'ascii', 'flat': True, 'cull': False}):
        try:
            root = fn()
            before = G.canon(root)
            data = _export_form(root, cfg, 'bytesio-kw')
            if _export_form(root, cfg, 'bytesio-kw') != data:
                return ('alias:' + name, f'{cfg}: two exports of the same object differ')
            if G.canon(root) != before:
                return ('alias:' + name, f'{cfg}: export changed the graph')
            parsed = Element.parse(io.BytesIO(data))[0]
            d = G.approx_equal(before, G.canon(parsed))
        except Exception as e:
            return ('alias:' + name, f'{cfg}: {type(e).__name__}: {e}'[:300])
        if d:
            return ('alias:' + name, f'{cfg}: export then parse gives a different graph: {d}')
    return None


def run_forms(ctx, n):
    rng = ctx.rng
    cfgs = [{'fmt': 'binary', 'v': v, 'mode': m} for v in (1, 3, 5) for m in ('ascii', 'format')] + \
           [{'fmt': 'kv2', 'mode': 'format', 'flat': f, 'cull': c} for f in (False, True) for c in (False, True)]
    seen = set()
    for i in range(n):
        spec = G.all_types_spec('x') if i == 0 else G.gen_spec(rng, PROFILES[i % 3])
        seed = rng.randrange(1 << 30)
        cfg = rng.choice(cfgs)
        ctx.count('forms-case')
        try:
            j = forms_case(spec, seed, cfg, ctx.count)
        except Exception as e:
            j = ('forms:' + type(e).__name__, f'{type(e).__name__}: {e}'[:300])
        if j and j[0] not in seen:
            seen.add(j[0])
            ctx.witness(j[0], f'{cfg}: {j[1]}', {'forms_spec': spec, 'forms_seed': seed, 'cfg': cfg})
    for f in _alias_scenarios():
        ctx.count('alias-scenario')
        j = scenario_case(f.__name__)
        if j:
            ctx.witness(j[0], j[1], {'scenario': f.__name__})
    ctx.extra['rejected_forms'] = G.REJECTED_FORMS


# ----------------------------------------------------------------------------- search

def _shrink(spec, cfg, key):
    """ddmin over the attributes of the graph, keeping the same failure key."""
    items = [(i, k) for i, e in enumerate(spec['elems']) for k in range(len(e['attrs']))]

    def sub(keep):
        keep = set(keep)
        s = copy.deepcopy(spec)
        for i, e in enumerate(s['elems']):
            e['attrs'] = [a for k, a in enumerate(e['attrs']) if (i, k) in keep]
        return s

    def fails(keep):
        try:
            s = sub(keep)
            j = judge(s, cfg, roundtrip(s, cfg))
        except Exception:
            return False
        return bool(j) and j[0] == key
    if len(items) < 2 or not fails(items):
        return spec
    return sub(ddmin(items, fails, budget=200))


def search(ctx):
    failing = list(ctx.extra.pop('failing_cases', []))
    cfgs = cfg_list(ctx)
    if ctx.evaluations == 0:       # driver missing: run the oracle alone
        for prof, spec in gen_specs(ctx, ctx.budget(220, 2500)):
            for cfg in cfgs:
                j = judge(spec, cfg, roundtrip(spec, cfg))
                if j:
                    failing.append((spec, cfg, j))
    # neighbours of disagreeing inputs: the same graph under every configuration
    for d in ctx.disagreements[:10]:
        c = d.get('case')
        if isinstance(c, dict) and 'spec' in c:
            for cfg in cfgs:
                try:
                    j = judge(c['spec'], cfg, roundtrip(c['spec'], cfg))
                except Exception as e:
                    j = ('harness', f'{type(e).__name__}: {e}')
                if j:
                    failing.append((c['spec'], cfg, j))
    seen = set()
    for spec, cfg, (key, what) in failing:
        if key in seen:
            ctx.count('witness-dup:' + key)
            continue
        seen.add(key)
        small = _shrink(spec, cfg, key)
        j2 = judge(small, cfg, roundtrip(small, cfg)) or (key, what)
        ctx.witness(key, f'{cfg}: {j2[1]}', {'spec': small, 'cfg': cfg})
    # other accepted argument / call forms and aliasing
    run_forms(ctx, ctx.budget(150, 1500))
    # sessions: several export/parse calls in one process over related graphs
    run_sessions(ctx, ctx.budget(60, 600))
    # KV1 bridge directly on the implementation, also through a DMX file
    rng = ctx.rng
    kseen = set()
    for i in range(ctx.budget(1500, 20000)):
        t = gen_kv(rng)
        through = [None, None, 'kv2', 5, 2, 1][i % 6]
        shape, exc, back = kv1_check(ctx, t, through)
        key = None
        if exc is not None:
            key, what = 'kv1:' + exc.split(':')[0], f'from_kv1/to_kv1 raised {exc}'
        elif back != t:
            key, what = 'kv1:tree-differs', f'to_kv1(from_kv1(t)) = {back!r}'
        if key and (key, through) not in kseen:
            kseen.add((key, through))
            ctx.witness(key + (f':via-{through}' if through else ''), f'KV1 tree {t!r} (through {through}): {what}', {'kv1': t, 'through': through})
        ctx.count('kv1-search' + (f':via-{through}' if through else ''))


def replay(ctx, payload):
    inp = payload.get('input') or {}
    if 'forms_spec' in inp:
        j = forms_case(inp['forms_spec'], inp['forms_seed'], inp['cfg'])
        print('argument forms case', inp['cfg'], '->', j or 'same result as the canonical forms')
        return j is None
    if 'scenario' in inp:
        j = scenario_case(inp['scenario'])
        print('aliasing scenario', inp['scenario'], '->', j or 'round trip ok')
        return j is None
    if 'session' in inp:
        f = check_session(inp['session'], None)
        print(f'session of {len(inp["session"])} calls ->', f or 'every call ok, earlier trees unchanged')
        return f is None
    if 'spec' in inp:
        res = roundtrip(inp['spec'], inp['cfg'])
        j = judge(inp['spec'], inp['cfg'], res)
        print('configuration', inp['cfg'], '->', j or 'round trip ok')
        return j is None
    if 'kv1' in inp:
        shape, exc, back = kv1_check(ctx, inp['kv1'], inp.get('through'))
        print('tree', inp['kv1'], '->', exc or back)
        return exc is None and back == inp['kv1']
    print('replay file names a broken obligation/correspondence, no input to replay:', payload.get('broken_obligations'), payload.get('disagreements', [])[:1])
    return False


def replay_known(ctx, finding):
    w = finding.get('witness') or {}
    if 'session' in w:
        return check_session(w['session'], None) is not None
    if 'spec' in w:
        return judge(w['spec'], w['cfg'], roundtrip(w['spec'], w['cfg'])) is not None
    if 'kv1' in w:
        shape, exc, back = kv1_check(ctx, w['kv1'], w.get('through'))
        return not (exc is None and back == w['kv1'])
    return None


LEVEL_TEXT = ("Lean theorems over the model of dmx.py: C14_codes (type byte decode . encode = id for all 14x2 codes, generic "
              "in the extracted table, re-checked on the current source by C14_gen_codes), C14_strtab, C14_graph (decodeBin v "
              "(encodeBin v g) = g for every well-formed indexed graph, versions 0-5, both encodings), C14_iso_numbering / "
              "C14_iso / C14_export_parse_iso (the export traversal numbers exactly the reachable elements once, root first; "
              "the indexed graph is isomorphic to the heap graph; composed with C14_graph), C14_kv2 / C14_kv2_flat "
              "(KeyValues2: parsing the emitted text of a well-formed graph, nested or flat, with or without cull_uuid, "
              "yields nodes that are copies of the elements along the emission order, every reference leading to a copy of "
              "its target; for flat the order is 0..n-1), C14_kv1 (to_kv1 . from_kv1 = id). Control flow tied by a "
              "differential run: exported bytes/text compared with the model's, decoded independently by the model and "
              "compared with the generator's graph and Element.parse; the traversal order compared with the order "
              "export_binary writes; the decidable hypotheses of C14_kv2 evaluated on every generated graph.")
LEVEL_NOTE = ("Trusted: Lean kernel + propext/Classical.choice/Quot.sound; tools/gen_dmx.py; harness canonicalisation; CPython "
              "codecs/struct/uuid. KeyValues2 values other than references are carried as their text (the implementation's "
              "float/vector formatting is not modelled); for the nested layout 'emission order is a permutation of the "
              "elements' (orderOK) is a decidable side condition checked per case, not derived from reachability.")
TECHNIQUE = "Lean 4 proof (parser/printer round trip by induction over elements, attributes, values, bytes), translator-extracted tables, differential correspondence with independent decode"
DESIGN_REF = "DESIGN.md section 6, C14"
