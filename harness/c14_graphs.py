"""C14 helpers: graph specs (JSON-able), building real Elements from them, canonical indexed form
of an Element graph (the shape the Lean driver speaks), generators, comparison."""
import struct, uuid as uuidmod, io, math

VT_NAMES = ['ELEMENT', 'INTEGER', 'FLOAT', 'BOOL', 'STRING', 'BINARY', 'TIME', 'COLOR',
            'VEC2', 'VEC3', 'VEC4', 'ANGLE', 'QUATERNION', 'MATRIX']
VT_NUM = {n: i for i, n in enumerate(VT_NAMES)}
N_FLOATS = {'FLOAT': 1, 'VEC2': 2, 'VEC3': 3, 'VEC4': 4, 'ANGLE': 3, 'QUATERNION': 4, 'MATRIX': 9}

SIGMA17 = ['\\', '"', "'", '\r', '\n', '\t', '\v', '\b', '\f', '\a', '?', '/', 'n', 'a', ' ', 'é', '\U0001F600']
SIGMA_ASCII = [c for c in SIGMA17 if ord(c) < 128]
# element types that the KV2 syntax cannot tell from value types (excluded: the format is ambiguous there)
RESERVED_TYPES = {'element', 'int', 'float', 'bool', 'string', 'binary', 'time', 'color', 'vector2', 'vector3',
                  'vector4', 'qangle', 'quaternion', 'vmatrix', 'elementid'}


def f2b(x):
    return struct.unpack('<I', struct.pack('<f', x))[0]


def b2f(b):
    return struct.unpack('<f', struct.pack('<I', b))[0]


# ----------------------------------------------------------------------------- spec -> Elements

def build(spec):
    """Real Element objects for a spec (public API only). Returns the list of elements (root first)."""
    from srctools import dmx
    from srctools.dmx import Element, Attribute, ValueType, StubElement, NULL, Color, Time, Vec2, Vec4, Quaternion
    from srctools.math import FrozenVec, FrozenAngle, Matrix
    elems = [Element(e['name'], e['type'], uuidmod.UUID(e['uuid'])) for e in spec['elems']]
    stubs = {}

    def conv(t, v):
        if t == 'ELEMENT':
            if v[0] == 'n':
                return NULL
            if v[0] == 's':
                if v[1] not in stubs:
                    stubs[v[1]] = StubElement.stub(uuidmod.UUID(v[1]))
                return stubs[v[1]]
            return elems[v[1]]
        if t == 'INTEGER': return int(v)
        if t == 'FLOAT': return b2f(v)
        if t == 'BOOL': return bool(v)
        if t == 'STRING': return v
        if t == 'BINARY': return bytes(v)
        if t == 'TIME': return Time(v / 10000.0)
        if t == 'COLOR': return Color(*v)
        fs = [b2f(x) for x in v]
        if t == 'VEC2': return Vec2(*fs)
        if t == 'VEC3': return FrozenVec(*fs)
        if t == 'VEC4': return Vec4(*fs)
        if t == 'ANGLE': return FrozenAngle(*fs)
        if t == 'QUATERNION': return Quaternion(*fs)
        if t == 'MATRIX':
            m = Matrix()
            for i in range(3):
                for j in range(3):
                    m[i, j] = fs[3 * i + j]
            return m.freeze()
        raise ValueError(t)

    for e, el in zip(spec['elems'], elems):
        for a in e['attrs']:
            t = a['t']
            vals = [conv(t, v) for v in a['vals']]
            if a['arr']:
                el[a['name']] = Attribute.array(a['name'], getattr(ValueType, t), vals)
            elif t == 'TIME':
                el[a['name']] = Attribute.time(a['name'], vals[0])
            else:
                el[a['name']] = vals[0]
    return elems


# ----------------------------------------------------------------------------- Elements -> canonical

def _canon_val(t, v, index, enc):
    from srctools.dmx import StubElement, NULL
    if t == 'ELEMENT':
        if v is NULL:
            return ['n']
        if isinstance(v, StubElement):
            return ['s', list(str(v.uuid).encode('ascii'))] if v.is_stub else ['n']
        return ['i', index(v)]
    if t == 'INTEGER': return ['f', [int(v)]]
    if t == 'FLOAT': return ['f', [f2b(v)]]
    if t == 'BOOL': return ['f', [1 if v else 0]]
    if t == 'STRING': return ['t', list(v.encode(enc, 'surrogatepass'))]
    if t == 'BINARY': return ['b', list(v)]
    if t == 'TIME': return ['f', [round(v.value * 10000.0)]]
    if t == 'COLOR': return ['f', [v.r, v.g, v.b, v.a]]
    if t == 'MATRIX': return ['f', [f2b(v[i, j]) for i in range(3) for j in range(3)]]
    return ['f', [f2b(x) for x in v]]


def canon(root, by_uuid=False, floats_exact=True):
    """The indexed graph reachable from `root`, numbered the way export_binary numbers it (list
    iteration with append; first occurrence wins). Element identity is object identity unless
    by_uuid. Strings are UTF-8 bytes. This is the JSON `G` of the Lean driver."""
    from srctools.dmx import StubElement, ValueType
    elements = [root]
    key = (lambda e: e.uuid) if by_uuid else id
    ind = {key(root): 0}

    def index(e):
        k = key(e)
        if k not in ind:
            ind[k] = len(elements)
            elements.append(e)
        return ind[k]

    out = []
    i = 0
    while i < len(elements):
        el = elements[i]
        i += 1
        attrs = []
        for a in el.values():
            if a.name == 'name':
                continue
            t = a.type.name
            vals = list(a._value) if a.is_array else [a._value]
            attrs.append({'name': list(a.name.encode('utf8', 'surrogatepass')), 't': VT_NUM[t], 'arr': bool(a.is_array),
                          'vals': [_canon_val(t, v, index, 'utf8') for v in vals]})
        out.append({'type': list(el.type.encode('utf8', 'surrogatepass')), 'name': list(el.name.encode('utf8', 'surrogatepass')),
                    'uuid': list(el.uuid.bytes_le), 'attrs': attrs})
    return {'elems': out}


def spec_canon(spec):
    """Canonical indexed form computed from the spec alone (no implementation involved): BFS from
    element 0 in attribute order."""
    order, ind = [0], {0: 0}
    out = []
    i = 0
    while i < len(order):
        e = spec['elems'][order[i]]
        i += 1
        attrs = []
        # an Element is a dict keyed by casefolded name, created holding 'name'; a later assignment
        # replaces an earlier one in place
        seen = {'name': {'name': 'name', 't': 'STRING', 'arr': False, 'vals': [e['name']]}}
        for a in e['attrs']:
            k = a['name'].casefold()
            seen[k] = a
        for k, a in seen.items():
            if a['name'] == 'name':
                continue
            vals = []
            for v in a['vals']:
                t = a['t']
                if t == 'ELEMENT':
                    if v[0] == 'n': vals.append(['n'])
                    elif v[0] == 's': vals.append(['s', list(str(uuidmod.UUID(v[1])).encode('ascii'))])
                    else:
                        if v[1] not in ind:
                            ind[v[1]] = len(order)
                            order.append(v[1])
                        vals.append(['i', ind[v[1]]])
                elif t == 'STRING': vals.append(['t', list(v.encode('utf8'))])
                elif t == 'BINARY': vals.append(['b', list(v)])
                elif t in ('INTEGER', 'FLOAT', 'BOOL', 'TIME'): vals.append(['f', [int(v)]])
                else: vals.append(['f', [int(x) for x in v]])
            attrs.append({'name': list(a['name'].encode('utf8')), 't': VT_NUM[a['t']], 'arr': a['arr'], 'vals': vals})
        name = seen['name']['vals'][0]
        out.append({'type': list(e['type'].encode('utf8')), 'name': list(name.encode('utf8')),
                    'uuid': list(uuidmod.UUID(e['uuid']).bytes_le), 'attrs': attrs})
    return {'elems': out}


def approx_equal(g1, g2, keep_uuid=None, tol=5.1e-7):
    """Graph equality for the text format: float fields to 6 decimals; UUIDs compared only for the
    element indices in keep_uuid (None = all). Returns None or a description of the first difference."""
    if len(g1['elems']) != len(g2['elems']):
        return f"element count {len(g1['elems'])} != {len(g2['elems'])}"
    for i, (a, b) in enumerate(zip(g1['elems'], g2['elems'])):
        for k in ('type', 'name'):
            if a[k] != b[k]:
                return f'element {i}: {k} differs'
        if (keep_uuid is None or i in keep_uuid) and a['uuid'] != b['uuid']:
            return f'element {i}: uuid differs'
        if len(a['attrs']) != len(b['attrs']):
            return f'element {i}: attribute count {len(a["attrs"])} != {len(b["attrs"])}'
        for x, y in zip(a['attrs'], b['attrs']):
            if (x['name'], x['t'], x['arr'], len(x['vals'])) != (y['name'], y['t'], y['arr'], len(y['vals'])):
                return f'element {i}: attribute {bytes(x["name"])!r} name/type/shape differs'
            t = VT_NAMES[x['t']]
            for u, v in zip(x['vals'], y['vals']):
                if t in N_FLOATS and tol:
                    for p, q in zip(u[1], v[1]):
                        fp, fq = b2f(p), b2f(q)
                        if p != q and not (math.isfinite(fp) and math.isfinite(fq) and abs(fp - fq) <= tol + 1e-6 * abs(fp)):
                            return f'element {i}: attribute {bytes(x["name"])!r} value differs ({fp!r} vs {fq!r})'
                elif u != v:
                    return f'element {i}: attribute {bytes(x["name"])!r} value differs'
    return None


# ----------------------------------------------------------------------------- generators

def _rand_uuid(rng):
    return uuidmod.UUID(int=rng.getrandbits(128)).hex


def rand_f32(rng, angle=False):
    """bit pattern of a float32; no NaN (a NaN payload does not survive float32<->double)."""
    if angle:
        return f2b(rng.choice([0.0, 90.0, 45.5, 359.75, 12.125, rng.randrange(0, 360 * 64) / 64.0]))
    r = rng.random()
    if r < 0.45:
        return f2b(rng.choice([0.0, 1.0, -1.0, 0.5, 128.0, -0.25, 3.0, 1e-3, 12345.678]))
    if r < 0.55:
        return rng.choice([0x00000000, 0x80000000, 0x7F800000, 0xFF800000, 0x00000001, 0x007FFFFF, 0x7F7FFFFF, 0x3F800000])
    while True:
        b = rng.getrandbits(32)
        if (b >> 23) & 0xFF != 0xFF:
            return b


def rand_string(rng, alphabet, maxlen=6):
    return ''.join(rng.choice(alphabet) for _ in range(rng.randrange(0, maxlen + 1)))


SAFE_NAMES = ['a', 'B', 'value', 'Value2', 'some key', 'x_1', 'id', 'ID', 'subkeys', 'elementid', 'type', '']
CASE_NAMES = ['Name', 'NAME']
SAFE_TYPES = ['DmElement', 'DmeModel', 'T', 'Dme Thing', '', 'x']


def gen_spec(rng, profile):
    """profile: dict(alpha=list of chars for free strings, wild_names=bool, name_case=bool).
    Produces a graph with a root, shared children, cycles, stubs, NULLs, all types."""
    alpha = profile['alpha']
    n = rng.choice([1, 1, 2, 3, 4, 6, 9])
    stub_pool = [_rand_uuid(rng) for _ in range(2)]
    elems = []
    for i in range(n):
        if profile.get('wild_names') and rng.random() < 0.5:
            ty = rand_string(rng, alpha, 5)
            if ty.casefold() in RESERVED_TYPES or ty.casefold().endswith('_array'):
                ty = 'T' + ty
        else:
            ty = rng.choice(SAFE_TYPES)
        elems.append({'type': ty, 'name': rand_string(rng, alpha, 5) if rng.random() < 0.7 else f'e{i}',
                      'uuid': _rand_uuid(rng), 'attrs': []})
    # make every element reachable: a spanning structure, then extra edges (sharing, cycles, self loops)
    edges = {i: [] for i in range(n)}
    for i in range(1, n):
        edges[rng.randrange(0, i)].append(i)
    for _ in range(rng.randrange(0, n + 2)):
        edges[rng.randrange(0, n)].append(rng.randrange(0, n))
    types = list(VT_NAMES)
    for i, e in enumerate(elems):
        used = set()
        def fresh_name(case_ok=False):
            for _ in range(20):
                if profile.get('wild_names') and rng.random() < 0.4:
                    nm = rand_string(rng, alpha, 4)
                elif profile.get('name_case') and case_ok and rng.random() < 0.08:
                    nm = rng.choice(CASE_NAMES)
                else:
                    nm = rng.choice(SAFE_NAMES) if rng.random() < 0.5 else 'k%d%s' % (rng.randrange(100), rng.choice(['', 'A', 'b']))
                if nm.casefold() not in used and nm != 'name' and '\0' not in nm:
                    used.add(nm.casefold())
                    return nm
            nm = 'u%d' % len(used)
            used.add(nm)
            return nm
        # element attributes carrying this element's out-edges
        refs = [['i', j] for j in edges[i]]
        rng.shuffle(refs)
        while refs:
            if rng.random() < 0.5:
                k = rng.randrange(1, len(refs) + 1)
                chunk, refs = refs[:k], refs[k:]
                extra = []
                for _ in range(rng.randrange(0, 3)):
                    extra.append(rng.choice([['n'], ['s', rng.choice(stub_pool)], ['s', _rand_uuid(rng)]]))
                vals = chunk + extra
                rng.shuffle(vals)
                e['attrs'].append({'name': fresh_name(), 't': 'ELEMENT', 'arr': True, 'vals': vals})
            else:
                e['attrs'].append({'name': fresh_name(), 't': 'ELEMENT', 'arr': False, 'vals': [refs.pop()]})
        for _ in range(rng.randrange(0, 5)):
            t = rng.choice(types)
            arr = rng.random() < 0.4
            nm = fresh_name(True)
            if nm.casefold() == 'name':      # another spelling of the element's name: a string scalar
                t, arr = 'STRING', False
            cnt = rng.choice([0, 0, 1, 2, 3, 5]) if arr else 1
            e['attrs'].append({'name': nm, 't': t, 'arr': arr, 'vals': [gen_val(rng, t, alpha, stub_pool, n) for _ in range(cnt)]})
        rng.shuffle(e['attrs'])
    return {'elems': elems}


def gen_val(rng, t, alpha, stub_pool, n):
    if t == 'ELEMENT':
        r = rng.random()
        if r < 0.3: return ['n']
        if r < 0.6: return ['s', rng.choice(stub_pool)]
        return ['i', rng.randrange(0, n)]
    if t == 'INTEGER': return rng.choice([0, 1, -1, 2 ** 31 - 1, -2 ** 31, rng.randrange(-2 ** 31, 2 ** 31)])
    if t == 'BOOL': return rng.randrange(2)
    if t == 'STRING': return rand_string(rng, alpha, 6)
    if t == 'BINARY': return [rng.randrange(256) for _ in range(rng.choice([0, 1, 3, 17]))]
    if t == 'TIME': return rng.choice([0, 10000, -5, 123456789, rng.randrange(-2 ** 31, 2 ** 31)])
    if t == 'COLOR': return [rng.randrange(256) for _ in range(4)]
    return [rand_f32(rng, angle=(t == 'ANGLE')) for _ in range(N_FLOATS[t])] if t != 'FLOAT' else rand_f32(rng)


def all_types_spec(alpha_str='x'):
    """One element with every type as a scalar, as an array of two and as an empty array + a child,
    a self reference, a NULL, a stub (deterministic; the first case of every run)."""
    u = lambda k: uuidmod.UUID(int=k).hex
    attrs = []
    sample = {'INTEGER': [7, -3], 'FLOAT': [f2b(1.5), f2b(-0.0)], 'BOOL': [1, 0], 'STRING': [alpha_str, ''],
              'BINARY': [[1, 0, 255], []], 'TIME': [15000, -1], 'COLOR': [[1, 2, 3, 4], [255, 0, 0, 255]],
              'VEC2': [[f2b(1.0), f2b(2.0)]] * 2, 'VEC3': [[f2b(1.0), f2b(2.0), f2b(3.0)]] * 2,
              'VEC4': [[f2b(1.0), f2b(2.0), f2b(3.0), f2b(4.0)]] * 2, 'ANGLE': [[f2b(10.0), f2b(20.0), f2b(30.0)]] * 2,
              'QUATERNION': [[f2b(0.0), f2b(0.0), f2b(0.0), f2b(1.0)]] * 2,
              'MATRIX': [[f2b(x) for x in (1.0, 0.0, 0.0, 0.0, 0.0, -1.0, 0.0, 1.0, 0.0)]] * 2,
              'ELEMENT': [['i', 1], ['i', 0]]}
    for t in VT_NAMES:
        attrs.append({'name': f's_{t.lower()}', 't': t, 'arr': False, 'vals': sample[t][:1]})
        attrs.append({'name': f'a_{t.lower()}', 't': t, 'arr': True, 'vals': list(sample[t])})
        attrs.append({'name': f'e_{t.lower()}', 't': t, 'arr': True, 'vals': []})
    attrs.append({'name': 'null', 't': 'ELEMENT', 'arr': False, 'vals': [['n']]})
    attrs.append({'name': 'stub', 't': 'ELEMENT', 'arr': False, 'vals': [['s', u(77)]]})
    attrs.append({'name': 'mixed', 't': 'ELEMENT', 'arr': True, 'vals': [['n'], ['s', u(77)], ['i', 1], ['s', u(78)], ['i', 1]]})
    return {'elems': [{'type': 'DmElement', 'name': 'root', 'uuid': u(1), 'attrs': attrs},
                      {'type': 'DmeChild', 'name': 'child', 'uuid': u(2),
                       'attrs': [{'name': 'parent', 't': 'ELEMENT', 'arr': False, 'vals': [['i', 0]]},
                                 {'name': 'me', 't': 'ELEMENT', 'arr': False, 'vals': [['i', 1]]}]}]}


# ----------------------------------------------------------------------------- KeyValues2 (text values)

def canon_text(root):
    """Indexed graph with values as the text the implementation converts them to
    (TYPE_CONVERT[type, STRING]); strings as code points. The JSON `G2` of the Lean driver."""
    from srctools import dmx
    from srctools.dmx import StubElement, NULL, ValueType
    elements = [root]
    ind = {id(root): 0}

    def index(e):
        if id(e) not in ind:
            ind[id(e)] = len(elements)
            elements.append(e)
        return ind[id(e)]

    def cps(s):
        return [ord(c) for c in s]

    out = []
    i = 0
    while i < len(elements):
        el = elements[i]
        i += 1
        attrs = []
        for a in el.values():
            if a.name == 'name':
                continue
            vals = []
            for v in (list(a._value) if a.is_array else [a._value]):
                if a.type is ValueType.ELEMENT:
                    if v is NULL or (isinstance(v, StubElement) and v.is_null):
                        vals.append(['n'])
                    elif isinstance(v, StubElement):
                        vals.append(['s', cps(str(v.uuid))])
                    else:
                        vals.append(['i', index(v)])
                else:
                    vals.append(['x', cps(dmx.TYPE_CONVERT[a.type, ValueType.STRING](v))])
            attrs.append({'name': cps(a.name), 't': VT_NUM[a.type.name], 'arr': bool(a.is_array), 'vals': vals})
        out.append({'type': cps(el.type), 'name': cps(el.name), 'uuid': cps(str(el.uuid)), 'attrs': attrs})
    return {'elems': out}


def renumber_nodes(nodes):
    """BFS renumbering from node 0 of the model's parsed nodes (same order as canon_text)."""
    order, ind = [0], {0: 0}
    out = []
    i = 0
    while i < len(order):
        n = nodes[order[i]]
        i += 1
        attrs = []
        for a in n['attrs']:
            vals = []
            for v in a['vals']:
                if v[0] == 'i':
                    if v[1] not in ind:
                        ind[v[1]] = len(order)
                        order.append(v[1])
                    vals.append(['i', ind[v[1]]])
                else:
                    vals.append(v)
            attrs.append({'name': a['name'], 't': a['t'], 'arr': a['arr'], 'vals': vals})
        out.append({'type': n['type'], 'name': n['name'], 'uuid': n['uuid'], 'attrs': attrs})
    return {'elems': out}


def text_graph_diff(g1, g2):
    """g2 may have uuid None (not written): compared only where present."""
    if len(g1['elems']) != len(g2['elems']):
        return f"element count {len(g1['elems'])} != {len(g2['elems'])}"
    for i, (a, b) in enumerate(zip(g1['elems'], g2['elems'])):
        if a['type'] != b['type'] or a['name'] != b['name']:
            return f'element {i}: type/name differs'
        if b['uuid'] is not None and a['uuid'] is not None and a['uuid'] != b['uuid']:
            return f'element {i}: uuid differs'
        if a['attrs'] != b['attrs']:
            return f'element {i}: attributes differ'
    return None


def spec_heap(spec):
    """The spec as a heap graph (JSON `G`, elements in spec order, references = spec positions):
    no traversal involved. Dict semantics of an Element (casefolded keys, 'name' first) applied."""
    out = []
    for e in spec['elems']:
        seen = {'name': {'name': 'name', 't': 'STRING', 'arr': False, 'vals': [e['name']]}}
        for a in e['attrs']:
            seen[a['name'].casefold()] = a
        attrs = []
        for k, a in seen.items():
            if a['name'] == 'name':
                continue
            vals = []
            t = a['t']
            for v in a['vals']:
                if t == 'ELEMENT':
                    if v[0] == 'n': vals.append(['n'])
                    elif v[0] == 's': vals.append(['s', list(str(uuidmod.UUID(v[1])).encode('ascii'))])
                    else: vals.append(['i', v[1]])
                elif t == 'STRING': vals.append(['t', list(v.encode('utf8'))])
                elif t == 'BINARY': vals.append(['b', list(v)])
                elif t in ('INTEGER', 'FLOAT', 'BOOL', 'TIME'): vals.append(['f', [int(v)]])
                else: vals.append(['f', [int(x) for x in v]])
            attrs.append({'name': list(a['name'].encode('utf8')), 't': VT_NUM[t], 'arr': a['arr'], 'vals': vals})
        out.append({'type': list(e['type'].encode('utf8')), 'name': list(seen['name']['vals'][0].encode('utf8')),
                    'uuid': list(uuidmod.UUID(e['uuid']).bytes_le), 'attrs': attrs})
    return {'elems': out}


# ----------------------------------------------------------------------------- argument forms

# forms the code REJECTS today (established on the unchanged tree; outside the domain, recorded in the evidence)
REJECTED_FORMS = [
    "Element.parse(file) with the file positioned after other data (absolute seek to the header length): ValueError / TokenSyntaxError",
    "Element.parse(exhausted file): ValueError 'not a DMX file'; Element.parse(bytes): AttributeError",
    "elem[name] = generator / empty list / Time / None / int subclass: TypeError (no type can be deduced)",
    "Attribute.int(name, tuple|range|generator): kept as a scalar, export raises ValueError",
    "elem[name] = bytearray|memoryview: accepted but deduced as an INTEGER array, not BINARY",
    "export_kv2(file, fmt_name, fmt_ver, flat): flat/unicode/cull_uuid are keyword-only (TypeError)",
    "the same Attribute object installed under two keys of ONE element: both get the last key's name, the file then holds two attributes with one name",
    "Element(name=<non-str>) / elem['name'] = [..]: export raises (name is written as a string scalar)",
]


def build_forms(spec, rng, log):
    """The same graph as build(spec), constructed through randomly chosen *other accepted argument forms*:
    arrays from list / tuple / generator / iterator, via Attribute.array or item assignment; scalars from raw
    values, mutable math twins (Vec/Angle/Matrix), Attribute objects made by the classmethods; bytes vs
    bytearray; name via constructor / property / item; uuid positional / keyword.  Mutable inputs that the
    API copies are mutated afterwards (must have no effect).  Returns (elements, check) where check() returns a
    description of any input argument that was changed by construction/export, else None."""
    from srctools import dmx
    from srctools.dmx import Element, Attribute, ValueType, StubElement, NULL, Color, Time, Vec2, Vec4, Quaternion
    from srctools.math import FrozenVec, FrozenAngle, Matrix, Vec, Angle
    elems = []
    for e in spec['elems']:
        u = uuidmod.UUID(e['uuid'])
        form = rng.randrange(4)
        log('name-form:%d' % form)
        if form == 0:
            el = Element(e['name'], e['type'], u)
        elif form == 1:
            el = Element('tmp', type=e['type'], uuid=u); el.name = e['name']
        elif form == 2:
            el = Element(name='tmp', type=e['type'], uuid=u); el['name'] = e['name']
        else:
            el = Element(e['name'], e['type'], uuid=u)
        elems.append(el)
    stubs = {}
    watched = []     # (description, object, snapshot, snapshot function)

    def watch(desc, obj, snap):
        watched.append((desc, obj, snap(obj), snap))

    def base(t, v):
        if t == 'ELEMENT':
            if v[0] == 'n': return NULL
            if v[0] == 's':
                if v[1] not in stubs: stubs[v[1]] = StubElement.stub(uuidmod.UUID(v[1]))
                return stubs[v[1]]
            return elems[v[1]]
        if t == 'INTEGER': return int(v)
        if t == 'FLOAT': return b2f(v)
        if t == 'BOOL': return bool(v)
        if t == 'STRING': return v
        if t == 'BINARY': return bytes(v)
        if t == 'TIME': return Time(v / 10000.0)
        if t == 'COLOR': return Color(*v)
        fs = [b2f(x) for x in v]
        if t == 'VEC2': return Vec2(*fs)
        if t == 'VEC3': return FrozenVec(*fs)
        if t == 'VEC4': return Vec4(*fs)
        if t == 'ANGLE': return FrozenAngle(*fs)
        if t == 'QUATERNION': return Quaternion(*fs)
        m = Matrix()
        for i in range(3):
            for j in range(3):
                m[i, j] = fs[3 * i + j]
        return m.freeze()

    def twin(t, obj):
        """the mutable twin of a frozen math value (watched: must not be changed), or the value itself."""
        if t == 'VEC3': tw = Vec(obj)
        elif t == 'ANGLE': tw = Angle(obj)
        elif t == 'MATRIX': tw = obj.thaw() if hasattr(obj, 'thaw') else Matrix(obj)
        else: return obj
        watch(f'mutable {t} twin', tw, lambda o: repr(o))
        return tw

    for e, el in zip(spec['elems'], elems):
        for a in e['attrs']:
            t, name = a['t'], a['name']
            vt = getattr(ValueType, t)
            vals = [base(t, v) for v in a['vals']]
            if a['arr']:
                if rng.random() < 0.5:
                    vals = [twin(t, v) if rng.random() < 0.5 else v for v in vals]
                forms = ['array-list', 'array-tuple', 'array-gen', 'array-iter']
                if vals and t != 'TIME':
                    forms += ['item-list', 'item-tuple']
                form = rng.choice(forms)
                log('array-form:' + form)
                if form == 'array-gen':
                    el[name] = Attribute.array(name, vt, (x for x in vals))
                elif form == 'array-iter':
                    el[name] = Attribute.array(name, vt, iter(vals))
                else:
                    arg = tuple(vals) if form.endswith('tuple') else list(vals)
                    watch(f'{form} argument of {name!r}', arg, lambda o: [id(x) if isinstance(x, Element) else repr(x) for x in o])
                    if form.startswith('array'):
                        el[name] = Attribute.array(name, vt, arg)
                    else:
                        el[name] = arg
                    if isinstance(arg, list) and t not in ('ELEMENT',):
                        # the API copies: a later change of the caller's list must not reach the element
                        keep = list(arg)
                        arg.append(arg[0] if arg else base(t, gen_val(rng, t, ['a'], ['0' * 32], 1)))
                        watched[-1] = (watched[-1][0], arg, watched[-1][3](arg), watched[-1][3])
                        if [repr(x) for x in el[name]._value] != [repr(dmx.CONVERSIONS[vt](x)) for x in keep]:
                            return elems, (lambda d=f'{form}: changing the argument list afterwards changed attribute {name!r}': d)
            else:
                v = vals[0]
                forms = ['item-raw'] if t != 'TIME' else []
                if t in ('VEC3', 'ANGLE', 'MATRIX'):
                    forms.append('item-twin')
                if t not in ('ELEMENT', 'MATRIX'):
                    forms += ['classmethod', 'classmethod-splat']
                if t == 'BINARY':
                    forms.append('bytearray')
                form = rng.choice(forms)
                log('scalar-form:' + form)
                if form == 'item-raw':
                    el[name] = v
                elif form == 'item-twin':
                    tw = twin(t, v)
                    el[name] = tw
                elif form == 'bytearray':
                    ba = bytearray(v)
                    watch(f'bytearray of {name!r}', ba, bytes)
                    el[name] = Attribute.binary(name, ba)
                else:
                    cm = {'INTEGER': 'int', 'FLOAT': 'float', 'BOOL': 'bool', 'STRING': 'string', 'BINARY': 'binary',
                          'TIME': 'time', 'COLOR': 'color', 'VEC2': 'vec2', 'VEC3': 'vec3', 'VEC4': 'vec4',
                          'ANGLE': 'angle', 'QUATERNION': 'quaternion'}[t]
                    f = getattr(Attribute, cm)
                    if form == 'classmethod-splat' and t in ('COLOR', 'VEC2', 'VEC3', 'VEC4', 'ANGLE', 'QUATERNION'):
                        attr = f(name, *list(v))
                    elif t == 'TIME' and rng.random() < 0.5:
                        attr = f(name, v.value)
                    elif t in ('VEC3', 'ANGLE') and rng.random() < 0.5:
                        attr = f(name, twin(t, v))
                    else:
                        attr = f(name, v)
                    el[name] = attr
    def check():
        for desc, obj, snap0, snap in watched:
            try:
                now = snap(obj)
            except Exception as ex:
                now = f'{type(ex).__name__}: {ex}'
            if now != snap0:
                return f'{desc} was changed: {str(snap0)[:80]} -> {str(now)[:80]}'
        return None
    return elems, check
