"""C06 — structured random VMF maps built through the PUBLIC API of /repo's srctools.vmf, and the
dump of a map into the plain structure the Lean model (lean/Srctools/Model/C06.lean) works on.

Reusable by other checks (C09 copies, C17 instance collapse):

    import c06_gen
    vmf = c06_gen.gen_map(rng, c06_gen.Profile())      # a srctools.vmf.VMF
    d   = c06_gen.dump_map(vmf)                          # JSON-able structure, numbers pre-formatted
    r   = c06_gen.dump_map(vmf, raw=True)                # same shape, floats kept as ('kind', float)

`common.import_impl()` must have been called before (srctools must resolve to /repo/src).

Numbers in the dump are *canonical numeric strings*: every float is rendered by the formatter the
implementation itself uses for that field (format_float for coordinates / texture axes,
`%g` for rotation, delay and multiblend, `str()` for displacement distance/alpha/elevation);
integers stay integers; text is a list of code points.
"""
from __future__ import annotations
import math, random, array, copy

SIGMA17 = ['\\', '"', "'", '\r', '\n', '\t', '\v', '\b', '\f', '\a', '?', '/', 'n', 'a', ' ', 'é', '\U0001F600']
# names (entity keys, output names) cannot contain CR/LF: Keyvalues.parse rejects them (newline_keys=False)
NAME_ALPHA = [c for c in SIGMA17 if c not in '\r\n'] + ['I', 'd', 'R', 'e', 'p', 'l', 'c', '$', '{', '}', '[', ']', '#']
VALUE_ALPHA = SIGMA17 + ['I', 'd', '0', '7', ',', ';', ':', '{', '}', '[', ']', '$']
IDENT = list('abXY_09') + ['é']


def S():
    """The implementation's modules (resolved lazily so that import_impl() decides which tree)."""
    import srctools
    from srctools import vmf as V
    from srctools.math import Vec, Angle, format_float
    return srctools, V, Vec, Angle, format_float


class Profile:
    """Knobs of the generator; every probability is per object."""
    def __init__(self, **kw):
        self.n_ents = (0, 5)
        self.n_keys = (0, 5)
        self.n_outputs = (0, 4)
        self.n_fixups = (0, 4)
        self.n_brushes = (0, 3)
        self.n_ent_solids = (0, 2)
        self.n_vis = (0, 3)
        self.vis_depth = 3
        self.n_groups = (0, 3)
        self.n_cams = (0, 3)
        self.n_cordons = (0, 3)
        self.p_disp = 0.35
        self.max_power = 4
        self.p_multiblend = 0.5
        self.p_strata = 0.4
        self.p_hidden = 0.25
        self.p_weird_names = 0.5      # names/keys over NAME_ALPHA rather than identifiers
        self.p_newline_names = 0.0    # CR/LF inside names (outside the excluded class: known finding)
        self.p_colliding_ids = 0.3    # visgroup/group ids chosen to collide in CPython's set hashing
        self.p_int_floats = 0.3       # ints assigned to float-typed fields (as the library's own defaults do)
        self.p_tiny_negative = 0.0    # coordinates in (-5e-7, 0): format_float gives "-0" (C05's defect)
        self.p_zero_view = 0.3        # Strata 2D viewport with u or v equal to 0
        self.p_preserve = 0.5         # build the map with preserve_ids=True (arbitrary, possibly repeated ids)
        self.big_fixup_ids = 0.1      # fixup indexes >= 100
        self.p_shapes = 0.4           # per array / list / object: a boundary shape instead of random data (see SHAPES)
        for k, v in kw.items():
            if not hasattr(self, k):
                raise TypeError(k)
            setattr(self, k, v)


def _n(rng, lohi):
    return rng.randint(lohi[0], lohi[1])


def text(rng, alpha, lo=0, hi=8):
    return ''.join(rng.choice(alpha) for _ in range(rng.randint(lo, hi)))


def ident(rng, lo=1, hi=6):
    return ''.join(rng.choice(IDENT) for _ in range(rng.randint(lo, hi)))


def coord(rng, prof):
    """A float for a coordinate-like field."""
    r = rng.random()
    if r < 0.25:
        v = float(rng.randint(-4096, 4096))
    elif r < 0.45:
        v = rng.randint(-8192, 8192) / 8.0
    elif r < 0.7:
        v = rng.uniform(-16384, 16384)
    elif r < 0.8:
        v = rng.uniform(-1, 1)
    elif r < 0.85:
        v = rng.choice([0.0, 1.0, -1.0, 0.5, 1e-7, 4.9e-7, 5.1e-7, 0.0000015, 123456.789012345, 65536.0, -65536.0])
    elif r < 0.9:
        v = rng.uniform(-1e6, 1e6)
    else:
        v = round(rng.uniform(-512, 512), rng.randint(0, 7))
    if -5e-7 < v < 0 and rng.random() >= prof.p_tiny_negative:
        v = -v
    if rng.random() < prof.p_int_floats * 0.3 and v == int(v):
        return int(v)
    return v


def gval(rng, prof):
    """A float for a %g field (rotation, delay, multiblend)."""
    r = rng.random()
    if r < 0.3:
        return float(rng.randint(-360, 360))
    if r < 0.5:
        return rng.choice([0.0, 0.5, 0.1, 1e-5, 123456.7, 1234567.0, 1e20, 2.5e-10, 0.30000000000000004, 90.0])
    if r < 0.6 and rng.random() < prof.p_int_floats:
        return rng.randint(0, 360)
    return rng.uniform(-1000, 1000)


def vec(rng, prof):
    _, _, Vec, _, _ = S()
    return Vec(coord(rng, prof), coord(rng, prof), coord(rng, prof))


def color(rng):
    _, _, Vec, _, _ = S()
    return Vec(rng.randint(0, 255), rng.randint(0, 255), rng.randint(0, 255))


def name_text(rng, prof, lo=0, hi=7):
    if rng.random() < prof.p_weird_names:
        s = text(rng, NAME_ALPHA, lo, hi)
        if rng.random() < prof.p_newline_names:
            s += rng.choice('\r\n')
        return s
    return ident(rng, max(lo, 1), hi)


def ent_key(rng, prof):
    """An entity key inside the documented domain: not `id`, not `replace…` (both have a meaning
    of their own in the format)."""
    for _ in range(50):
        k = name_text(rng, prof, 0, 7)
        f = k.casefold()
        if f == 'id' or f.startswith('replace') or f in ('classname', 'mapversion'):
            continue
        return k
    return 'key'


def value_text(rng):
    r = rng.random()
    if r < 0.3:
        return ident(rng)
    if r < 0.4:
        return str(rng.randint(-5, 400))
    return text(rng, VALUE_ALPHA, 0, 10)


def make_output(rng, prof):
    _, V, _, _, _ = S()
    comma = rng.random() < 0.5
    bad = '\x1b' + (',' if comma else '')

    def fld(alpha, lo=0):
        for _ in range(50):
            s = text(rng, alpha, lo, 7) if rng.random() < prof.p_weird_names else ident(rng)
            if not any(c in s for c in bad) and not s.casefold().startswith('instance:'):
                return s
        return 'x'
    out = fld([c for c in NAME_ALPHA], 1)
    if rng.random() < prof.p_newline_names:
        out += '\n'
    inst_out = inst_in = None
    if rng.random() < 0.3:     # part of the output's *name*: no CR/LF (see NAME_ALPHA)
        inst_out = fld([c for c in VALUE_ALPHA if c not in ';\r\n'], 1)
    if rng.random() < 0.3:
        inst_in = fld([c for c in VALUE_ALPHA if c != ';'], 1)
    params = text(rng, [c for c in VALUE_ALPHA if c != '\x1b'], 0, 8) if rng.random() < 0.6 else ''
    times = rng.choice([-1, -1, 1, 0, 5, 123])
    return V.Output(out, fld(VALUE_ALPHA), fld(VALUE_ALPHA), params, gval(rng, prof) if rng.random() < 0.6 else 0.0,
                    times=times, inst_out=inst_out, inst_in=inst_in, comma_sep=comma)


COLLIDING = [7, 15, 23, 31, 39, 8, 16, 24, 1, 9, 17]


def some_ids(rng, prof, pool, hi=3):
    n = rng.randint(0, hi)
    if rng.random() < prof.p_colliding_ids:
        src = COLLIDING
    else:
        src = pool or [1, 2, 3]
    ids = []
    for _ in range(n):
        ids.append(rng.choice(src))
    return ids


def make_side(rng, prof, vmf, planes=None, free=False):
    _, V, Vec, _, _ = S()
    if planes is None:
        planes = [vec(rng, prof) for _ in range(3)]
    power = 0
    if rng.random() < prof.p_disp:
        power = rng.randint(1, prof.max_power)
        if rng.random() < prof.p_shapes:
            power = rng.choice([1, prof.max_power])      # both ends of the size range
    mat = rng.choice(['tools/toolsnodraw', 'brick/brickwall001a', 'Dev/dev_MEASUREgeneric01'])
    if rng.random() < prof.p_weird_names * 0.5:
        mat = text(rng, [c for c in VALUE_ALPHA if c not in '\r\n'], 0, 8)
    kw = {}
    if rng.random() < 0.7:
        kw['uaxis'] = V.UVAxis(coord(rng, prof), coord(rng, prof), coord(rng, prof), coord(rng, prof), rng.choice([0.25, 1.0, rng.uniform(0.01, 4)]))
        kw['vaxis'] = V.UVAxis(coord(rng, prof), coord(rng, prof), coord(rng, prof), coord(rng, prof), rng.choice([0.25, 0.5, rng.uniform(0.01, 4)]))
    side = V.Side(vmf, planes, lightmap=rng.choice([16, 4, 32, 1]), smoothing=rng.choice([0, 0, 1, 5, 1 << 20]),
                  mat=mat, rotation=gval(rng, prof) if rng.random() < 0.5 else 0, disp_power=power, **kw)
    if rng.random() < prof.p_strata:
        side.strata_points = [vec(rng, prof) for _ in range(rng.randint(0, 5))]
    if power:
        fill_disp(rng, prof, side)
    return side


def fill_disp(rng, prof, side):
    _, V, Vec, _, _ = S()
    side.disp_pos = vec(rng, prof)
    if rng.random() < 0.7:
        side.disp_elevation = rng.choice([0.0, 1.5, rng.uniform(-100, 100), 1e-9, 123456789.125])
        if rng.random() < prof.p_int_floats:
            side.disp_elevation = rng.randint(-5, 5)
    fl = V.DispFlag(rng.randint(0, 15))
    side.disp_flags = fl
    if rng.random() < 0.5:
        side.disp_allowed_vert = array.array('i', [rng.choice([-1, 0, 1, 2 ** 31 - 1, -2 ** 31, rng.randint(-1000, 1000)]) for _ in range(10)])
    size = side.disp_size
    dense = rng.random() < 0.7
    multi = rng.random() < prof.p_multiblend
    tags = [V.TriangleTag.STEEP, V.TriangleTag.WALKABLE, V.TriangleTag.BUILDABLE]
    for y in range(size):
        for x in range(size):
            v = side[x, y]
            if dense or rng.random() < 0.3:
                v.normal = vec(rng, prof) if rng.random() < 0.5 else Vec(0, 0, 1)
                v.distance = rng.choice([0.0, 1.0, rng.uniform(-64, 64), rng.uniform(0, 1), 1e-12, 3.0000000000000004])
                if rng.random() < prof.p_int_floats:
                    v.distance = rng.randint(0, 9)
                if rng.random() < 0.5:
                    v.offset = vec(rng, prof)
                if rng.random() < 0.5:
                    v.offset_norm = vec(rng, prof)
                v.alpha = rng.choice([0.0, 255.0, rng.uniform(0, 255)])
                v.triangle_a = rng.choice(tags)
                v.triangle_b = rng.choice(tags)
            if multi and (dense or rng.random() < 0.3):
                v.multi_blend = V.Vec4(*(gval(rng, prof) if rng.random() < 0.8 else 0.0 for _ in range(4)))
                v.multi_alpha = V.Vec4(*(gval(rng, prof) for _ in range(4)))
                if rng.random() < 0.7:
                    v.multi_colors = [vec(rng, prof) if rng.random() < 0.5 else Vec(1, 1, 1) for _ in range(4)]
    if prof.p_shapes:
        shape_disp(rng, prof, side)


# Boundary shapes of an array: writers and readers tend to special-case "nothing to write" (all zero,
# all default) and the ends of an array, and random data never produces a constant array.
SHAPES = ['zero', 'default', 'const', 'one_first', 'one_last', 'one_mid']


def shaped(rng, n, zero, default, nonzero, shape=None):
    """A list of n fresh values in one of the SHAPES; zero/default/nonzero are thunks making one value
    (nonzero is called ONCE: `const` repeats that value, `one_*` puts it at one index among zeros)."""
    shape = shape or rng.choice(SHAPES)
    if shape == 'zero':
        return [zero() for _ in range(n)]
    if shape == 'default':
        return [default() for _ in range(n)]
    c = nonzero()
    if shape == 'const':
        return [copy.deepcopy(c) for _ in range(n)]
    idx = {'one_first': 0, 'one_last': n - 1, 'one_mid': n // 2}[shape]
    return [copy.deepcopy(c) if i == idx else zero() for i in range(n)]


def _nz_vec(rng, prof):
    _, _, Vec, _, _ = S()
    v = vec(rng, prof)
    return v if v else Vec(0, 0, rng.choice([1, -1, 0.5]))


def shape_disp(rng, prof, side, p=None):
    """Replace whole per-vertex arrays (and `allowed_verts`) of a displacement by boundary shapes."""
    _, V, Vec, _, _ = S()
    p = prof.p_shapes if p is None else p
    size = side.disp_size
    verts = [side[x, y] for y in range(size) for x in range(size)]
    n = len(verts)
    fresh = lambda: V.DispVertex(0, 0)       # the code's own defaults
    flt = lambda: rng.choice([1.0, 255.0, -2.5, rng.uniform(-64, 64) or 1.0])
    v4 = lambda: V.Vec4(*(rng.choice([1.0, 0.5, gval(rng, prof) or 1.0]) for _ in range(4)))
    arrays = [
        ('normal', Vec, lambda: fresh().normal, lambda: _nz_vec(rng, prof)),
        ('distance', lambda: 0.0, lambda: fresh().distance, flt),
        ('offset', Vec, lambda: fresh().offset, lambda: _nz_vec(rng, prof)),
        ('offset_norm', Vec, lambda: fresh().offset_norm, lambda: _nz_vec(rng, prof)),
        ('alpha', lambda: 0.0, lambda: fresh().alpha, flt),
        ('triangle_a', lambda: V.TriangleTag(0), lambda: fresh().triangle_a, lambda: rng.choice([V.TriangleTag.WALKABLE, V.TriangleTag.BUILDABLE])),
        ('triangle_b', lambda: V.TriangleTag(0), lambda: fresh().triangle_b, lambda: rng.choice([V.TriangleTag.WALKABLE, V.TriangleTag.BUILDABLE])),
        ('multi_blend', lambda: V.Vec4(0.0, 0.0, 0.0, 0.0), lambda: fresh().multi_blend, v4),
        ('multi_alpha', lambda: V.Vec4(0.0, 0.0, 0.0, 0.0), lambda: fresh().multi_alpha, v4),
        ('multi_colors', lambda: [Vec() for _ in range(4)], lambda: fresh().multi_colors,
         lambda: shaped(rng, 4, Vec, lambda: Vec(1, 1, 1), lambda: _nz_vec(rng, prof))),
    ]
    for name, zero, default, nonzero in arrays:
        if rng.random() < p:
            for v, val in zip(verts, shaped(rng, n, zero, default, nonzero)):
                setattr(v, name, val)
    if rng.random() < p:
        side.disp_allowed_vert = array.array('i', shaped(rng, 10, lambda: 0, lambda: -1, lambda: rng.choice([1, 2 ** 31 - 1, -2 ** 31, rng.randint(-1000, 1000) or 7])))


def default_scalars(rng, prof, vmf, p=None):
    """Set scalar fields, per object, to the value the READER assumes when the key is missing
    (`Gen.VmfKeys.defaults`): a writer that omits "default" values, or a reader default that drifts,
    only shows on exactly these values."""
    _, V, Vec, _, _ = S()
    p = prof.p_shapes if p is None else p
    hit = lambda: rng.random() < p
    if hit():
        vmf.hammer_ver, vmf.hammer_build, vmf.is_prefab, vmf.map_ver = 400, 5304, False, 0
    if hit():
        vmf.snap_grid, vmf.show_grid, vmf.show_3d_grid, vmf.show_logic_grid, vmf.grid_spacing = True, True, False, False, 64
    if hit():
        vmf.cordon_enabled, vmf.active_cam, vmf.quickhide_count = False, -1, 0
    for vis in vmf.vis_tree:
        if hit():
            vis.color = Vec(255, 255, 255)
    for grp in vmf.groups.values():
        if hit():
            grp.shown, grp.auto_shown, grp.color = True, True, Vec(255, 255, 255)
    for cam in vmf.cameras:
        if hit():
            cam.pos, cam.target = Vec(0, 0, 0), Vec(0, 64, 0)
    for cor in vmf.cordons:
        if hit():
            cor.name, cor.active, cor.bounds_min, cor.bounds_max = 'cordon', False, Vec(0, 0, 0), Vec(128, 128, 128)
    for ent in [vmf.spawn] + list(vmf.entities):
        if hit():
            ent.vis_shown, ent.vis_auto_shown, ent.editor_color = True, True, Vec(255, 255, 255)
        for solid in ent.solids:
            if hit():
                solid.vis_shown, solid.vis_auto_shown, solid.editor_color = True, True, Vec(255, 255, 255)
            for side in solid.sides:
                if hit():
                    side.lightmap, side.smooth, side.ham_rot = 16, 0, 0.0
                if hit():
                    side.uaxis, side.vaxis = V.UVAxis(0, 1, 0, 0.0, 0.25), V.UVAxis(0, 0, -1, 0.0, 0.25)
                if hit():
                    side.mat = ''
                if hit():
                    side.planes = [Vec(), Vec(), Vec()]
                if side.is_disp and hit():
                    side.disp_pos, side.disp_elevation, side.disp_flags = Vec(), 0.0, V.DispFlag(0)


def make_solid(rng, prof, vmf, vis_pool, grp_pool, world):
    _, V, Vec, _, _ = S()
    r = rng.random()
    if r < 0.5:
        p1 = Vec(rng.randint(-512, 0), rng.randint(-512, 0), rng.randint(-512, 0))
        p2 = p1 + Vec(rng.randint(1, 256), rng.randint(1, 256), rng.randint(1, 256))
        solid = vmf.make_prism(p1, p2, mat=rng.choice(['tools/toolsnodraw', 'metal/x']), set_points=rng.random() < prof.p_strata).solid
        if rng.random() < prof.p_disp:
            i = rng.randrange(6)
            old = solid.sides[i]
            new = make_side(rng, Profile(**{**prof.__dict__, 'p_disp': 1.0}), vmf, [p.copy() for p in old.planes])
            solid.sides[i] = new
    else:
        solid = V.Solid(vmf, sides=[make_side(rng, prof, vmf) for _ in range(rng.randint(0, 5))])
    solid.visgroup_ids = set(some_ids(rng, prof, vis_pool))
    if rng.random() < 0.4:
        solid.group_id = rng.choice(grp_pool) if grp_pool and rng.random() < 0.7 else rng.randint(1, 50)
    solid.hidden = rng.random() < prof.p_hidden
    solid.vis_shown = rng.random() < 0.7
    solid.vis_auto_shown = rng.random() < 0.7
    solid.is_cordon = rng.random() < 0.15
    if rng.random() < 0.7:
        solid.editor_color = color(rng)
    return solid


def make_vis(rng, prof, vmf, depth, pool, explicit):
    _, V, _, _, _ = S()
    kids = []
    if depth < prof.vis_depth:
        kids = [make_vis(rng, prof, vmf, depth + 1, pool, explicit) for _ in range(rng.randint(0, 2 if depth else 3) if rng.random() < 0.5 else 0)]
    des = -1
    if explicit and rng.random() < 0.5:
        des = rng.choice(COLLIDING + [100, 5, 2])
    vis = V.VisGroup(vmf, text(rng, VALUE_ALPHA, 0, 8) if rng.random() < prof.p_weird_names else ident(rng), des, color(rng), kids)
    pool.append(vis.id)
    return vis


def gen_map(rng: random.Random, prof: Profile = None):
    """Build a random map through the public API."""
    srctools, V, Vec, Angle, _ = S()
    prof = prof or Profile()
    preserve = rng.random() < prof.p_preserve
    kw = {}
    if rng.random() < 0.7:
        kw = dict(
            hammer_version=rng.choice([400, 0, 12345]), hammer_build=rng.choice([5304, 1, 99999]),
            is_prefab=rng.random() < 0.3, cordon_enabled=rng.random() < 0.5, map_version=rng.randint(0, 500),
            show_grid=rng.random() < 0.5, show_3d_grid=rng.random() < 0.5, snap_grid=rng.random() < 0.5,
            show_logic_grid=rng.random() < 0.5, grid_spacing=rng.choice([64, 1, 128, 3]),
            active_cam=rng.choice([-1, 0, 1, 2, 7]), quickhide_count=rng.choice([0, 0, 1, 3, -2]),
        )
    if rng.random() < prof.p_strata:
        kw['strata_inst_visibility'] = rng.choice(list(V.StrataInstanceVisibility))
    vmf = V.VMF(preserve_ids=preserve, **kw)
    if rng.random() < prof.p_strata:
        views = []
        for i in range(4):
            if rng.random() < 0.4:
                views.append(V.Strata3DViewport(vec(rng, prof), Angle(coord(rng, prof), coord(rng, prof), coord(rng, prof))))
            else:
                u, v = coord(rng, prof), coord(rng, prof)
                if rng.random() < prof.p_zero_view:
                    if rng.random() < 0.5:
                        u = 0.0
                    if rng.random() < 0.7:
                        v = 0.0
                if abs(u) == 65536.0:
                    u = 1.0
                if abs(v) == 65536.0:
                    v = 2.0
                views.append(V.Strata2DViewport(rng.choice('xyz'), u, v, rng.choice([1.0, 0.25, rng.uniform(0.01, 16)])))
        vmf.strata_viewports = views

    vis_pool = []
    for _ in range(_n(rng, prof.n_vis)):
        vmf.vis_tree.append(make_vis(rng, prof, vmf, 1, vis_pool, preserve or rng.random() < 0.3))
    if rng.random() < 0.3:
        vmf.create_visgroup(ident(rng), (rng.randint(0, 255), 0, 7))
        vis_pool.append(vmf.vis_tree[-1].id)

    grp_pool = []
    for _ in range(_n(rng, prof.n_groups)):
        des = rng.choice(COLLIDING) if rng.random() < prof.p_colliding_ids else -1
        grp = V.EntityGroup(vmf, des, rng.random() < 0.6, rng.random() < 0.6, color(rng))
        if grp.id in vmf.groups:
            continue
        vmf.groups[grp.id] = grp
        grp_pool.append(grp.id)

    # worldspawn
    spawn = vmf.spawn
    for _ in range(_n(rng, prof.n_keys)):
        spawn[ent_key(rng, prof)] = value_text(rng)
    if rng.random() < 0.3:
        spawn['skyname'] = 'sky_day01_01'
    for _ in range(_n(rng, prof.n_brushes)):
        vmf.add_brush(make_solid(rng, prof, vmf, vis_pool, grp_pool, True))
    if rng.random() < 0.2:
        spawn.add_out(make_output(rng, prof))
    if rng.random() < 0.2:
        spawn.comments = value_text(rng)
    if rng.random() < 0.3:
        spawn.editor_color = color(rng)

    for _ in range(_n(rng, prof.n_ents)):
        make_ent(rng, prof, vmf, vis_pool, grp_pool)

    for _ in range(_n(rng, prof.n_cams)):
        V.Camera(vmf, vec(rng, prof), vec(rng, prof))
    for _ in range(_n(rng, prof.n_cordons)):
        V.Cordon(vmf, vec(rng, prof), vec(rng, prof), rng.random() < 0.5,
                 text(rng, VALUE_ALPHA, 0, 8) if rng.random() < prof.p_weird_names else 'cordon')
    if prof.p_shapes:
        default_scalars(rng, prof, vmf, prof.p_shapes * 0.5)
    return vmf


def make_ent(rng, prof, vmf, vis_pool, grp_pool):
    _, V, Vec, _, _ = S()
    keys = {}
    for _ in range(_n(rng, prof.n_keys)):
        keys[ent_key(rng, prof)] = rng.choice([value_text(rng), value_text(rng), vec(rng, prof), rng.randint(0, 9), True, coord(rng, prof)])
    if rng.random() < 0.6:
        keys['targetname'] = ident(rng)
    if rng.random() < 0.5:
        keys['origin'] = vec(rng, prof)
    if rng.random() < 0.15:
        keys['nodeid'] = str(rng.randint(1, 40))
    fix = []
    if rng.random() < 0.4:
        used = set()
        for _ in range(_n(rng, prof.n_fixups)):
            i = rng.randint(1, 99)
            if rng.random() < prof.big_fixup_ids:
                i = rng.randint(100, 300)
            var = ident(rng)
            if i in used or var.casefold() in {f.var.casefold() for f in fix}:
                continue
            used.add(i)
            fix.append(V.FixupValue(var, value_text(rng), i))
    des_id = -1
    if rng.random() < 0.2:
        des_id = rng.randint(1, 60)
    logical = None
    if rng.random() < 0.4:
        logical = f'[{rng.randint(0, 9000)} {rng.randint(0, 9000)}]'
    elif rng.random() < prof.p_weird_names * 0.2:
        logical = text(rng, [c for c in VALUE_ALPHA if c not in '\r\n'], 1, 6)
    solids = [make_solid(rng, prof, vmf, vis_pool, grp_pool, False) for _ in range(_n(rng, prof.n_ent_solids))] if rng.random() < 0.4 else []
    ent = V.Entity(
        vmf, keys={'classname': rng.choice(['info_target', 'func_detail', 'Logic_Relay', ident(rng)]), **keys},
        fixup=fix, ent_id=des_id, outputs=[make_output(rng, prof) for _ in range(_n(rng, prof.n_outputs))] if rng.random() < 0.6 else [],
        solids=solids, hidden=rng.random() < prof.p_hidden, groups=some_ids(rng, prof, grp_pool, 2),
        vis_ids=some_ids(rng, prof, vis_pool), vis_shown=rng.random() < 0.7, vis_auto_shown=rng.random() < 0.7,
        logical_pos=logical, editor_color=color(rng) if rng.random() < 0.7 else (255, 255, 255),
        comments=value_text(rng) if rng.random() < 0.3 else '',
    )
    if rng.random() < 0.3:
        ent.fixup[ident(rng)] = value_text(rng)       # lowest free index
    vmf.add_ent(ent)
    return ent


# --------------------------------------------------------------------------------------- dump

def codes(s):
    return [ord(c) for c in s]


class Fmt:
    """Formats numbers the way the implementation's writer of that field does (model mode), or keeps
    them as tagged floats (raw mode, for the numeric-closeness oracle)."""
    def __init__(self, raw):
        self.raw = raw
        self.ff = S()[4]

    def coord(self, x):
        return ['c', float(x)] if self.raw else codes(self.ff(x))

    def g(self, x):
        return ['g', float(x)] if self.raw else codes(format(x, 'g'))

    def rep(self, x):
        return ['r', float(x)] if self.raw else codes(str(float(x)))

    def vec(self, v):
        return [self.coord(v.x), self.coord(v.y), self.coord(v.z)]

    def ang(self, a):
        return [self.coord(a.pitch), self.coord(a.yaw), self.coord(a.roll)]


def dump_vis(F, vis):
    return {'name': codes(vis.name), 'id': vis.id, 'color': F.vec(vis.color), 'children': [dump_vis(F, c) for c in vis.child_groups]}


def dump_uv(F, ax):
    return [F.coord(ax.x), F.coord(ax.y), F.coord(ax.z), F.coord(ax.offset), F.coord(ax.scale)]


def dump_side(F, side):
    _, V, _, _, _ = S()
    d = {
        'id': side.id, 'planes': [F.vec(p) for p in side.planes], 'mat': codes(side.mat),
        'uaxis': dump_uv(F, side.uaxis), 'vaxis': dump_uv(F, side.vaxis), 'rot': F.g(side.ham_rot),
        'lightmap': side.lightmap, 'smooth': side.smooth,
        'points': None if side.strata_points is None else [F.vec(p) for p in side.strata_points],
        'disp': None,
    }
    if side.disp_power > 0:
        verts = []
        for v in side._disp_verts:
            verts.append({
                'normal': F.vec(v.normal), 'dist': F.rep(v.distance), 'offset': F.vec(v.offset),
                'offset_norm': F.vec(v.offset_norm), 'alpha': F.rep(v.alpha),
                'tri_a': v.triangle_a.value, 'tri_b': v.triangle_b.value,
                'blend': [F.g(v.multi_blend.x), F.g(v.multi_blend.y), F.g(v.multi_blend.z), F.g(v.multi_blend.w)],
                'malpha': [F.g(v.multi_alpha.x), F.g(v.multi_alpha.y), F.g(v.multi_alpha.z), F.g(v.multi_alpha.w)],
                'colors': None if v.multi_colors is None else [F.vec(c) for c in v.multi_colors],
            })
        d['disp'] = {
            'power': side.disp_power, 'pos': F.vec(side.disp_pos), 'elev': F.rep(side.disp_elevation),
            'coll': (side.disp_flags & V.DispFlag.COLL_ALL).value, 'subdiv': V.DispFlag.SUBDIV in side.disp_flags,
            'allowed': list(side.disp_allowed_vert), 'verts': verts,
        }
    return d


def dump_solid(F, solid):
    return {
        'id': solid.id, 'sides': [dump_side(F, s) for s in solid.sides], 'vis_ids': list(solid.visgroup_ids),
        'hidden': bool(solid.hidden), 'group': solid.group_id, 'vis_shown': bool(solid.vis_shown),
        'vis_auto': bool(solid.vis_auto_shown), 'cordon': bool(solid.is_cordon), 'color': F.vec(solid.editor_color),
    }


def dump_output(F, out):
    return {
        'output': codes(out.output), 'inst_out': None if out.inst_out is None else codes(out.inst_out),
        'target': codes(out.target), 'input': codes(out.input),
        'inst_in': None if out.inst_in is None else codes(out.inst_in), 'params': codes(out.params),
        'delay': F.g(out.delay), 'times': out.times, 'comma': bool(out.comma_sep),
    }


def dump_ent(F, ent):
    fix = []
    if ent._fixup is not None:
        fix = [[codes(f.var), codes(f.value), f.id] for f in ent._fixup._fixup.values()]
    return {
        'id': ent.id, 'keys': [[codes(k), codes(v)] for k, v in ent._keys.items()], 'fixup': fix,
        'outputs': [dump_output(F, o) for o in ent.outputs], 'solids': [dump_solid(F, s) for s in ent.solids],
        'hidden': bool(ent.hidden), 'groups': list(ent.groups), 'vis_ids': list(ent.visgroup_ids),
        'vis_shown': bool(ent.vis_shown), 'vis_auto': bool(ent.vis_auto_shown), 'color': F.vec(ent.editor_color),
        'logical_pos': codes(ent.logical_pos), 'comments': codes(ent.comments),
    }


def dump_view(F, view):
    _, V, _, _, _ = S()
    if isinstance(view, V.Strata3DViewport):
        return {'3d': True, 'pos': F.vec(view.position), 'ang': F.ang(view.angle)}
    return {'3d': False, 'axis': codes(view.axis), 'u': F.coord(view.u), 'v': F.coord(view.v), 'zoom': F.coord(view.zoom)}


def dump_map(vmf, raw=False):
    F = Fmt(raw)
    return {
        'hammer_ver': vmf.hammer_ver, 'hammer_build': vmf.hammer_build, 'map_ver': vmf.map_ver,
        'format_ver': vmf.format_ver, 'prefab': bool(vmf.is_prefab),
        'vis': [dump_vis(F, v) for v in vmf.vis_tree],
        'snap': bool(vmf.snap_grid), 'grid': bool(vmf.show_grid), 'logic': bool(vmf.show_logic_grid),
        'spacing': vmf.grid_spacing, 'grid3d': bool(vmf.show_3d_grid),
        'inst_vis': None if vmf.strata_instance_vis is None else vmf.strata_instance_vis.value,
        'views': None if vmf.strata_viewports is None else [dump_view(F, v) for v in vmf.strata_viewports],
        'spawn': dump_ent(F, vmf.spawn),
        'groups': [{'id': g.id, 'shown': bool(g.shown), 'auto': bool(g.auto_shown), 'color': F.vec(g.color)} for g in vmf.groups.values()],
        'ents': [dump_ent(F, e) for e in vmf.entities],
        'active_cam': vmf.active_cam, 'cams': [{'pos': F.vec(c.pos), 'look': F.vec(c.target)} for c in vmf.cameras],
        'cordon_on': bool(vmf.cordon_enabled),
        'cordons': [{'name': codes(c.name), 'active': bool(c.active), 'min': F.vec(c.bounds_min), 'max': F.vec(c.bounds_max)} for c in vmf.cordons],
        'quickhide': vmf.quickhide_count,
    }


def kv_tree(kv):
    """A parsed Keyvalues object as the model's KV tree: leaf [0,name,value] / block [1,name,[children]]
    (real names, file order)."""
    out = []
    for child in kv:
        if child.has_children():
            out.append([1, codes(child.real_name), kv_tree(child)])
        else:
            out.append([0, codes(child.real_name), codes(child.value)])
    return out


# ------------------------------------------------------------------------ comparison helpers

def _sig6_close(a, b):
    if a == b:
        return True
    if math.isnan(a) or math.isnan(b) or math.isinf(a) or math.isinf(b):
        return (math.isnan(a) and math.isnan(b)) or a == b
    m = max(abs(a), abs(b))
    return abs(a - b) <= 5.0000001e-6 * m    # six significant digits: relative error <= 0.5e-5


def diff(a, b, path=''):
    """First difference between two raw dumps (tagged floats compared with the tolerance the
    property states: 'c' within 5e-7, 'g' six significant digits, 'r' exact). Returns None or a string."""
    if isinstance(a, list) and len(a) == 2 and isinstance(a[0], str) and a[0] in ('c', 'g', 'r') and isinstance(a[1], float):
        if not (isinstance(b, list) and len(b) == 2 and b[0] == a[0]):
            return f'{path}: {a!r} vs {b!r}'
        x, y = a[1], b[1]
        if a[0] == 'c':
            # 5e-7 in real arithmetic; the doubles nearest to x and to the 6-place decimal add up to 2 ulp
            ok = x == y or abs(x - y) <= 5e-7 + 4 * math.ulp(max(abs(x), abs(y))) or (math.isnan(x) and math.isnan(y))
        elif a[0] == 'g':
            ok = _sig6_close(x, y)
        else:
            ok = x == y or (math.isnan(x) and math.isnan(y))
        return None if ok else f'{path}: {x!r} vs {y!r} (kind {a[0]})'
    if isinstance(a, dict) and isinstance(b, dict):
        if set(a) != set(b):
            return f'{path}: keys {sorted(set(a) ^ set(b))}'
        for k in a:
            d = diff(a[k], b[k], f'{path}.{k}')
            if d:
                return d
        return None
    if isinstance(a, list) and isinstance(b, list):
        if len(a) != len(b):
            return f'{path}: length {len(a)} vs {len(b)}'
        for i, (x, y) in enumerate(zip(a, b)):
            d = diff(x, y, f'{path}[{i}]')
            if d:
                return d
        return None
    if a != b:
        sa, sb = repr(a), repr(b)
        return f'{path}: {sa[:120]} vs {sb[:120]}'
    return None
