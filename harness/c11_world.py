"""C11 helper: synthesise BSP files for every layout, generate well-formed lump values with shared
sub-objects, assign them, and dump parsed views canonically (deep, by value; floats as float32 bit
patterns) so that `dump(assigned) == dump(re-read)` is the round-trip oracle.

All srctools imports happen inside functions (common.import_impl() must have run first)."""
import struct, os, itertools, functools, operator, copy

# ---------------------------------------------------------------------------------- configurations
# name, BSP version, magic, L4D2 lump-header order, layout table name
CONFIGS = [
    ('v19', 19, b'VBSP', False, 'LUMP_LAYOUT_V19'),
    ('v20', 20, b'VBSP', False, 'LUMP_LAYOUT_STANDARD'),
    ('v21', 21, b'VBSP', False, 'LUMP_LAYOUT_STANDARD'),
    ('l4d2', 21, b'VBSP', True, 'LUMP_LAYOUT_STANDARD'),
    ('infra', 22, b'VBSP', False, 'LUMP_LAYOUT_INFRA'),
    ('chaos', 25, b'VBSP', False, 'LUMP_LAYOUT_CHAOS'),
    ('vitamin', 43, b'FART', False, 'LUMP_LAYOUT_VITAMIN'),
]
CONFIG_BY_NAME = {c[0]: c for c in CONFIGS}

LUMP_ENTITIES, LUMP_GAME = 0, 35


def make_base(path, version, magic=b'VBSP', sprp_version=5, dprp_version=4):
    """A minimal, valid BSP: worldspawn only, empty lumps, empty sprp/dprp game lumps."""
    ents = b'{\n"classname" "worldspawn"\n}\n\x00'
    empty_gl = struct.pack('<iii', 0, 0, 0)
    head_size = 8 + 64 * 16 + 4
    ent_off = head_size
    gl_off = ent_off + len(ents)
    gl_head = 4 + 2 * 16
    gl = struct.pack('<i', 2)
    gl += struct.pack('<4sHHii', b'sprp'[::-1], 0, sprp_version, gl_off + gl_head, len(empty_gl))
    gl += struct.pack('<4sHHii', b'dprp'[::-1], 0, dprp_version, gl_off + gl_head + len(empty_gl) + 1, len(empty_gl))
    gl += empty_gl + b'\0' + empty_gl
    out = struct.pack('<4si', magic, version)
    for i in range(64):
        if i == LUMP_ENTITIES:
            out += struct.pack('<4i', ent_off, len(ents), 0, 0)
        elif i == LUMP_GAME:
            out += struct.pack('<4i', gl_off, len(gl), 0, 0)
        else:
            out += struct.pack('<4i', 0, 0, 0, 0)
    out += struct.pack('<i', 1)
    out += ents + gl
    with open(path, 'wb') as f:
        f.write(out)


def open_config(cfg_name, tmpdir, tag='base'):
    """Fresh BSP object of a configuration (the L4D2 one is produced by the library itself)."""
    from srctools.bsp import BSP, GameVersion
    name, ver, magic, l4d2, _ = CONFIG_BY_NAME[cfg_name]
    p = os.path.join(tmpdir, f'{tag}_{name}.bsp')
    make_base(p, ver, magic)
    bsp = BSP(p)
    if l4d2:
        bsp.game_ver = GameVersion.L4D2
    return bsp


# ---------------------------------------------------------------------------------- primitives

def f32bits(x):
    return struct.unpack('<I', struct.pack('<f', x))[0]


def rand_f32(rng, integral=False):
    """A finite float that is exactly representable in binary32."""
    k = rng.random()
    if integral:
        return float(rng.choice([0, 1, -1, 16, -16, 127, -128, 1024, -1024, rng.randrange(-30000, 30000)]))
    if k < 0.15:
        return rng.choice([0.0, -0.0, 1.0, -1.0, 0.5, 16384.0, -99999.0, 3.4028234663852886e+38, 1.401298464324817e-45])
    if k < 0.5:
        return float(rng.randrange(-4096, 4096)) / rng.choice([1, 2, 4, 8, 64])
    while True:
        v = struct.unpack('<f', struct.pack('<I', rng.getrandbits(32)))[0]
        if v == v and abs(v) != float('inf'):
            return v


def dv(v):
    """Vec/Angle -> tuple of float32 bit patterns (non-representable values show up as a mismatch)."""
    return tuple(f32bits_or_raw(c) for c in v)


def f32bits_or_raw(c):
    try:
        back = struct.unpack('<f', struct.pack('<f', c))[0]
    except (OverflowError, struct.error):
        return ('raw', repr(c))
    if back != c and c == c:
        return ('raw', repr(c))
    return f32bits(c)


def all_flag_members(E, maxbit):
    return [m for m in E.__members__.values() if m.value and m.value & (m.value - 1) == 0 and m.value < (1 << maxbit)]


def rand_flags(rng, E, maxbit, zero=None):
    ms = all_flag_members(E, maxbit)
    k = rng.random()
    if k < 0.15:
        return E(0) if zero is None else zero
    if k < 0.25:
        return functools.reduce(operator.or_, ms)
    return functools.reduce(operator.or_, rng.sample(ms, rng.randrange(1, min(6, len(ms)) + 1)))


# ---------------------------------------------------------------------------------- the world

class World:
    """Plain container of the generated values (lists of srctools objects)."""
    def __init__(self):
        self.notes = []


ENT_VALUE_ALPHABET = ['a', 'B', '0', ' ', '"', '\\', '\n', '\t', '\r', '/', '?', ',', ';', ':', '{', '}', '\udc80', '\udcff', "'", '*']
ENT_KEY_ALPHABET = ['a', 'B', 'z', '0', '_', ' ', '.', '$', '#', '[', '{', '"', '\\', '\n', '\t', '/']


def rand_text(rng, alphabet, lo, hi):
    return ''.join(rng.choice(alphabet) for _ in range(rng.randrange(lo, hi + 1)))


def ent_value_ok(v):
    """Outside the class the reader's output heuristic cannot tell from an output / end marker."""
    return '\x1b' not in v and v.count(',') != 4 and v != '\x00'


def gen_world(rng, cfg_name, size=3, prop_version=None, empty=False, reuse=None, loaded=None):
    """Generate a consistent, well-formed object graph for every structured lump."""
    from srctools.bsp import (Plane, PlaneType, Edge, Primitive, Face, TexData, TexInfo, BrushSide, Brush,
                              VisLeaf, VisTree, VisLeafFlags, LeafWaterInfo, Visibility, BModel, Cubemap,
                              Overlay, StaticProp, StaticPropFlags, StaticPropVersion, DetailPropModel,
                              DetailPropSprite, DetailPropShape, DetailPropOrientation)
    from srctools.const import SurfFlags, BSPContents
    from srctools.math import Vec, Angle
    from srctools.vmf import VMF, Entity, Output
    from srctools.keyvalues import Keyvalues
    name, ver, magic, l4d2, layout = CONFIG_BY_NAME[cfg_name]
    vit = cfg_name == 'vitamin'
    chaos = cfg_name == 'chaos'
    w = World()
    w.cfg = cfg_name
    n = (lambda lo=0: 0) if empty else (lambda lo=0: rng.randrange(lo, size + 1))
    fv = lambda integral=False: Vec(rand_f32(rng, integral), rand_f32(rng, integral), rand_f32(rng, integral))
    i16 = lambda: rng.choice([0, 1, -1, 32767, -32768, rng.randrange(-32768, 32768)])
    u16 = lambda: rng.choice([0, 1, 65535, rng.randrange(0, 65536)])
    i32 = lambda: rng.choice([0, 1, -1, 2**31 - 1, -2**31, rng.randrange(-2**31, 2**31)])
    u32 = lambda: rng.choice([0, 1, 2**32 - 1, rng.randrange(0, 2**32)])
    u8 = lambda: rng.choice([0, 1, 255, rng.randrange(0, 256)])
    # Angle() reduces modulo 360: draw values that are already reduced and exact in binary32
    ang = lambda: Angle(rng.randrange(0, 360 * 64) / 64, rng.randrange(0, 360 * 64) / 64, rng.randrange(0, 360 * 64) / 64)

    def twins(lst, tweak=None, p=0.5, make=copy.copy):
        """Objects that a too-coarse de-duplication key would merge: for a random element append an EQUAL but
        distinct object (same field values, sub-objects shared) and, with `tweak`, an object that agrees on the
        likely key (name / geometry / referenced objects) but differs in the fields `tweak` changes."""
        if empty or not lst or rng.random() > p:
            return
        src = rng.choice(lst)
        lst.append(make(src))
        w.twins = getattr(w, 'twins', 0) + 1
        if tweak is not None and rng.random() < 0.7:
            t = make(src)
            tweak(t)
            lst.append(t)

    # --- planes, vertexes, edges
    w.planes = [Plane(fv(), rand_f32(rng), rng.choice(list(PlaneType))) for _ in range(n())]
    twins(w.planes, lambda t: setattr(t, 'type', rng.choice([x for x in PlaneType if x is not t.type])),
          make=lambda t: Plane(Vec(t.normal), t.dist, t.type))
    w.vertexes = [fv() for _ in range(n())]
    if w.vertexes and rng.random() < 0.5:
        w.vertexes[rng.randrange(len(w.vertexes))] = Vec(0.0, 0.0, 0.0)
    twins(w.vertexes, make=lambda v: Vec(v))                 # equal coordinates, distinct vertex
    base_edges = []
    for _ in range(n()):
        a = rng.choice(w.vertexes) if w.vertexes and rng.random() < 0.8 else fv()
        b = rng.choice(w.vertexes) if w.vertexes and rng.random() < 0.8 else fv()
        base_edges.append(Edge(a, b))
    twins(base_edges, make=lambda e: Edge(e.a, e.b))          # another edge between the same two vertex objects
    twins(base_edges, make=lambda e: Edge(Vec(e.a), Vec(e.b)))  # equal coordinates, distinct vertexes
    w.surfedges = []
    for _ in range(n() + (len(base_edges) and 1)):
        if not base_edges:
            break
        e = rng.choice(base_edges)
        w.surfedges.append(e.opposite if rng.random() < 0.4 else e)

    # --- textures, texdata, texinfo
    w.textures = []
    for _ in range(n()):
        # names that are suffixes (legitimately share storage), prefixes and infixes of each other
        nm = rng.choice(['brick/wall', 'wall', 'brick', 'brick/w', 'all', 'BRICK/WALL2', 'tools/toolsnodraw', 'a', 'ab', 'b',
                         'dev/' + 'x' * rng.randrange(0, 100), 'w\udc80\udcff'])
        if nm not in w.textures:
            w.textures.append(nm)
    if w.textures and not empty and rng.random() < 0.4:       # the same name in another case is another name
        v = rng.choice(w.textures).swapcase()
        if v not in w.textures:
            w.textures.append(v)
    if reuse is not None and reuse.textures:
        # names the previously loaded file already has (same spelling and other case)
        for _ in range(n(1)):
            v = rng.choice(reuse.textures)
            v = v.swapcase() if rng.random() < 0.3 else v
            if v not in w.textures:
                w.textures.insert(rng.randrange(len(w.textures) + 1), v)
    texdatas = []
    for _ in range(n()):
        mat = rng.choice(w.textures) if w.textures and rng.random() < 0.6 else 'gen/mat%d' % rng.randrange(1000)
        texdatas.append(TexData(mat, fv(), i32(), i32()))
    if reuse is not None and reuse.texdatas:
        # NEW TexData objects for materials the loaded file knows, with other reflectivity / size
        for _ in range(n(1) + 1):
            old = rng.choice(reuse.texdatas)
            texdatas.append(TexData(old.mat.swapcase() if rng.random() < 0.3 else old.mat, fv(), i32(), i32()))
    if loaded is not None and rng.random() < 0.5:
        # …and some of the very objects that were parsed from the file (an edited rather than replaced view)
        for ti in rng.sample(list(loaded.texinfo), min(2, len(loaded.texinfo))):
            if not any(t is ti._info for t in texdatas):
                texdatas.append(ti._info)
    # distinct TexData for the SAME material (same spelling / other case): equal copy, and different size / reflectivity
    twins(texdatas, lambda t: (setattr(t, 'reflectivity', fv()), setattr(t, 'width', i32()), setattr(t, 'height', i32())),
          p=0.7, make=lambda t: TexData(t.mat, Vec(t.reflectivity), t.width, t.height))
    twins(texdatas, lambda t: (setattr(t, 'mat', t.mat.swapcase()), setattr(t, 'width', i32())),
          make=lambda t: TexData(t.mat, Vec(t.reflectivity), t.width, t.height))
    w.texdatas = texdatas
    w.texinfo = []
    if texdatas:
        for _ in range(n(1)):
            w.texinfo.append(TexInfo(fv(), rand_f32(rng), fv(), rand_f32(rng), fv(), rand_f32(rng), fv(), rand_f32(rng),
                                     rand_flags(rng, SurfFlags, 31), rng.choice(texdatas)))
        if not empty and len(texdatas) > 1 and rng.random() < 0.8:      # make sure twin texdata are both referenced
            for td in texdatas[-2:]:
                w.texinfo.append(TexInfo(fv(), rand_f32(rng), fv(), rand_f32(rng), fv(), rand_f32(rng), fv(), rand_f32(rng),
                                         rand_flags(rng, SurfFlags, 31), td))
        if reuse is not None and not empty:
            for td in texdatas[-3:]:       # the re-used materials are always referenced
                w.texinfo.append(TexInfo(fv(), rand_f32(rng), fv(), rand_f32(rng), fv(), rand_f32(rng), fv(), rand_f32(rng),
                                         rand_flags(rng, SurfFlags, 31), td))
        # equal texinfo (distinct object, same TexData) and one differing only in a shift
        twins(w.texinfo, lambda t: setattr(t, 's_shift', rand_f32(rng)))

    # --- primitives
    w.primitives = []
    if not vit:
        for _ in range(n()):
            w.primitives.append(Primitive(rng.random() < 0.5, [u16() for _ in range(n())], [fv() for _ in range(n())]))
        twins(w.primitives, lambda t: setattr(t, 'is_tristrip', not t.is_tristrip),
              make=lambda t: Primitive(t.is_tristrip, list(t.indexed_verts), [Vec(v) for v in t.verts]))

    def sub_slice(lst, allow_fresh=None):
        """A contiguous slice of lst (shared sub-list), possibly running past the end with fresh objects."""
        if not lst or rng.random() < 0.2:
            return [allow_fresh() for _ in range(n())] if allow_fresh and rng.random() < 0.5 else []
        i = rng.randrange(len(lst))
        j = rng.randrange(i, len(lst) + 1)
        out = lst[i:j]
        if allow_fresh and j == len(lst) and rng.random() < 0.5:
            out = out + [allow_fresh() for _ in range(n(1))]     # tail of the list + new objects
        return out

    def fresh_edge():
        return Edge(fv(), fv())

    # --- faces
    def mk_face(orig, texinfo, hammer_id, is_orig):
        if vit:
            return Face(rng.choice(w.planes) if w.planes else Plane(fv(), rand_f32(rng), PlaneType.X),
                        False, False, sub_slice(w.surfedges, fresh_edge), texinfo, i32(), 0, bytes(4), 0, 0,
                        (i32(), i32()), (i32(), i32()), None, [], False, 0, None, u8())
        return Face(
            rng.choice(w.planes) if w.planes and rng.random() < 0.9 else Plane(fv(), rand_f32(rng), rng.choice(list(PlaneType))),
            rng.random() < 0.5, rng.random() < 0.5,
            sub_slice(w.surfedges, fresh_edge),
            texinfo,
            i32() if chaos else i16(), i32() if chaos else i16(),
            bytes(rng.randrange(256) for _ in range(4)),
            i32(), rand_f32(rng),
            (i32(), i32()), (i32(), i32()),
            orig,
            sub_slice(w.primitives),
            rng.random() < 0.5,
            u32(),
            hammer_id,
            0,
        )
    w.orig_faces, w.faces, w.hdr_faces = [], [], []
    some_tex = lambda: (rng.choice(w.texinfo) if w.texinfo else None)
    if vit:
        if w.texinfo:     # VitaminSource faces always index texinfo
            w.faces = [mk_face(None, rng.choice(w.texinfo), None, False) for _ in range(n())]
            twins(w.faces, lambda t: setattr(t, 'vitamin_flags', (t.vitamin_flags + 1) % 256))
    else:
        n_orig = n()
        used = {}
        for _ in range(n_orig):
            w.orig_faces.append(mk_face(None, None, None, True))
        if w.orig_faces and w.texinfo:
            # every split face references an orig face; faces sharing an orig face share texinfo and id.
            # FACEIDS is one array indexed by position in *both* faces and hdr_faces: keep them aligned.
            nf = n()
            plan = []
            for i in range(nf):
                o = rng.choice(w.orig_faces)
                if id(o) not in used:
                    used[id(o)] = (rng.choice(w.texinfo), rng.choice([1, 65535, rng.randrange(1, 65536)]))
                plan.append(o)
            for o in plan:
                t, hid = used[id(o)]
                w.faces.append(mk_face(o, t, hid, False))
            if plan and rng.random() < 0.6:
                for o in plan:
                    t, hid = used[id(o)]
                    w.hdr_faces.append(mk_face(o, t, hid, False))
            if w.faces and rng.random() < 0.5:
                # an equal split face (distinct object; same plane, edge list, orig face …), kept aligned in hdr_faces
                k = rng.randrange(len(w.faces))
                w.faces.append(copy.copy(w.faces[k]))
                if w.hdr_faces:
                    w.hdr_faces.append(copy.copy(w.hdr_faces[k]))
            if rng.random() < 0.5:
                # an orig face equal to another one but referenced by nobody (so without texinfo / id)
                o2 = copy.copy(rng.choice(w.orig_faces))
                o2.texinfo, o2.hammer_id = None, None
                w.orig_faces.append(o2)
            # ids: position i of faces and hdr_faces must carry the same id -> same orig face per position
            for o in w.orig_faces:
                if id(o) in used:
                    o.texinfo, o.hammer_id = used[id(o)]
            # position-wise consistency: FACEIDS[i] is read for faces[i] and hdr_faces[i]
            # (both lists use the same orig-face plan, so ids agree)

    # --- brushes
    w.brushes = []
    sides_pool = []
    if w.planes and w.texinfo:
        for _ in range(n() * 2):
            if vit:
                sides_pool.append(BrushSide(rng.choice(w.planes), rng.choice(w.texinfo), i16(), rng.random() < 0.5, u8()))
            else:
                sides_pool.append(BrushSide(rng.choice(w.planes), rng.choice(w.texinfo), i16(), rng.random() < 0.5,
                                            rng.choice([0, 2, 0xFFFE, rng.randrange(0, 0x8000) * 2])))
        twins(sides_pool, lambda t: setattr(t, '_dispinfo', i16()))
        for _ in range(n()):
            w.brushes.append(Brush(rand_flags(rng, BSPContents, 31), sub_slice(sides_pool)))
        twins(w.brushes, lambda t: setattr(t, 'contents', rand_flags(rng, BSPContents, 31)),
              make=lambda b: Brush(b.contents, list(b.sides)))      # equal side list, distinct list object

    # --- visleafs / nodes
    def ivec(lo, hi):
        if chaos:          # the Chaos layout stores node / leaf bounds as floats
            return fv()
        return Vec(float(rng.randrange(lo, hi)), float(rng.randrange(lo, hi)), float(rng.randrange(lo, hi)))
    lo, hi = (0, 65536) if vit else (-32768, 32768)
    w.visleafs = []
    for _ in range(n()):
        w.visleafs.append(VisLeaf(
            rand_flags(rng, BSPContents, 31), i16(),
            rng.choice([0, 1, 255, rng.randrange(0, 256)]),
            rand_flags(rng, VisLeafFlags, 7),
            ivec(lo, hi), ivec(lo, hi),
            [rng.choice(w.faces) for _ in range(n())] if w.faces else [],
            [rng.choice(w.brushes) for _ in range(n())] if w.brushes else [],
            i16(),
            bytes(rng.randrange(256) for _ in range(24)) if cfg_name == 'v19' else bytes(24),
            u16(),
        ))
    twins(w.visleafs, lambda t: setattr(t, 'cluster_id', i16()),
          make=lambda l: VisLeaf(l.contents, l.cluster_id, l.area, l.flags, Vec(l.mins), Vec(l.maxes), list(l.faces),
                                 list(l.brushes), l.water_id, l._ambient, l.min_water_dist))
    w.nodes = []
    if w.planes and w.visleafs:
        nn = n()
        nlo, nhi = (-32768, 32768)
        for _ in range(nn):
            w.nodes.append(VisTree(rng.choice(w.planes), ivec(nlo, nhi), ivec(nlo, nhi), sub_slice(w.faces), i16()))
        for i, nd in enumerate(w.nodes):
            for side in ('child_neg', 'child_pos'):
                later = w.nodes[i + 1:]
                if later and rng.random() < 0.5:
                    setattr(nd, side, rng.choice(later))
                else:
                    setattr(nd, side, rng.choice(w.visleafs))
        twins(w.nodes, lambda t: setattr(t, 'area_ind', i16()))      # equal node (same children), distinct object

    # --- water info, visibility, cubemaps, overlays
    w.water_leaf_info = [LeafWaterInfo(rand_f32(rng), rand_f32(rng), rng.choice(w.texinfo)) for _ in range(n())] if w.texinfo else []
    twins(w.water_leaf_info, lambda t: setattr(t, 'min_z', rand_f32(rng)))
    if empty or rng.random() < 0.25:
        w.visibility = None
    else:
        nc = rng.choice([1, 2, 7, 8, 9, 16, 17, 40, 300 * 8])
        row = lambda: bytearray(rng.choice([0, 0, 0, 1, 255, rng.randrange(256)]) for _ in range((nc + 7) // 8)) \
            if rng.random() < 0.8 else bytearray((nc + 7) // 8)
        w.visibility = Visibility([row() for _ in range(nc if nc < 50 else 3)], [])
        w.visibility.potentially_audible = [row() for _ in w.visibility.potentially_visible]
        w.vis_clusters = nc
        if nc >= 50:      # rows must be ceil(count/8) long: count = number of rows
            k = len(w.visibility.potentially_visible)
            fix = lambda r: bytearray(r[:(k + 7) // 8])
            w.visibility.potentially_visible = [fix(r) for r in w.visibility.potentially_visible]
            w.visibility.potentially_audible = [fix(r) for r in w.visibility.potentially_audible]
    w.cubemaps = [Cubemap(Vec(float(i32()), float(i16()), float(i16())), i32()) for _ in range(n())]
    twins(w.cubemaps, lambda t: setattr(t, 'size', i32()), make=lambda c_: Cubemap(Vec(c_.origin), c_.size))
    w.overlays = []
    if w.texinfo:
        for _ in range(n()):
            faces = [i32() for _ in range(rng.choice([0, 1, 2, 64, rng.randrange(0, 65)]))]
            w.overlays.append(Overlay(i32(), fv(), fv(), rng.choice(w.texinfo), len(faces), faces, rng.randrange(4),
                                      rand_f32(rng), rand_f32(rng), rand_f32(rng), rand_f32(rng), fv(), fv(), fv(), fv(),
                                      rand_f32(rng), rand_f32(rng),
                                      rng.randrange(255), rng.randrange(255), rng.randrange(255), rng.randrange(255)))

    # --- entities + brush models
    vmf = VMF()
    vmf.spawn['classname'] = 'worldspawn'
    vmf.spawn['mapversion'] = str(rng.randrange(0, 5000))
    vmf.map_ver = int(vmf.spawn['mapversion'])

    w.force_sep = rng.choice([None, None, True, False])     # BSP.out_comma_sep: None keeps each output's own separator

    def fill_ent(ent):
        for _ in range(n()):
            k = rand_text(rng, ENT_KEY_ALPHABET, 1, 8).strip() or 'k'
            v = rand_text(rng, ENT_VALUE_ALPHABET, 0, 12)
            if k.casefold() in ('classname', 'model', 'mapversion') or not ent_value_ok(v):
                continue
            ent[k] = v
        for _ in range(n()):
            comma = (rng.random() < 0.5) if w.force_sep is None else w.force_sep
            bad = ',\x1b"\\\n\r\t;' if comma else '\x1b"\\\n\r\t;'
            word = lambda lo_=1: ''.join(c for c in rand_text(rng, ['a', 'Z', '_', '1', ' ', '!', '*', ',', "'"], lo_, 8) if c not in bad) or ('x' if lo_ else '')
            ent.add_out(Output(
                word(), word(), word(), word(0),
                delay=rng.choice([0.0, 1.0, 0.5, 0.25, 12.5, 100.0, rng.randrange(0, 100000) / 100]),
                times=rng.choice([-1, 1, 5]),
                inst_out=rng.choice([None, None, 'rl_a']),
                inst_in=rng.choice([None, None, 'in_b']),
                comma_sep=comma,
            ))
    fill_ent(vmf.spawn)
    ents = []
    for _ in range(n()):
        e = Entity(vmf)
        e['classname'] = rng.choice(['func_brush', 'info_target', 'prop_dynamic'])
        fill_ent(e)
        vmf.add_ent(e)
        ents.append(e)
    if ents and not empty and rng.random() < 0.5:       # an entity with exactly the same keyvalues and outputs
        src = rng.choice(ents)
        e = Entity(vmf)
        for k_, v_ in src.items():
            e[k_] = v_
        for o in src.outputs:
            e.add_out(o.copy())
        vmf.add_ent(e)
        ents.append(e)
    w.ents = vmf
    w.bmodels = None
    if w.nodes:
        def mk_bmodel():
            solids = [bytes(rng.randrange(256) for _ in range(rng.randrange(0, 9))) for _ in range(n())]
            kv = None
            if solids or rng.random() < 0.3:
                kv = Keyvalues.root(Keyvalues('solid', [Keyvalues('index', str(rng.randrange(9))), Keyvalues('mass', '1.5')]))
            return BModel(fv(), fv(), fv(), rng.choice(w.nodes), sub_slice(w.faces), kv, solids)
        from weakref import WeakKeyDictionary
        bm = WeakKeyDictionary()
        bm[vmf.spawn] = mk_bmodel()
        shared = None
        for e in ents:
            if rng.random() < 0.6:
                if shared is not None and rng.random() < 0.3:
                    bm[e] = shared            # two entities using one brush model
                elif shared is not None and rng.random() < 0.3:
                    bm[e] = copy.copy(shared)  # an equal brush model that is a different object (own index)
                else:
                    bm[e] = shared = mk_bmodel()
        w.bmodels = bm

    # --- static props
    versions = {v.name: v for v in StaticPropVersion if v.name not in ('UNKNOWN', 'DEFAULT')}
    pv = versions[prop_version] if prop_version else rng.choice(list(versions.values()))
    w.prop_version = pv.name
    is_lm = pv.name.startswith('V_LIGHTMAP')
    vnum = 7 if is_lm else pv.version
    has_sec = vnum >= 10 or pv.name == 'V_LIGHTMAP_MESA' or is_lm
    w.props = []
    models = ['models/props/a.mdl', 'models/b.mdl', 'models/' + 'y' * 117 + '.mdl', 'm\udc80.mdl']
    for _ in range(n()):
        if is_lm:
            flagbits = 32 if pv.name != 'V_LIGHTMAP_MESA' else 32
        else:
            flagbits = 40 if has_sec else 8
        p = StaticProp(
            rng.choice(models), fv(), ang(),
            Vec(1.0, 1.0, 1.0),
            set(rng.sample(w.visleafs, rng.randrange(0, len(w.visleafs) + 1))) if w.visleafs else set(),
            u8(), rand_flags(rng, StaticPropFlags, flagbits), i32(), rand_f32(rng), rand_f32(rng), fv(),
        )
        if vnum >= 5:
            p.fade_scale = rand_f32(rng)
        if vnum in (6, 7):
            p.min_dx_level, p.max_dx_level = u16(), u16()
        if vnum >= 8:
            p.min_cpu_level, p.max_cpu_level, p.min_gpu_level, p.max_gpu_level = u8(), u8(), u8(), u8()
        if is_lm:
            p.lightmap_x, p.lightmap_y = u16(), u16()
        if vnum >= 7 and not pv.name.startswith('V_LIGHTMAP_v'):
            p.tint = Vec(float(u8()), float(u8()), float(u8()))
            p.renderfx = u8()
        if vnum >= 9 and not is_lm:
            p.disable_on_xbox = rng.random() < 0.5
        if pv.name == 'V_CHAOS_V13':
            p.scaling = fv()
        elif vnum >= 11:
            s = rand_f32(rng)
            p.scaling = rng.choice([Vec(s, s, s), s])
        w.props.append(p)
    # equal prop; same prop with the model name in another case (another dictionary entry) / another skin
    twins(w.props, lambda t: (setattr(t, 'model', t.model.swapcase()), setattr(t, 'skin', i32())))
    twins(w.overlays, lambda t: setattr(t, 'id', i32()))

    # --- detail props
    w.detail_props = []
    for _ in range(n()):
        common = (fv(), ang(), rng.choice(list(DetailPropOrientation)),
                  u16(), (u8(), u8(), u8(), u8()), (u32(), u8()), u8())
        kind = rng.randrange(3)
        dims = lambda: (rand_f32(rng), rand_f32(rng))
        if kind == 0:
            w.detail_props.append(DetailPropModel(*common, rng.choice(models)))
        elif kind == 1:
            w.detail_props.append(DetailPropSprite(*common, rand_f32(rng), dims(), dims(), dims(), dims()))
        else:
            w.detail_props.append(DetailPropShape(*common, rand_f32(rng), dims(), dims(), dims(), dims(),
                                                  rng.random() < 0.5, u8(), u8()))
    # equal detail prop; same sprite rectangle but other scale / same model in another case
    def dtweak(t):
        if isinstance(t, DetailPropModel):
            t.model = t.model.swapcase()
        else:
            # same sprite rectangle / partly the same: a sprite-table key that looks at fewer than all 8 numbers merges them
            which = rng.choice(['scale', 'texcoord_lower_right', 'texcoord_upper_left', 'dims_lower_right', 'dims_upper_left'])
            if which == 'scale':
                t.sprite_scale = rand_f32(rng)
            else:
                setattr(t, which, (rand_f32(rng), rand_f32(rng)))
    twins(w.detail_props, dtweak, p=0.8)
    twins(w.detail_props, dtweak, p=0.5)
    return w


VIEWS = ['ents', 'textures', 'texinfo', 'planes', 'vertexes', 'surfedges', 'primitives', 'faces',
         'hdr_faces', 'orig_faces', 'brushes', 'visleafs', 'nodes', 'water_leaf_info', 'visibility', 'bmodels', 'cubemaps',
         'overlays', 'props', 'detail_props']
# lists other writers may append to (find_or_insert / find_or_extend targets): prefix comparison
GROWING = {'textures', 'texinfo', 'planes', 'vertexes', 'surfedges', 'primitives', 'orig_faces', 'faces', 'brushes',
           'visleafs', 'nodes'}


def assign_world(bsp, w, views=None):
    from srctools.bsp import StaticPropVersion
    for v in (views or VIEWS):
        if v == 'ents':
            bsp.out_comma_sep = w.force_sep
        if v == 'bmodels':
            if w.bmodels is not None:
                bsp.bmodels = w.bmodels
            continue
        if v == 'props':
            ver = StaticPropVersion[w.prop_version]
            bsp.static_prop_version = ver      # the writer puts ver.version into the game lump header
        setattr(bsp, v, getattr(w, v))


# ---------------------------------------------------------------------------------- canonical dumps

class Dumper:
    def __init__(self, cfg_name, prop_version):
        self.cfg, self.pv = cfg_name, prop_version
        self.vit = cfg_name == 'vitamin'

    def plane(self, p):
        return ('plane', dv(p.normal), f32bits_or_raw(p.dist), p.type.value)

    def edge(self, e):
        return ('edge', dv(e.a), dv(e.b))

    def texdata(self, t):
        return ('texdata', t.mat.casefold(), dv(t.reflectivity), t.width, t.height)

    def texinfo(self, t):
        if t is None:
            return None
        return ('texinfo', dv(t.s_off), f32bits_or_raw(t.s_shift), dv(t.t_off), f32bits_or_raw(t.t_shift),
                dv(t.lightmap_s_off), f32bits_or_raw(t.lightmap_s_shift), dv(t.lightmap_t_off),
                f32bits_or_raw(t.lightmap_t_shift), t.flags.value, self.texdata(t._info))

    def prim(self, p):
        return ('prim', int(p.is_tristrip), list(p.indexed_verts), [dv(v) for v in p.verts])

    def face(self, f, deep=True):
        if f is None:
            return None
        if self.vit:
            return ('vface', self.plane(f.plane), [self.edge(e) for e in f.edges], self.texinfo(f.texinfo),
                    f._dispinfo_ind, tuple(f.lightmap_mins), tuple(f.lightmap_size), f.vitamin_flags)
        return ('face', self.plane(f.plane), bool(f.same_dir_as_plane), bool(f.on_node),
                [self.edge(e) for e in f.edges], self.texinfo(f.texinfo), f._dispinfo_ind, f.surf_fog_volume_id,
                bytes(f.light_styles), f._lightmap_off, f32bits_or_raw(f.area), tuple(f.lightmap_mins),
                tuple(f.lightmap_size), self.face(f.orig_face, False) if deep else None,
                [self.prim(p) for p in f.primitives], bool(f.dynamic_shadows), f.smoothing_groups, f.hammer_id)

    def side(self, s):
        return ('side', self.plane(s.plane), self.texinfo(s.texinfo), s._dispinfo, bool(s.is_bevel_plane), s._unknown_bevel_bits)

    def brush(self, b):
        return ('brush', b.contents.value, [self.side(s) for s in b.sides])

    def leaf(self, l):
        return ('leaf', l.contents.value, l.cluster_id, l.area, l.flags.value, dv(l.mins), dv(l.maxes),
                [self.face(f) for f in l.faces], [self.brush(b) for b in l.brushes], l.water_id,
                bytes(l._ambient), l.min_water_dist)

    def node(self, nd, nodes):
        def child(c):
            from srctools.bsp import VisLeaf
            if isinstance(c, VisLeaf):
                return self.leaf(c)
            for i, x in enumerate(nodes):
                if x is c:
                    return ('node#', i)
            return ('node?', self.plane(c.plane))
        return ('node', self.plane(nd.plane), dv(nd.mins), dv(nd.maxes), [self.face(f) for f in nd.faces],
                nd.area_ind, child(nd.child_neg), child(nd.child_pos))

    def output(self, o):
        return ('out', o.output, o.target, o.input, o.params, float(o.delay), o.times, o.inst_out, o.inst_in, bool(o.comma_sep))

    def ent(self, e, drop_model=False):
        kv = sorted((k.casefold(), v) for k, v in e.items() if not (drop_model and k.casefold() == 'model'))
        return ('ent', kv, [self.output(o) for o in e.outputs])

    def bmodel(self, m, nodes):
        idx = next((i for i, x in enumerate(nodes) if x is m.node), None)
        return ('bmodel', dv(m.mins), dv(m.maxes), dv(m.origin),
                ('node#', idx) if idx is not None else ('node?', self.plane(m.node.plane)),
                [self.face(f) for f in m.faces],
                m.phys_keyvalues.serialise() if m.phys_keyvalues is not None else None,
                [bytes(s) for s in m._phys_solids])

    def overlay(self, o):
        return ('overlay', o.id, dv(o.origin), dv(o.normal), self.texinfo(o.texture), list(o.faces), o.render_order,
                tuple(map(f32bits_or_raw, (o.u_min, o.u_max, o.v_min, o.v_max))), dv(o.uv1), dv(o.uv2), dv(o.uv3), dv(o.uv4),
                f32bits_or_raw(o.fade_min_sq), f32bits_or_raw(o.fade_max_sq), o.min_cpu, o.max_cpu, o.min_gpu, o.max_gpu)

    def prop(self, p):
        pv = self.pv
        is_lm = pv.startswith('V_LIGHTMAP')
        vnum = 7 if is_lm else {'V4': 4, 'V5': 5, 'V6': 6, 'V7': 7, 'V8': 8, 'V9': 9, 'V10': 10, 'V11': 11,
                                'V_CHAOS_V12': 12, 'V_CHAOS_V13': 13}[pv]
        has_sec = vnum >= 10 or pv == 'V_LIGHTMAP_MESA'
        flags = p.flags.value
        if is_lm:
            flags = flags            # full 32-bit value is stored (+ high bits again in Mesa)
        elif not has_sec:
            flags &= 0xFF
        out = ['prop', p.model, dv(p.origin), dv(p.angles), sorted(self.leaf(l) for l in p.visleafs) if False else
               sorted(repr(self.leaf(l)) for l in p.visleafs),
               p.solidity, flags, p.skin, f32bits_or_raw(p.min_fade), f32bits_or_raw(p.max_fade), dv(p.lighting)]
        if vnum >= 5:
            out.append(('fade_scale', f32bits_or_raw(p.fade_scale)))
        if vnum in (6, 7):
            out.append(('dx', p.min_dx_level, p.max_dx_level))
        if vnum >= 8:
            out.append(('cpu', p.min_cpu_level, p.max_cpu_level, p.min_gpu_level, p.max_gpu_level))
        if is_lm:
            out.append(('lm', p.lightmap_x, p.lightmap_y))
        if vnum >= 7 and not pv.startswith('V_LIGHTMAP_v'):
            out.append(('tint', dv(p.tint), p.renderfx))
        if vnum >= 9 and not is_lm:
            out.append(('xbox', bool(p.disable_on_xbox)))
        from srctools.math import Vec
        sc = p.scaling if isinstance(p.scaling, Vec) else Vec(p.scaling, p.scaling, p.scaling)
        if pv == 'V_CHAOS_V13':
            out.append(('scale3', dv(sc)))
        elif vnum >= 11:
            out.append(('scale1', f32bits_or_raw(sc.x)))
        return tuple(out)

    def detail(self, d):
        from srctools.bsp import DetailPropModel, DetailPropShape, DetailPropSprite
        base = (dv(d.origin), dv(d.angles), d.orientation.value, d.leaf, tuple(d.lighting), tuple(d._light_styles), d.sway_amount)
        if isinstance(d, DetailPropModel):
            return ('dmodel',) + base + (d.model,)
        spr = (f32bits_or_raw(d.sprite_scale),) + tuple(tuple(map(f32bits_or_raw, t)) for t in
                                                       (d.dims_upper_left, d.dims_lower_right, d.texcoord_upper_left, d.texcoord_lower_right))
        if isinstance(d, DetailPropShape):
            return ('dshape',) + base + spr + (bool(d.is_cross), d.shape_angle, d.shape_size)
        return ('dsprite',) + base + spr

    # one view of either a World (assigned values) or a BSP (re-read)
    def view(self, src, v):
        val = getattr(src, v)
        if v == 'ents':
            bm = getattr(src, 'bmodels', None) if isinstance(src, World) else None
            brush_ents = set(id(e) for e in bm.keys()) if bm is not None else set()
            return ('vmf', self.ent(val.spawn), [self.ent(e, id(e) in brush_ents) for e in val.entities])
        if v == 'textures':
            return list(val)        # names differing only in case are different names
        if v == 'texinfo':
            return [self.texinfo(t) for t in val]
        if v == 'planes':
            return [self.plane(p) for p in val]
        if v == 'vertexes':
            return [dv(x) for x in val]
        if v == 'surfedges':
            return [self.edge(e) for e in val]
        if v == 'primitives':
            return [self.prim(p) for p in val]
        if v in ('orig_faces', 'faces', 'hdr_faces'):
            return [self.face(f) for f in val]
        if v == 'brushes':
            return [self.brush(b) for b in val]
        if v == 'visleafs':
            return [self.leaf(l) for l in val]
        if v == 'nodes':
            return [self.node(nd, val) for nd in val]
        if v == 'water_leaf_info':
            return [('water', f32bits_or_raw(x.surface_z), f32bits_or_raw(x.min_z), self.texinfo(x.surface_texinfo)) for x in val]
        if v == 'visibility':
            return None if val is None else ('vis', [bytes(r) for r in val.potentially_visible], [bytes(r) for r in val.potentially_audible])
        if v == 'bmodels':
            if val is None:
                return None
            vmf = src.ents
            nodes = src.nodes
            order = [vmf.spawn] + list(vmf.entities)
            return [(i, self.bmodel(val[e], nodes)) for i, e in enumerate(order) if e in val]
        if v == 'cubemaps':
            return [('cube', tuple(int(c) for c in c_.origin), c_.size) for c_ in val]
        if v == 'overlays':
            return [self.overlay(o) for o in val]
        if v == 'props':
            return [self.prop(p) for p in val]
        if v == 'detail_props':
            return [self.detail(d) for d in val]
        raise KeyError(v)


def first_diff(a, b, path=''):
    """Path and values of the first difference between two nested dumps (None if equal)."""
    if type(a) != type(b) and not (isinstance(a, (list, tuple)) and isinstance(b, (list, tuple))):
        return (path, a, b)
    if isinstance(a, (list, tuple)):
        for i, (x, y) in enumerate(zip(a, b)):
            d = first_diff(x, y, f'{path}[{i}]')
            if d:
                return d
        if len(a) != len(b):
            return (path + '.len', len(a), len(b))
        return None
    return None if a == b else (path, a, b)


def compare_view(v, expected, actual):
    """None if the re-read view equals the assigned one (prefix for lists other writers append to)."""
    if v in GROWING and isinstance(expected, list) and isinstance(actual, list) and len(actual) > len(expected):
        actual = actual[:len(expected)]
    return first_diff(expected, actual, v)
