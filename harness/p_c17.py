"""C17 — instance collapse transforms contents exactly and leaves the template intact."""
import itertools, json, random, signal, hashlib
from fractions import Fraction

import common
from common import codes, uncodes
import c17_gen as G

PID = 'C17'
GENS = []
DRIVERS = ['drv_c17']
PROPS = 'Srctools.Props.C17'
RULE = ("histories: each case is a sub-seed from which 1-2 instance templates are built through the public vmf API "
        "(0-3 world brushes from make_prism with random/skewed plane points and random UV axes, 30% of the brushes with 1-2 "
        "displacement faces of power 1-3 with random normals/distances/offsets/offset normals/alphas/tags/multiblend data, "
        "visgroups with members in 45% of the templates, 0-5 entities of 15 classes incl. info_node / info_node_link "
        "covering every FGD value type collapse_one dispatches on, outputs, nested func_instance entities with $fixup "
        "tables, hidden items, $variables in names/texts/outputs) and a sequence of 2-5 collapses (origins {zero, fixed, "
        "grid, random}, angles {identity, axis-aligned, multiples of 15, random}, the 3 fixup styles, 9 fixup tables, 8 "
        "instance names, half of the Instances built with decoy constructor arguments and the real name/style/pos/orient/fixup assigned afterwards, visgroup mode False/True/given group 70/20/10%) interleaved over the cached templates into shared or fresh target maps, parameters repeated at a "
        "different placement with probability 0.5; the model is evaluated on the template as extracted before every step "
        "and compared after every step. Plus: exhaustive substitute() texts of length <= L over a 9-symbol alphabet x 9 "
        "tables x 2 defaults; all fixup_name cases over styles x instance names x name pool; nested two-level placements; "
        "classnames and keys spelt in other cases (Func_Instance, ORIGIN ...: the code compares them casefolded); "
        "collapse_all on random inclusion graphs (1-4 files, branching <= 2(3), self/mutual recursion, missing files, "
        "func_instance / file / origin / angles spelt in mixed case, run under a call counter (bound of C17_term + 5) and an alarm, "
        "unnamed top-level instances (empty or absent targetname) in all styles over files with a named target and a relay with outputs - every collapse_one call recorded, "
        "recursion limit 0-5; retry after FileNotFoundError / RecursionError must equal a clean run); I/O proxy cases (1-3 entities, a proxy "
        "named in any case, OnProxyRelay / ProxyRelay outputs in any case, outer outputs instance:name;Input and func_instance outputs "
        "instance:name;Output in any case, fire counts -1/1/3, delays); func_instance_parms values (15 fixed + random token "
        "sequences); 4 non-ASCII fixup tables x texts over a 22-symbol alphabet (Kelvin sign, long s, sigma forms, dotted/dotless i) "
        "with the per-character fold table sent to the driver. A case is non-trivial when something is placed with a non-identity placement or a name/"
        "variable is rewritten; distinct by content digest.")
TRUSTED = ["the FGD value type of every key is looked up in the implementation's own engine database by the harness "
           "(Classifier mirrors the type dispatch of collapse_one/fixup_key) and sent to the model as a tag",
           "numeric strings are parsed by the implementation's Vec.from_str/Angle.from_str and orientations are compared as "
           "Matrix.from_angle(...) entries: Angle<->Matrix conversion is C04's subject and trusted here",
           "floats are sent to the model as exact rationals; the model computes exactly; comparison tolerance "
           f"{G.TOL_MEM} (relative, in-memory geometry), {G.TOL_TXT} (values that went through 6-decimal text), "
           f"{G.TOL_GIMBAL} for orientations within 0.0011 of vertical"]
NOT_MODELLED = [G.SPECIAL_KEYS_NOTE, 'visgroup ids / nav-node ids (id allocation in the target map): checked by the direct search only',
                'id allocation in the target map', 'numbered proxy outputs OnProxyRelayN and the parmN key spelling of the engine FGD (the code only knows OnProxyRelay / ProxyRelay / keys starting with param: observation)',
                'characters whose case folding is not character-wise (ß, İ ...)']
ASSUMPTIONS = ['case-insensitive comparison is modelled character-wise by a fold table lw (a key character a matches a text character b iff a == lw(b); matched names fold by map lw); the harness extracts lw from str.casefold and CHECKS on Python re/str for the characters of every request that this is how they behave - requests containing characters that do not (ß, İ, ı ...: multi-character folds, re special cases) are counted and left to the spec oracle only',
               'R is the float matrix the implementation built from the angles; its deviation from orthogonality (<1e-12) is checked, not assumed']

_IMPL = None


def _wit(ctx, key, what, inp):
    """ctx.witness keeps the first 50 records: keep at most 3 per key so that a flood of one (possibly known) kind
    cannot crowd out another kind."""
    ctx.count('witness ' + key)
    if ctx.hist['witness ' + key] <= 3:
        ctx.witness(key, what, inp)


def impl():
    global _IMPL
    if _IMPL is None:
        from srctools.vmf import VMF, Entity, Output, FixupValue, UVAxis, EntityFixup, Side, Vec4, TriangleTag, DispFlag, VisGroup
        from srctools.math import Vec, Matrix, Angle, format_float
        from srctools.fgd import EntityDef, EntityTypes, ValueTypes
        from srctools import instancing
        from srctools.filesys import VirtualFileSystem
        import srctools
        G.quiet()
        _IMPL = dict(VisGroup=VisGroup, Side=Side, Vec4=Vec4, TriangleTag=TriangleTag, DispFlag=DispFlag, VMF=VMF, Entity=Entity, Output=Output, FixupValue=FixupValue, UVAxis=UVAxis, EntityFixup=EntityFixup,
                     Vec=Vec, Matrix=Matrix, Angle=Angle, format_float=format_float, EntityDef=EntityDef,
                     EntityTypes=EntityTypes, ValueTypes=ValueTypes, I=instancing, VirtualFileSystem=VirtualFileSystem,
                     conv_float=srctools.conv_float)
        _IMPL['clf'] = G.Classifier(_IMPL)
    return _IMPL


# ------------------------------------------------------------------------------------------- histories

def make_inst(im, params, origin, angles, late=None, filename='tmpl.vmf', outputs=()):
    """The Instance for one collapse. With `late` (a sub-seed) some of its public attributes (name, fixup_type, pos,
    orient, fixup, outputs) are passed to the constructor as DECOY values and set to the real ones afterwards, the way
    collapse_all itself does with `inst.name = 'InstanceAutoN'`: a collapse must follow the CURRENT attribute values."""
    I, Vec, Matrix, Angle, FixupValue, EntityFixup = im['I'], im['Vec'], im['Matrix'], im['Angle'], im['FixupValue'], im['EntityFixup']
    real = {'name': params['name'], 'pos': Vec(*origin), 'orient': Matrix.from_angle(Angle(*angles)),
            'fixup_type': I.FixupStyle(params['style']),
            'fixup': [FixupValue(k, v, i + 1) for i, (k, v) in enumerate(params['fixup'])], 'outputs': list(outputs)}
    if late is None:
        return I.Instance(real['name'], filename, real['pos'], real['orient'], real['fixup_type'], real['outputs'], real['fixup'])
    lr = random.Random(late)
    decoy = {'name': 'CTOR', 'pos': Vec(7, -7, 7), 'orient': Matrix.from_angle(Angle(30, 60, 90)),
             'fixup_type': I.FixupStyle((params['style'] + 1) % 3),
             'fixup': [FixupValue('nm', 'CTORVAL', 1), FixupValue('zz', 'CTOR2', 2)], 'outputs': []}
    which = {k for k in real if lr.random() < 0.5} or {'name'}
    a = {k: (decoy[k] if k in which else real[k]) for k in real}
    inst = I.Instance(a['name'], filename, a['pos'], a['orient'], a['fixup_type'], a['outputs'], a['fixup'])
    for k in sorted(which):
        if k == 'fixup':
            if lr.random() < 0.5:
                inst.fixup = EntityFixup(real['fixup'])
            else:
                inst.fixup.clear()
                for fv in real['fixup']:
                    inst.fixup[fv.var] = fv.value
        elif k == 'outputs':
            inst.outputs = real['outputs']
        else:
            setattr(inst, k, real[k])
    return inst


def inst_model(im, inst, params):
    return {'name': codes(inst.name), 'style': params['style'],
            'fixup': [[codes(k), codes(fv.value)] for k, fv in inst.fixup._fixup.items()],
            'R': G.m3(inst.orient), 'o': G.v3(inst.pos)}


def plan_history(rng):
    """The random choices of one history (everything except the templates)."""
    n_t = rng.choice([1, 1, 2])
    steps = []
    prev = None
    for _ in range(rng.randrange(2, 6)):
        t = rng.randrange(n_t)
        if prev is not None and rng.random() < 0.5:
            t, params = prev
        else:
            params = G.gen_inst_params(rng)
        (ang, ak), (org, ok) = G.rand_angle(rng), G.rand_origin(rng)
        if prev is not None and rng.random() < 0.15:
            ang, org, ak, ok = steps[-1]['angles'], steps[-1]['origin'], steps[-1]['ak'], steps[-1]['ok']
        steps.append({'t': t, 'params': params, 'angles': ang, 'origin': org, 'ak': ak, 'ok': ok,
                      'fresh': rng.random() < 0.5,
                      'vis': rng.choice(['strip'] * 7 + ['keep', 'keep', 'group']),
                      'late': rng.getrandbits(30) if rng.random() < 0.5 else None})
        prev = (t, params)
    return n_t, steps


class Step:
    pass


def run_history(seed, numeric_vars=False, with_model=True):
    """Build the history of sub-seed `seed` on the implementation. Returns list of Step with everything the
    correspondence and the search need. Never raises for implementation errors: they are recorded in step.error."""
    im = impl()
    I, VMF = im['I'], im['VMF']
    clf = im['clf']
    rng = random.Random(seed)
    prng = random.Random(seed ^ 0x5EED)
    n_t, plan = plan_history(rng)
    templates = [G.gen_template(rng, im, numeric_vars=numeric_vars) for _ in range(n_t)]
    files = [I.InstanceFile(t) for t in templates]
    shared = VMF()
    out = []
    for sp in plan:
        st = Step()
        st.plan = sp
        params = dict(sp['params'])
        if numeric_vars:
            params['fixup'] = list(params['fixup']) + [('ox', '32'), ('oy', '-7.5'), ('oz', '1e2')]
        st.params = params
        tmpl = templates[sp['t']]
        inst = make_inst(im, params, sp['origin'], sp['angles'], late=sp.get('late'))
        st.inst = inst
        st.R = G.mat_entries(inst.orient)
        st.o = tuple(inst.pos)
        target = VMF() if sp['fresh'] else shared
        nb0, ne0 = len(target.brushes), len(target.entities)
        st.before = [t.export(inc_version=False) for t in templates]
        st.vis = sp.get('vis', 'strip')
        keep_hidden = st.vis != 'strip'
        st.group = target.create_visgroup('collapsed here') if st.vis == 'group' else None
        visgroup = {'strip': False, 'keep': True, 'group': st.group}[st.vis]
        st.old_vis_tree = G.vis_tree_flat(tmpl.vis_tree)
        st.tmpl_roots = list(tmpl.vis_tree)
        vis0 = {g[0] for g in G.vis_tree_flat(target.vis_tree)}
        st.old_brushes = G.visible_brushes(tmpl)
        st.old_ents = G.visible_ents(tmpl, keep_hidden)
        st.old_vis = [(set(x.visgroup_ids), x.hidden, x.vis_shown) for x in
                      st.old_brushes + st.old_ents + [b for e in st.old_ents for b in e.solids]]
        st.old_sides = [[G._side_floats(s) for s in b.sides] for b in st.old_brushes]
        st.old_ent_sides = [[[G._side_floats(s) for s in b.sides] for b in e.solids] for e in st.old_ents]
        st.old_keys = [list(e.items()) for e in st.old_ents]
        st.old_outs = [[o.target for o in e.outputs] for e in st.old_ents]
        st.old_fix = [[v for _, v in e.fixup.items()] for e in st.old_ents]
        st.poisoned = any(k.casefold() == 'axis' and ',' not in v for e in st.old_ents for k, v in e.items())
        st.old_face_ids = [s.id for b in st.old_brushes for s in b.sides] + [s.id for e in st.old_ents for b in e.solids for s in b.sides]
        st.error = None
        st.model_req = None
        try:
            if with_model:
                subst = lambda v, _f=inst.fixup: _f.substitute(v, '')
                st.model_req = {'op': 'collapse', 'inst': inst_model(im, inst, params),
                                'tmpl': G.template_model(im, clf, tmpl, subst, keep_hidden)}
        except Exception as e:  # un-parsable numeric after substitution etc.: model not applicable
            st.model_req = None
            st.model_skip = f'{type(e).__name__}: {e}'
        try:
            I.collapse_one(target, inst, files[sp['t']], visgroup=visgroup)
        except Exception as e:
            st.error = f'{type(e).__name__}: {e}'
        st.after = [t.export(inc_version=False) for t in templates]
        st.new_brushes = target.brushes[nb0:]
        st.new_ents = target.entities[ne0:]
        st.target_nodeids = [e['nodeid'] for e in target.entities if 'nodeid' in e]
        st.vis_map = dict(inst.visgroup_ids)
        st.new_vis_tree = [g for g in G.vis_tree_flat(target.vis_tree) if g[0] not in vis0]
        st.new_vis = [(set(x.visgroup_ids), x.hidden, x.vis_shown) for x in
                      list(st.new_brushes) + list(st.new_ents) + [b for e in st.new_ents for b in e.solids]]
        st.group_children = [c.id for c in st.group.child_groups] if st.group is not None else None
        st.group_id = st.group.id if st.group is not None else None
        st.face_ids = dict(inst.face_ids)
        st.view = None
        if st.error is None and len(st.new_ents) == len(st.old_ents):
            try:
                st.view = G.result_view(im, clf, st.old_ents, st.new_ents, st.new_brushes)
            except Exception as e:
                st.error = f'result unreadable: {type(e).__name__}: {e}'
        # the statement is evaluated NOW (later collapses must not be able to influence the verdict)
        st.found = check_step(st, prng)
        st.nongeo = _nongeo(st) if st.error is None and len(st.new_ents) == len(st.old_ents) else None
        st.unplaced = _unplaced(st)
        st.geo = _geo(st)
        out.append(st)
    # results of earlier collapses are not rewritten by later ones
    for i, st in enumerate(out):
        now = _geo(st)
        if now != st.geo:
            diff = next((f'{a} -> {b}' for a, b in zip(st.geo, now) if a != b), f'{len(st.geo)} -> {len(now)} faces')
            st.found.append(('result-aliased', f'the brush faces added by this collapse were changed by a LATER collapse of the same template: {diff[:600]}'))
    for i, st in enumerate(out):
        if st.nongeo is not None and _nongeo(st) != st.nongeo:
            now = _nongeo(st)
            only_fix = all(a[0] == b[0] and a[1] == b[1] and a[3] == b[3] for a, b in zip(st.nongeo, now))
            diff = next(((a, b) for a, b in zip(st.nongeo, now) if a != b))
            st.found.append(('template-fixup-shared' if only_fix else 'result-aliased',
                             f'the entities added by this collapse were changed by a LATER collapse of the same template: '
                             f'{diff[0][2] if only_fix else diff[0]} -> {diff[1][2] if only_fix else diff[1]}'))
    return out


def _digest(st):
    h = hashlib.blake2b(digest_size=8)
    h.update(st.before[st.plan['t']].encode())
    h.update(json.dumps([st.params, st.plan['angles'], st.plan['origin']], sort_keys=True).encode())
    return h.hexdigest()


def _nontrivial(st):
    moved = st.plan['ak'] != 'identity' or st.plan['ok'] != 'zero'
    return bool(st.old_brushes or st.old_ents) and (moved or st.params['style'] != 2)


# ------------------------------------------------------------------------------------------- the property on the implementation

def _tol_geo(x):
    return 1e-6 * max(1.0, abs(x))


def _near(a, b, tol=None):
    return abs(a - b) <= (tol if tol is not None else _tol_geo(b))


def check_step(st, prng):
    """The statement of C17 for one collapse, evaluated on the implementation only. Returns [(key, what)]."""
    im = impl()
    clf = im['clf']
    Vec, Angle, Matrix = im['Vec'], im['Angle'], im['Matrix']
    bad = []
    ctx_count = st.disp_faces = [0]
    R, o = st.R, st.o
    style, iname = st.params['style'], st.inst.name
    # (T) template intact
    for n, (b, a) in enumerate(zip(st.before, st.after)):
        kind, d = G.template_diff_kind(b, a)
        if kind == 'fixup-only':
            bad.append(('template-fixup-shared', f'collapse rewrote the $fixup values of a func_instance inside the TEMPLATE: {d}'))
        elif kind == 'other':
            bad.append(('template-modified', f'collapse modified template {n}: {d}'))
    if st.error is not None:
        # error path: a malformed value (VEC_AXIS without a comma) makes collapse_one raise half-way. The template must
        # still be intact (checked above) and later collapses into the same map must be right (they are checked as usual).
        if not st.poisoned:
            bad.append(('collapse-raised', f'collapse_one raised {st.error}'))
        return bad
    if G.orth_error(R) > 1e-9:
        bad.append(('rotation-not-orthogonal', f'instance matrix deviates from orthogonal by {G.orth_error(R)}'))
    # (C) a copy of every visible brush and entity
    if len(st.new_brushes) != len(st.old_brushes) or len(st.new_ents) != len(st.old_ents):
        bad.append(('copy-count', f'{len(st.old_brushes)} visible brushes / {len(st.old_ents)} visible entities in the template, '
                                  f'{len(st.new_brushes)} / {len(st.new_ents)} added'))
        return bad

    def sides_ok(olds, news, where):
        if len(olds) != len(news):
            bad.append(('copy-count', f'{where}: {len(olds)} sides -> {len(news)}'))
            return
        for k, (so, sn_) in enumerate(zip(olds, news)):
            sn = G._side_floats(sn_)
            for i in range(3):
                want = G.py_place(R, o, so['p'][i])
                if not all(_near(sn['p'][i][j], want[j]) for j in range(3)):
                    bad.append(('placement', f'{where}.side[{k}] plane point {so["p"][i]} placed at {sn["p"][i]}, expected rotate-then-offset {want}'))
                    return
            # (D) displacement data: start position placed, per-vertex vectors rotated (no offset), the rest untouched
            do, dn = so.get('d'), sn.get('d')
            if (do is None) != (dn is None):
                bad.append(('displacement', f'{where}.side[{k}] displacement {"lost" if dn is None else "appeared"} in the copy'))
                return
            if do is not None:
                ctx_count[0] += 1
                want = G.py_place(R, o, do['pos'])
                if not all(_near(dn['pos'][j], want[j]) for j in range(3)):
                    bad.append(('displacement', f'{where}.side[{k}] displacement start position {do["pos"]} placed at {dn["pos"]}, expected {want}'))
                    return
                if dn['rest'] != do['rest'] or len(dn['verts']) != len(do['verts']):
                    bad.append(('displacement', f'{where}.side[{k}] displacement power/flags/elevation/tags/multiblend changed by the placement'))
                    return
                for vi, (vo, vn) in enumerate(zip(do['verts'], dn['verts'])):
                    for f, nm in ((0, 'normal'), (1, 'offset'), (2, 'offset_norm')):
                        w = G.py_rot(R, vo[f])
                        if not all(_near(vn[f][j], w[j], 1e-6 * max(1.0, abs(w[j]))) for j in range(3)):
                            bad.append(('displacement', f'{where}.side[{k}] displacement vertex {vi} {nm} {vo[f]} became {vn[f]}, expected the original rotated = {w}'))
                            return
                    if vn[3] != vo[3] or vn[4] != vo[4]:
                        bad.append(('displacement', f'{where}.side[{k}] displacement vertex {vi} distance/alpha {vo[3:]} -> {vn[3:]}'))
                        return
            # (U) texture moves with the geometry
            pts = list(so['p'])
            a, b = prng.uniform(-2, 2), prng.uniform(-2, 2)
            pts.append(tuple(so['p'][0][j] + a * (so['p'][1][j] - so['p'][0][j]) + b * (so['p'][2][j] - so['p'][0][j]) for j in range(3)))
            for ax in 'uv':
                if so[ax][4] == 0:
                    continue
                if not _near(sn[ax][4], so[ax][4], 1e-12):
                    bad.append(('texture', f'{where}.side[{k}] {ax}axis scale {so[ax][4]} -> {sn[ax][4]}'))
                for q in pts:
                    t_old = G.py_tex(so[ax], q)
                    t_new = G.py_tex(sn[ax], G.py_place(R, o, q))
                    if not _near(t_new, t_old, 1e-5 * max(1.0, abs(t_old), abs(so[ax][3]), abs(sn[ax][3]))):
                        bad.append(('texture', f'{where}.side[{k}] {ax}-coordinate of point {q} was {t_old}, is {t_new} after placement'))
                        return

    for n, (bo, bn) in enumerate(zip(st.old_sides, st.new_brushes)):
        sides_ok(bo, list(bn.sides), f'brush[{n}]')
    table = st.params['fixup']
    for n, (old, new) in enumerate(zip(st.old_ents, st.new_ents)):
        w = f'ent[{n}]({G.FoldDict(st.old_keys[n]).get("classname")})'
        if len(st.old_ent_sides[n]) != len(new.solids):
            bad.append(('copy-count', f'{w}: {len(st.old_ent_sides[n])} solids -> {len(new.solids)}'))
        else:
            for m, (bo, bn) in enumerate(zip(st.old_ent_sides[n], new.solids)):
                sides_ok(bo, list(bn.sides), f'{w}.solid[{m}]')
        okeys = G.FoldDict(st.old_keys[n])
        if [k for k, _ in st.old_keys[n]] != [k for k, _ in new.items()]:
            bad.append(('keys-changed', f'{w}: keys {[k for k, _ in st.old_keys[n]]} -> {[k for k, _ in new.items()]}'))
            continue
        # effective orientation before placement (pitch / yaw keys override the angles key)
        for k, v_old in st.old_keys[n]:
            v_new = new[k]
            kind = clf.kind(old, k)
            sub = v_old if k.casefold() == 'angles' else G.spec_substitute(table, v_old)
            if sub is None:
                continue    # undefined variable: not specified
            try:
                if kind == 'keep':
                    if v_new != v_old:
                        bad.append(('key-untouched', f'{w}.{k}: {v_old!r} -> {v_new!r} (must be left alone)'))
                elif kind == 'text':
                    if v_new != sub:
                        bad.append(('substitute', f'{w}.{k}: {v_old!r} with {table} -> {v_new!r}, expected {sub!r}'))
                elif kind == 'name':
                    want = G.spec_fixup_name(style, iname, sub)
                    if v_new != want:
                        bad.append(('name', f'{w}.{k}: {v_old!r} (style {G.STYLE_NAMES[style]}, instance {iname!r}, {table}) -> {v_new!r}, expected {want!r}'))
                elif kind == 'nameOrClass':
                    want = sub if sub.casefold() in clf.classes else G.spec_fixup_name(style, iname, sub)
                    if v_new != want:
                        bad.append(('name', f'{w}.{k}: {v_old!r} -> {v_new!r}, expected {want!r}'))
                elif kind == 'pos':
                    want = G.py_place(R, o, tuple(Vec.from_str(sub)))
                    got = tuple(Vec.from_str(v_new))
                    if not all(_near(got[j], want[j], 2e-6 * max(1.0, abs(want[j]))) for j in range(3)):
                        bad.append(('placement', f'{w}.{k}: {v_old!r} -> {v_new!r}, expected rotate-then-offset {want}'))
                elif kind == 'dir':
                    want = G.py_rot(R, tuple(Vec.from_str(sub)))
                    got = tuple(Vec.from_str(v_new))
                    if not all(_near(got[j], want[j], 2e-6 * max(1.0, abs(want[j]))) for j in range(3)):
                        bad.append(('placement', f'{w}.{k}: direction {v_old!r} -> {v_new!r}, expected rotated {want}'))
                elif kind == 'axis':
                    pa, pb = sub.split(',')
                    na, nb_ = v_new.split(',')
                    for po, pn in ((pa, na), (pb, nb_)):
                        want = G.py_place(R, o, tuple(Vec.from_str(po)))
                        got = tuple(Vec.from_str(pn))
                        if not all(_near(got[j], want[j], 2e-6 * max(1.0, abs(want[j]))) for j in range(3)):
                            bad.append(('placement', f'{w}.{k}: axis point {po!r} -> {pn!r}, expected {want}'))
                elif kind == 'orient' or (kind == 'special' and k.casefold() == 'angles'):
                    a_old = Angle.from_str(sub)
                    if kind == 'special':
                        if 'pitch' in okeys:
                            p = im['conv_float'](okeys['pitch'])
                            t = clf.ent_type(okeys['classname'])
                            try:
                                if t.kv['pitch'].type is im['ValueTypes'].ANGLE_NEG_PITCH:
                                    p = -p
                            except KeyError:
                                pass
                            a_old.pitch = p
                        if 'yaw' in okeys:
                            a_old.yaw = im['conv_float'](okeys['yaw'])
                    m_old = G.mat_entries(Matrix.from_angle(a_old))
                    want = [sum(m_old[3 * i + t_] * R[3 * t_ + j] for t_ in range(3)) for i in range(3) for j in range(3)]
                    got = G.mat_entries(Matrix.from_angle(Angle.from_str(v_new)))
                    tol = G.TOL_GIMBAL if G.gimbal(want) else G.TOL_TXT
                    if not all(_near(got[j], want[j], tol) for j in range(9)):
                        bad.append(('orientation', f'{w}.{k}: {v_old!r} -> {v_new!r}: matrix {got} is not (old orientation) @ (instance rotation) = {want}'))
                    if kind == 'special':
                        a_new = Angle.from_str(v_new)
                        if 'pitch' in okeys and clf.kind(old, 'pitch') == 'special':
                            t = clf.ent_type(okeys['classname'])
                            sign = -1.0 if t.kv['pitch'].type is im['ValueTypes'].ANGLE_NEG_PITCH else 1.0
                            got_p = float(new['pitch'])
                            if min(abs(got_p - sign * a_new.pitch) % 360, (-abs(got_p - sign * a_new.pitch)) % 360) > 1e-4:
                                bad.append(('orientation', f'{w}.pitch: {new["pitch"]!r} is not {sign:+.0f} x pitch of the new angles {v_new!r}'))
                        if 'yaw' in okeys:
                            if min((float(new['yaw']) - a_new.yaw) % 360, (a_new.yaw - float(new['yaw'])) % 360) > 1e-4:
                                bad.append(('orientation', f'{w}.yaw: {new["yaw"]!r} is not the yaw of the new angles {v_new!r}'))
                elif kind == 'special:SIDE_LIST':
                    want = []
                    for s in sub.split():
                        try:
                            want.append(str(st.face_ids[int(s)]))
                        except (KeyError, ValueError):
                            pass
                    if sorted(v_new.split()) != sorted(want):
                        bad.append(('side-list', f'{w}.{k}: {v_old!r} -> {v_new!r}, expected the new ids {sorted(want)} of those faces'))
            except (ValueError, TypeError, IndexError) as e:
                # un-parsable value: nothing to check
                continue
        # outputs
        for j, (t_old, out) in enumerate(zip(st.old_outs[n], new.outputs)):
            sub = G.spec_substitute(table, t_old)
            if sub is None:
                continue
            want = G.spec_fixup_name(style, iname, sub)
            if out.target != want:
                bad.append(('name', f'{w}.output[{j}] target {t_old!r} (style {G.STYLE_NAMES[style]}, instance {iname!r}, {table}) -> {out.target!r}, expected {want!r}'))
        if len(st.old_outs[n]) != len(new.outputs):
            bad.append(('copy-count', f'{w}: {len(st.old_outs[n])} outputs -> {len(new.outputs)}'))
        # nested instance fixups: renamed like entity names unless they look like a number / global name
        want = [G.spec_fixup_name(style, iname, v) if (v and v[0] not in '@!-.0123456789') else v for v in st.old_fix[n]]
        got = [v for _, v in new.fixup.items()]
        if got != want:
            bad.append(('nested-fixup', f'{w}: $fixup values {st.old_fix[n]} -> {got}, expected {want}'))
    # (V) visgroups: stripped (visgroup=False), kept (True: the template's groups are copied into the map), or
    # everything put below a given group
    if st.vis == 'strip':
        if any(v != (set(), False, True) for v in st.new_vis):
            bad.append(('visgroups', f'visgroup=False: copied items still carry visgroup membership / hidden flags: {[v for v in st.new_vis if v != (set(), False, True)][:3]}'))
        if st.new_vis_tree:
            bad.append(('visgroups', f'visgroup=False: visgroups {st.new_vis_tree} were added to the map'))
    else:
        m = st.vis_map
        old_ids = [g[0] for g in st.old_vis_tree]
        new_by_id = {g[0]: g for g in st.new_vis_tree}
        if sorted(m) != sorted(old_ids) or len(set(m.values())) != len(m):
            bad.append(('visgroups', f'visgroup id map {m} is not a one-to-one map of the template groups {old_ids}'))
        else:
            for gid, name, color, kids in st.old_vis_tree:
                ng = new_by_id.get(m[gid])
                if ng is None or ng[1] != name or ng[2] != color or ng[3] != [m[k] for k in kids]:
                    bad.append(('visgroups', f'template visgroup {(gid, name, color, kids)} has no faithful copy in the map (got {ng})'))
            roots = [m[g.id] for g in st.tmpl_roots]
            if st.vis == 'group' and st.group_children != roots:
                bad.append(('visgroups', f'the copies of the template\'s top-level groups {roots} are not the children {st.group_children} of the given group'))
            default = {st.group_id} if st.vis == 'group' else set()
            if len(st.new_vis) == len(st.old_vis):
                for n, ((ov, oh, os_), (nv, nh, ns)) in enumerate(zip(st.old_vis, st.new_vis)):
                    want = {m[g] for g in ov} or default
                    if nv != want or (nh, ns) != (oh, os_):
                        bad.append(('visgroups', f'item {n}: visgroups {sorted(ov)} hidden={oh} shown={os_} -> {sorted(nv)} hidden={nh} shown={ns}, expected {sorted(want)} with the same flags'))
                        break
    # (N) nav-node ids: every copied node has an id of its own in the target map, and a link that referred to a node
    # of the template refers to the copy of that node
    node_new = {}
    for old_kv, new in zip(st.old_keys, st.new_ents):
        okeys = G.FoldDict(old_kv)
        for k, v in old_kv:
            if clf.kind(okeys, k) == 'special:TARG_NODE_SOURCE':
                try:
                    node_new[int(v)] = new[k]
                except ValueError:
                    pass
    ints = [v for v in st.target_nodeids if v.lstrip('-').isdigit()]
    if len(set(ints)) != len(ints):
        bad.append(('node-ids', f'node ids in the target map are not unique after the collapse: {sorted(ints)}'))
    for n, (old_kv, new) in enumerate(zip(st.old_keys, st.new_ents)):
        okeys = G.FoldDict(old_kv)
        for k, v in old_kv:
            if clf.kind(okeys, k) != 'special:TARG_NODE_DEST':
                continue
            try:
                ref = int(v)
            except ValueError:
                if new[k] != v:
                    bad.append(('node-ids', f'ent[{n}].{k}: non-numeric node reference {v!r} -> {new[k]!r}'))
                continue
            if ref in node_new and new[k] != node_new[ref]:
                bad.append(('node-ids', f'ent[{n}]({okeys.get("classname")}).{k} referred to the template node with nodeid {ref}; '
                                        f'the copy of that node has nodeid {node_new[ref]} but the copied link says {new[k]!r}'))
    # face id map covers every visible face
    missing = [f for f in st.old_face_ids if f not in st.face_ids]
    if missing:
        bad.append(('face-ids', f'faces {missing[:5]} of the template have no entry in Instance.face_ids'))
    return bad


def _nongeo(st):
    """Everything of a result that must not depend on the placement."""
    clf = impl()['clf']
    out = []
    for old, new in zip(st.old_ents, st.new_ents):
        keys = [(k, v) for k, v in new.items() if clf.kind(old, k) in ('name', 'text', 'keep', 'nameOrClass')]
        out.append((keys, [(o.output, o.target, o.input, o.params, o.delay, o.times) for o in new.outputs],
                    [(k, v) for k, v in new.fixup.items()], len(new.solids)))
    return out


def _unplaced(st):
    """All positions of a result mapped back through its placement, all displacement vectors rotated back."""
    pts = []
    zero = (0.0, 0.0, 0.0)
    for b in list(st.new_brushes) + [b for e in st.new_ents for b in e.solids]:
        for s in b.sides:
            for p in s.planes:
                pts.append(G.py_unplace(st.R, st.o, tuple(p)))
            if s.is_disp:
                pts.append(G.py_unplace(st.R, st.o, tuple(s.disp_pos)))
                for v in s._disp_verts:
                    for d in (v.normal, v.offset, v.offset_norm):
                        pts.append(G.py_unplace(st.R, zero, tuple(d)))
    return pts


def _geo(st):
    """Exact snapshot of every face a collapse added (plane points, axes, displacement data)."""
    return [G._side_floats(s) for b in list(st.new_brushes) + [b for e in st.new_ents for b in e.solids] for s in b.sides]


def check_pairs(steps):
    """Results of collapsing the same template with the same instance parameters differ only by the placement."""
    bad = []
    first = {}
    for i, st in enumerate(steps):
        if st.error is not None or st.nongeo is None:
            continue
        key = (st.plan['t'], json.dumps(st.params, sort_keys=True), st.vis != 'strip')
        if key not in first:
            first[key] = (i, st.nongeo, st.unplaced, st)
            continue
        j, ng0, up0, st0 = first[key]
        ng1 = st.nongeo
        if ng1 != ng0:
            only_fix = all(a[0] == b[0] and a[1] == b[1] and a[3] == b[3] for a, b in zip(ng0, ng1)) and len(ng0) == len(ng1)
            diff = next(((a, b) for a, b in zip(ng0, ng1) if a != b), (len(ng0), len(ng1)))
            k = 'template-fixup-shared' if only_fix else 'repeat-differs'
            bad.append((k, f'collapse #{i} of the same template with the same instance parameters as collapse #{j} differs in more than placement: {diff[0][2] if only_fix else diff[0]} vs {diff[1][2] if only_fix else diff[1]}'))
        up1 = st.unplaced
        if len(up0) != len(up1) or any(abs(a[t] - b[t]) > 1e-5 * max(1.0, abs(a[t])) for a, b in zip(up0, up1) for t in range(3)):
            bad.append(('repeat-differs', f'collapse #{i} and #{j} of the same template are not the same geometry up to their placements'))
        if st.plan['angles'] == st0.plan['angles'] and st.plan['origin'] == st0.plan['origin'] and st.plan['fresh'] and st0.plan['fresh']:
            # same placement into fresh maps: identical down to the text
            pass
    return bad


def search_history(ctx, seed, numeric_vars=False, steps=None):
    steps = steps if steps is not None else run_history(seed, numeric_vars=numeric_vars, with_model=False)
    found = []
    for i, st in enumerate(steps):
        for key, what in st.found:
            found.append((key, f'[history {seed} step {i}] {what}'))
    found += [(k, f'[history {seed}] {w}') for k, w in check_pairs(steps)]
    return found


# ------------------------------------------------------------------------------------------- small correspondences

SUB_ALPHA = ['$', 'a', 'B', 'b', '1', '_', '!', ' ', 'é']
SUB_TABLES = [[], [('a', 'X')], [('a', 'X'), ('ab', 'Y')], [('ab', 'Y'), ('a', 'X')], [('Ab', 'Y'), ('b1', 'Z'), ('a', '')],
              [('b', '$a'), ('a', 'b')], [('_', 'U'), ('a_b', 'V')], [('a.b', 'D'), ('a', 'X')], [('ba', '1'), ('ab', '2'), ('b', '3'), ('bab', '4')]]


NONASCII_TABLES = [[('É', 'acc'), ('é2', 'v')], [('ſ', 'long-s'), ('Ö_k', 'ok')], [('K', 'kelvin'), ('σς', 'sig')], [('Größe', 'g'), ('i', 'dot')]]


def impl_subst(im, table, dflt, text):
    fx = im['EntityFixup']([im['FixupValue'](k, v, i + 1) for i, (k, v) in enumerate(table)])
    return fx.substitute(text, dflt), [[codes(k), codes(f.value)] for k, f in fx._fixup.items()]


def corr_substitute(ctx, drv):
    im = impl()
    L = ctx.budget(4, 5)
    reqs, meta = [], []
    texts = [''.join(t) for n in range(L + 1) for t in itertools.product(SUB_ALPHA, repeat=n)]
    rng = ctx.rng
    for _ in range(ctx.budget(1500, 20000)):
        texts.append(''.join(rng.choice(SUB_ALPHA + ['a', 'b', '$', '.', 'A']) for _ in range(rng.randrange(5, 14))))
    for ti, table in enumerate(SUB_TABLES):
        for dflt in ('', 'D!'):
            for text in texts:
                if '$' not in text and len(text) > 2:
                    continue
                try:
                    r, tbl = impl_subst(im, table, dflt, text)
                except Exception as e:
                    r, tbl = f'<{type(e).__name__}>', [[codes(k.casefold()), codes(v)] for k, v in table]
                reqs.append({'op': 'subst', 'tbl': tbl, 'dflt': codes(dflt), 'text': codes(text)})
                meta.append((ti, dflt, text, r))
                ctx.case({'subst': text, 'table': ti, 'dflt': dflt}, nontrivial='$' in text, sample_every=50021)
                # the spec oracle, where it is defined
                want = G.spec_substitute(table, text)
                if want is not None and r != want:
                    _wit(ctx, 'substitute', f'substitute({text!r}) with {table} gives {r!r}, expected {want!r}',
                                {'kind': 'subst', 'table': table, 'dflt': dflt, 'text': text})
    # variable names and texts beyond ASCII: the driver gets the per-character fold table; characters for which Python's
    # re.IGNORECASE / casefold do not act character-wise (ß, İ ...) put the case outside the table model (counted)
    nmeta = []
    alpha = ['$', 'É', 'é', 'ſ', 's', 'S', '\u212a', 'k', 'K', 'ß', 'ö', 'Ö', 'σ', 'ς', 'Σ', '2', '_', ' ', 'İ', 'ı', 'I', 'i']
    ntexts = [''.join(t) for n in range(4) for t in itertools.product(alpha[:12], repeat=n) if '$' in t]
    for _ in range(ctx.budget(3000, 30000)):
        ntexts.append(''.join(rng.choice(alpha + ['$', '$']) for _ in range(rng.randrange(2, 9))))
    for ti, table in enumerate(NONASCII_TABLES):
        for text in ntexts:
            dflt = ''
            try:
                r, tbl = impl_subst(im, table, dflt, text)
            except Exception as e:
                r, tbl = f'<{type(e).__name__}>', [[codes(k.casefold()), codes(v)] for k, v in table]
            keys = [uncodes(k) for k, _ in tbl]
            applies = G.fold_model_applies({c for k in keys for c in k}, set(text))
            ctx.count('non-ASCII substitute cases' if applies else 'non-ASCII substitute cases outside the char-fold table model (ß, İ ...)')
            ctx.case({'subst': text, 'ntable': ti}, nontrivial=True, sample_every=20011)
            if not applies:
                continue
            reqs.append({'op': 'subst', 'tbl': tbl, 'dflt': codes(dflt), 'text': codes(text), 'fold': G.fold_table([text] + keys)})
            meta.append((('n', ti), dflt, text, r))
            want = G.spec_substitute(table, text)
            if want is not None and r != want:
                _wit(ctx, 'substitute', f'substitute({text!r}) with {table} gives {r!r}, expected {want!r}',
                     {'kind': 'subst', 'table': table, 'dflt': dflt, 'text': text})
    ctx.count('substitute cases', len(reqs))
    for (ti, dflt, text, r), m in zip(meta, drv.batch(reqs)):
        ctx.traces_vs_impl += 1
        if 'r' not in m or uncodes(m['r']) != r:
            tb = NONASCII_TABLES[ti[1]] if isinstance(ti, tuple) else SUB_TABLES[ti]
            ctx.disagree({'subst': text, 'table': tb, 'dflt': dflt}, r, m, 'EntityFixup.substitute')


def corr_fixup_name(ctx, drv):
    im = impl()
    I, Vec, Matrix = im['I'], im['Vec'], im['Matrix']
    reqs, meta = [], []
    for style in (0, 1, 2):
        for iname in G.INST_NAMES + ['@', 'x-y-']:
            inst = I.Instance(iname, 'f.vmf', Vec(), Matrix(), I.FixupStyle(style))
            for name in G.NAME_POOL + ['@', '!', ' @x', '-', 'A' * 5, iname + '-door']:
                r = inst.fixup_name(name)
                reqs.append({'op': 'fixup', 'style': style, 'inst': codes(iname), 'name': codes(name)})
                meta.append((style, iname, name, r))
                ctx.case({'fixup': name, 'inst': iname, 'style': style}, nontrivial=style != 2 and bool(name), sample_every=401)
                if r != G.spec_fixup_name(style, iname, name):
                    _wit(ctx, 'name', f'fixup_name({name!r}) of instance {iname!r} style {G.STYLE_NAMES[style]} = {r!r}, expected {G.spec_fixup_name(style, iname, name)!r}',
                                {'kind': 'fixup', 'style': style, 'inst': iname, 'name': name})
    ctx.count('fixup_name cases', len(reqs))
    for (style, iname, name, r), m in zip(meta, drv.batch(reqs)):
        ctx.traces_vs_impl += 1
        if m.get('r') is None or uncodes(m['r']) != r:
            ctx.disagree({'fixup': name, 'inst': iname, 'style': style}, r, m, 'Instance.fixup_name')


def probe_copy_mode(im):
    """Does Entity.copy() share FixupValue objects with the original (id-walk)?"""
    vmf = im['VMF']()
    e = vmf.create_ent('func_instance', file='x.vmf')
    e.fixup['$a'] = 'red'
    c = e.copy()
    ids = {id(f) for f in e.fixup._fixup.values()}
    return 'shared' if any(id(f) in ids for f in c.fixup._fixup.values()) else 'fresh'


def corr_cells(ctx, drv):
    """Repeated collapses of one template entity with $fixups: the aliasing model (in the mode probed on the
    implementation) against the implementation, results and template after every collapse."""
    im = impl()
    I, VMF, Vec, Matrix = im['I'], im['VMF'], im['Vec'], im['Matrix']
    mode = probe_copy_mode(im)
    ctx.extra['entity_copy_fixup_mode'] = mode
    ctx.count('Entity.copy fixup cells: ' + mode)
    rng = ctx.rng
    reqs, meta = [], []
    for _ in range(ctx.budget(60, 600)):
        vals = [rng.choice(G.FIXVALS) for _ in range(rng.randrange(0, 5))]
        style = rng.choice([0, 1, 2])
        iname = rng.choice(G.INST_NAMES)
        times = rng.randrange(1, 5)
        t = VMF()
        e = t.create_ent('func_instance', file='x.vmf', targetname='n')
        for i, v in enumerate(vals):
            e.fixup[f'$v{i}'] = v
        f = I.InstanceFile(t)
        results = []
        for _k in range(times):
            target = VMF()
            inst = I.Instance(iname, 'f.vmf', Vec(), Matrix(), I.FixupStyle(style))
            I.collapse_one(target, inst, f)
            results.append([v for _, v in target.entities[0].fixup.items()])
        tmpl_after = [v for _, v in e.fixup.items()]
        reqs.append({'op': 'cells', 'mode': mode, 'style': style, 'inst': codes(iname), 'vals': [codes(v) for v in vals], 'times': times})
        meta.append((vals, style, iname, times, results, tmpl_after))
        ctx.case({'cells': vals, 'style': style, 'inst': iname, 'times': times}, nontrivial=bool(vals) and style != 2)
    for (vals, style, iname, times, results, tmpl_after), m in zip(meta, drv.batch(reqs)):
        ctx.traces_vs_impl += 1
        got = {'results': [[codes(v) for v in r] for r in results], 'template': [codes(v) for v in tmpl_after]}
        if m != got:
            ctx.disagree({'cells': vals, 'style': style, 'inst': iname, 'times': times, 'mode': mode},
                         {'results': results, 'template': tmpl_after},
                         {'results': [[uncodes(v) for v in r] for r in m.get('results', [])], 'template': [uncodes(v) for v in m.get('template', [])]},
                         'repeated collapse of a func_instance with $fixups')


def run_nested(seed):
    """Two-level inclusion through collapse_all (top -> outer.vmf -> inner.vmf with one brush), from a sub-seed."""
    im = impl()
    I, VMF, Matrix, Angle = im['I'], im['VMF'], im['Matrix'], im['Angle']
    rng = random.Random(seed)
    inner = VMF()
    inner.add_brush(G._rand_brush(rng, im, inner))
    (a1, _), (o1, _) = G.rand_angle(rng), G.rand_origin(rng)
    (a2, _), (o2, _) = G.rand_angle(rng), G.rand_origin(rng)
    o1 = tuple(x / 8 for x in o1)
    outer = VMF()
    outer.create_ent('func_instance', file='inner.vmf', targetname='in', origin=G.fmt_vec(o1), angles=G.fmt_vec(a1))
    top = VMF()
    top.create_ent('func_instance', file='outer.vmf', targetname='out', origin=G.fmt_vec(o2), angles=G.fmt_vec(a2))
    fsys = im['VirtualFileSystem']({'inner.vmf': inner.export(inc_version=False), 'outer.vmf': outer.export(inc_version=False)})
    r = {'seed': seed, 'case': {'nested': [a1, o1, a2, o2]}, 'o1': o1, 'o2': o2,
         'sides0': [G._side_floats(s) for s in inner.brushes[0].sides]}
    try:
        I.collapse_all(top, fsys, recur_limit=3)
        r['err'] = None
    except Exception as e:
        r['err'] = f'{type(e).__name__}: {e}'
    r['n'] = len(top.brushes)
    r['got'] = [G._side_floats(s) for s in top.brushes[0].sides] if top.brushes else []
    r['R1'] = Matrix.from_angle(Angle(*a1)); r['R2'] = Matrix.from_angle(Angle(*a2))
    m1, m2 = G.mat_entries(r['R1']), G.mat_entries(r['R2'])
    comp = [sum(m1[3 * i + t] * m2[3 * t + j] for t in range(3)) for i in range(3) for j in range(3)]
    # the nested func_instance went through text (origin/angles at 6 decimals): coordinates up to ~5000 * 1e-8 rad;
    # if its composed orientation is within 0.0011 of vertical, to_angle drops up to 1e-3 rad of roll
    r['gimbal'] = G.gimbal(comp)
    r['tol'] = 2.5e-3 * (1.0 + max(abs(c) for s_ in r['sides0'] for p in s_['p'] for c in p)) if r['gimbal'] else 2e-3
    return r


def check_nested(r):
    """Statement: the inner brush ends where placing by the inner and then by the outer placement puts it."""
    if r['err'] is not None or r['n'] != 1:
        return [('nested', f'two-level inclusion {r["case"]}: {r["err"] or str(r["n"]) + " brushes"}')]
    m1, m2 = G.mat_entries(r['R1']), G.mat_entries(r['R2'])
    for so, sn in zip(r['sides0'], r['got']):
        for p, q in zip(so['p'], sn['p']):
            want = G.py_place(m2, r['o2'], G.py_place(m1, r['o1'], p))
            if any(abs(q[j] - want[j]) > r['tol'] for j in range(3)):
                return [('nested', f'inner brush point {p} of a two-level inclusion {r["case"]} ends at {q}, expected {want}')]
    return []


def corr_nested(ctx, drv):
    """Two-level inclusion: implementation against the model's `comp` + `place` (C17_compose)."""
    reqs, meta = [], []
    for _ in range(ctx.budget(40, 400)):
        seed = ctx.rng.getrandbits(40)
        r = run_nested(seed)
        ctx.case(r['case'], nontrivial=True)
        ctx.count('nested two-level')
        if r['gimbal']:
            ctx.count('nested near-vertical (loose tolerance)')
        bad = check_nested(r)
        for key, what in bad:
            _wit(ctx, key, what, {'kind': 'nested', 'seed': seed})
        if r['err'] is not None or r['n'] != 1:
            continue
        reqs.append({'op': 'comp', 'R1': G.m3(r['R1']), 'o1': G.v3(r['o1']), 'R2': G.m3(r['R2']), 'o2': G.v3(r['o2'])})
        meta.append(r)
    rep = drv.batch(reqs)
    reqs2 = [{'op': 'place', 'R': P['R'], 'o': P['o'], 'pts': [G.v3(p) for s in r['sides0'] for p in s['p']]}
             for r, P in zip(meta, rep)]
    for r, m in zip(meta, drv.batch(reqs2)):
        ctx.traces_vs_impl += 1
        pts_model = [[G.unrat(c) for c in p] for p in m['pts']]
        pts_impl = [p for s in r['got'] for p in s['p']]
        if len(pts_model) != len(pts_impl) or any(abs(a[j] - float(b[j])) > r['tol'] for a, b in zip(pts_impl, pts_model) for j in range(3)):
            ctx.disagree(r['case'], pts_impl[:3], [[float(c) for c in p] for p in pts_model[:3]], 'nested inclusion vs place (P1 >> P2)')


def corr_from_angle(ctx, drv):
    """Matrix.from_angle against the coded polynomial in the six cos/sin values (exact on the model side)."""
    import math
    im = impl()
    Matrix, Angle = im['Matrix'], im['Angle']
    reqs, meta = [], []
    for _ in range(ctx.budget(300, 3000)):
        ang, kind = G.rand_angle(ctx.rng)
        a = Angle(*ang)
        rp, ry, rr = math.radians(a.pitch), math.radians(a.yaw), math.radians(a.roll)
        t = [math.cos(rp), math.sin(rp), math.cos(ry), math.sin(ry), math.cos(rr), math.sin(rr)]
        reqs.append({'op': 'fromtrig', 't': [G.rat(x) for x in t]})
        meta.append((ang, G.mat_entries(Matrix.from_angle(a))))
        ctx.case({'from_angle': ang}, nontrivial=kind != 'identity', sample_every=1009)
    ctx.count('from_angle cases', len(reqs))
    for (ang, got), m in zip(meta, drv.batch(reqs)):
        ctx.traces_vs_impl += 1
        want = [G.unrat(x) for x in m.get('R', [])]
        if len(want) != 9 or any(abs(got[j] - float(want[j])) > 1e-15 for j in range(9)):
            ctx.disagree({'from_angle': ang}, got, [float(x) for x in want], 'Matrix.from_angle vs fromTrig')


# --- instance inputs / outputs through func_instance_io_proxy

def _orec(o):
    return (o.output, o.target, o.input, o.params, o.delay, o.times, o.inst_out, o.inst_in, o.comma_sep)


def _owire(r):
    return [codes(r[0]), codes(r[1]), codes(r[2]), codes(r[3]), G.rat(r[4]), r[5],
            None if r[6] is None else codes(r[6]), None if r[7] is None else codes(r[7]), bool(r[8])]


def _ounwire(w):
    return (uncodes(w[0]), uncodes(w[1]), uncodes(w[2]), uncodes(w[3]), float(G.unrat(w[4])), w[5],
            None if w[6] is None else uncodes(w[6]), None if w[7] is None else uncodes(w[7]), w[8])


def _combine_times(a, b):
    return a if b < 0 else b if a < 0 else min(a, b)


def run_io(seed):
    """One instance file with an I/O proxy collapsed into a map whose entities talk to the instance. Everything is
    recorded on the output-record level, before and after."""
    im = impl()
    I, VMF, Output, Vec, Matrix, FixupValue = im['I'], im['VMF'], im['Output'], im['Vec'], im['Matrix'], im['FixupValue']
    rng = random.Random(seed)
    cv = lambda x, p=0.3: G.case_variant(rng, x, p)
    names = rng.sample(['relay', 'Relay2', 'door$nm', '@glob', 'btn', 'counter', 'x y', 'tür', 'Straße'], rng.choice([1, 2, 3]))
    proxy_name = rng.choice(['proxy', 'proxy', 'Proxy', 'PROXY_1'])
    t = VMF()
    mk = lambda out, targ, inp: Output(out, targ, inp, rng.choice(['', '', 'par', '$nm']), rng.choice([0.0, 0.5, 0.25, 2.0]),
                                       times=rng.choice([-1, -1, 1, 3]), comma_sep=rng.random() < 0.3)
    for n in names:
        e = t.create_ent(rng.choice(['logic_relay', 'func_button', 'math_counter']), targetname=n, origin='0 0 0')
        for _ in range(rng.randrange(0, 4)):
            if rng.random() < 0.5:
                e.add_out(mk(rng.choice(['OnTrigger', 'OnOpen', 'ontrigger']), cv(proxy_name, 0.25), rng.choice(['ProxyRelay', 'ProxyRelay', 'proxyrelay'])))
            else:
                e.add_out(mk(rng.choice(['OnTrigger', 'OnOpen']), rng.choice(names + ['!self', 'outsider', '$nm']), rng.choice(['Trigger', 'Kill', 'ProxyRelay'])))
    if rng.random() < 0.9:
        p = t.create_ent(cv('func_instance_io_proxy'), targetname=proxy_name, origin='8 8 8')
        for _ in range(rng.randrange(0, 4)):
            p.add_out(mk(rng.choice(['OnProxyRelay', 'OnProxyRelay', 'onproxyrelay', 'OnProxyRelay1', 'OnUser1']),
                         cv(rng.choice(names), 0.25), rng.choice(['Trigger', 'Open', 'trigger'])))
    ents_model = [{'proxy': e['classname'].casefold() == 'func_instance_io_proxy', 'name': codes(e['targetname']),
                   'outs': [_owire(_orec(o)) for o in e.outputs]} for e in t.entities]
    tmpl = [(e['classname'].casefold() == 'func_instance_io_proxy', e['targetname'], [_orec(o) for o in e.outputs]) for e in t.entities]
    params = G.gen_inst_params(rng)
    params['name'] = rng.choice(['inst', 'Inst A', 'I1', '@i'])
    inst_outs = []
    for _ in range(rng.randrange(0, 4)):
        inst_outs.append(Output(rng.choice(['OnTrigger', 'ontrigger', 'OnOpen']), rng.choice(['outer_thing', 'relay', '@glob']), 'FireUser1',
                                rng.choice(['', 'p2']), rng.choice([0.0, 1.0]), times=rng.choice([-1, 1, 2]),
                                inst_out=rng.choice([None] + [cv(n, 0.3) for n in names] + ['nosuch']), comma_sep=rng.random() < 0.3))
    target = VMF()
    for _ in range(rng.choice([1, 2])):
        a = target.create_ent('logic_auto', origin='0 0 0', targetname=rng.choice(['auto', 'relay']))
        for _ in range(rng.randrange(1, 4)):
            a.add_out(Output('OnMapSpawn', rng.choice([params['name'], cv(params['name'], 0.5), 'other', 'relay']),
                             rng.choice(['Trigger', 'trigger', 'Open', 'Kill']), rng.choice(['', 'q']), rng.choice([0.0, 2.0]),
                             times=rng.choice([-1, 1, 5]), inst_in=rng.choice([None] + [cv(n, 0.3) for n in names] + ['nosuch']),
                             comma_sep=rng.random() < 0.3))
    outer_before = [[_orec(o) for o in e.outputs] for e in target.entities]
    f = I.InstanceFile(t)
    before = t.export(inc_version=False)
    inst = make_inst(im, params, (64, 0, 0), (0, 0, 0), late=rng.getrandbits(30) if rng.random() < 0.5 else None,
                     filename='io.vmf', outputs=inst_outs)
    inst_recs = [_orec(o) for o in inst_outs]
    n0 = len(target.entities)
    r = {'seed': seed, 'params': params, 'tmpl': tmpl, 'outer_before': outer_before, 'inst_outs': inst_recs, 'error': None}
    try:
        I.collapse_one(target, inst, f)
    except Exception as e:
        r['error'] = f'{type(e).__name__}: {e}'
    r['template_same'] = before == t.export(inc_version=False)
    r['outer_after'] = [[_orec(o) for o in e.outputs] for e in target.entities[:n0]]
    r['new'] = [(e['targetname'], [_orec(o) for o in e.outputs]) for e in target.entities[n0:]]
    r['req'] = {'op': 'io', 'ents': ents_model, 'outer': [_owire(o) for outs in outer_before for o in outs],
                'inst': {'name': codes(params['name']), 'style': params['style'],
                         'fixup': [[codes(k), codes(fv.value)] for k, fv in inst.fixup._fixup.items()],
                         'outs': [_owire(o) for o in inst_recs]}}
    strs = [t_[1] for t_ in tmpl] + [x for t_ in tmpl for o in t_[2] for x in o[:3]] + [params['name']] + \
           [x for outs in outer_before for o in outs for x in (o[1], o[2], o[7] or '')] + [x for o in inst_recs for x in (o[0], o[6] or '')]
    r['req']['fold'] = G.fold_table(strs)
    # names are compared after str.casefold(); the model folds character-wise
    r['fold_applies'] = all(len(c.casefold()) == 1 for st_ in strs for c in st_)
    return r


def check_io(r):
    """Statement: connections inside the instance follow the renamed entities; connections into the instance
    (instance:name;Input) are re-routed to the renamed real target; connections out of it (instance:name;Output) are
    added to the copy of the entity; nothing else in the map is touched; the template is intact."""
    bad = []
    if not r['template_same']:
        bad.append(('template-modified', 'collapse with I/O proxies modified the template'))
    if r['error'] is not None:
        bad.append(('io-proxy', f'collapse_one raised {r["error"]}'))
        return bad
    P = r['params']
    style, iname, table = P['style'], P['name'], P['fixup']
    proxies = [t for t in r['tmpl'] if t[0]]
    others = [t for t in r['tmpl'] if not t[0]]
    pnames = {t[1].casefold() for t in proxies}
    pin = {}
    for _, _, outs in proxies:
        for o in outs:
            if o[0].casefold() == 'onproxyrelay':
                pin[o[1].casefold(), o[2].casefold()] = o

    def renamed(s):
        sub = G.spec_substitute(table, s)
        return None if sub is None else G.spec_fixup_name(style, iname, sub)

    # into the instance / untouched
    flat_b = [o for outs in r['outer_before'] for o in outs]
    flat_a = [o for outs in r['outer_after'] for o in outs]
    if len(flat_a) != len(flat_b):
        bad.append(('io-proxy', f'outputs of the map\'s own entities: {len(flat_b)} before, {len(flat_a)} after'))
        return bad
    for b, a in zip(flat_b, flat_a):
        p = pin.get((b[7].casefold(), b[2].casefold())) if (b[7] is not None and b[1].casefold() == iname.casefold()) else None
        if p is None:
            if a != b:
                bad.append(('io-proxy', f'an output that is not a connection into this instance was changed: {b} -> {a}'))
            continue
        want_t = renamed(p[1])
        want = (b[0], want_t if want_t is not None else a[1], p[2], p[3] or b[3], b[4] + p[4], _combine_times(b[5], p[5]), b[6], None, b[8] and p[8])
        if a != want:
            bad.append(('io-proxy', f'connection into the instance {b} (proxy relays ({p[1]!r}, {p[2]!r}); instance {iname!r}, style '
                                    f'{G.STYLE_NAMES[style]}, {table}) became {a}, expected {want}: it must reach the renamed entity'))
    # inside / out of the instance
    if len(r['new']) != len(others):
        bad.append(('io-proxy', f'{len(others)} non-proxy entities in the instance, {len(r["new"])} added'))
        return bad
    pout = {}
    for i, (_, name, outs) in enumerate(others):
        for o in outs:
            if o[2].casefold() == 'proxyrelay' and o[1].casefold() in pnames:
                pout[name.casefold(), o[0].casefold()] = (i, o)
    extra = {i: [] for i in range(len(others))}
    for o in r['inst_outs']:
        if o[6] is None:
            continue
        hit = pout.get((o[6].casefold(), o[0].casefold()))
        if hit is not None:
            i, q = hit
            extra[i].append((q[0], o[1], o[2], o[3] or q[3], q[4] + o[4], _combine_times(q[5], o[5]), None, o[7], q[8] and o[8]))
    for i, ((_, name, outs), (new_name, new_outs)) in enumerate(zip(others, r['new'])):
        wn = renamed(name)
        if wn is not None and new_name != wn:
            bad.append(('name', f'I/O entity {name!r} renamed {new_name!r}, expected {wn!r}'))
        kept = [o for o in outs if not (o[2].casefold() == 'proxyrelay' and o[1].casefold() in pnames)]
        want = []
        for o in kept:
            wt = renamed(o[1])
            want.append(o if wt is None else (o[0], wt) + o[2:])
        got = list(new_outs)
        for k, o in enumerate(kept):
            if renamed(o[1]) is None and k < len(got):
                got[k] = (got[k][0], o[1]) + got[k][2:]      # undefined variable in the target: not specified
        if got != want + extra[i]:
            bad.append(('io-proxy', f'entity {name!r} of the instance (proxies {sorted(pnames)}): outputs {outs} became {new_outs}; expected the '
                                    f'connections to the proxy removed, the others kept with renamed targets {want} and the connections '
                                    f'leaving the instance added {extra[i]}'))
    return bad


def corr_io(ctx, drv):
    reqs, meta = [], []
    for _ in range(ctx.budget(400, 4000)):
        seed = ctx.rng.getrandbits(40)
        r = run_io(seed)
        for key, what in check_io(r):
            _wit(ctx, key, f'[io case {seed}] {what}', {'kind': 'io', 'seed': seed})
        nt = any(t[0] for t in r['tmpl']) and any(o[7] is not None or o[6] is not None for outs in r['outer_before'] for o in outs + r['inst_outs'])
        ctx.case({'io': seed}, nontrivial=nt, sample_every=211)
        ctx.count('io-proxy cases')
        if r['error'] is None and r['fold_applies']:
            reqs.append(r['req']); meta.append(r)
        elif r['error'] is None:
            ctx.count('io-proxy cases outside the char-fold table model (ß ...): oracle only')
    for r, m in zip(meta, drv.batch(reqs)):
        ctx.traces_vs_impl += 1
        if 'outer' not in m:
            ctx.disagree({'io': r['seed']}, 'result', m, 'model error')
            continue
        got_outer = [o for outs in r['outer_after'] for o in outs]
        mod_outer = [_ounwire(w) for w in m['outer']]
        mod_ents = [(uncodes(e['name']), [_ounwire(w) for w in e['outs']]) for e in m['ents']]
        if got_outer != mod_outer:
            d = next(((a, b) for a, b in zip(got_outer, mod_outer) if a != b), (len(got_outer), len(mod_outer)))
            ctx.disagree({'io': r['seed']}, d[0], d[1], 'connections into the instance (reroute)')
        elif r['new'] != mod_ents:
            d = next(((a, b) for a, b in zip(r['new'], mod_ents) if a != b), (len(r['new']), len(mod_ents)))
            ctx.disagree({'io': r['seed']}, d[0], d[1], 'entities of the instance: names / outputs')


# --- func_instance_parms

PARM_VALUES = ['$color', '$color color255', '$n integer 5', '$text string hello world', '$Text string  two  spaces', '$x ', '$x  ',
               'plain string def', '$v badtype def', '$v badtype a b', '', '$onlytype float', '$t target_destination @glob door',
               '$é string ünï', '$a string $b c']


def run_param(value, key='param01'):
    im = impl()
    t = im['VMF']()
    t.create_ent('func_instance_parms', origin='0 0 0', **{key: value})
    f = im['I'].InstanceFile(t)
    return {k: (p.name, p.type.value, p.default) for k, p in f.params.items()}, len(t.by_class['func_instance_parms'])


def check_param(value, got, left):
    """Statement: `name type default`: the parameter is registered under its casefolded name with the declared type
    (string when the type is unknown) and the default = everything after the type, spaces included."""
    VT = impl()['ValueTypes']
    bad = []
    parts = value.split(' ')
    name = parts[0]
    if left != 0:
        bad.append(('parms', 'the func_instance_parms entity was left in the instance file'))
    if list(got) != [name.casefold()]:
        return bad + [('parms', f'parameter value {value!r}: registered {got}, expected one entry under {name.casefold()!r}')]
    gname, gtype, gdef = got[name.casefold()]
    wtype = 'string'
    if len(parts) >= 2:
        try:
            wtype = VT(parts[1]).value
        except ValueError:
            pass
    wdef = value[len(parts[0]) + 1 + len(parts[1]) + 1:] if len(parts) >= 3 else ''
    if (gname, gtype, gdef) != (name, wtype, wdef):
        bad.append(('parms', f'parameter value {value!r}: parsed as name {gname!r} type {gtype!r} default {gdef!r}, expected {name!r} {wtype!r} {wdef!r}'))
    return bad


def corr_params(ctx, drv):
    VT = impl()['ValueTypes']
    rng = ctx.rng
    values = list(PARM_VALUES)
    for _ in range(ctx.budget(150, 1500)):
        values.append(' '.join(rng.choice(['$v', 'Name', 'string', 'integer', 'color255', 'x', '', 'a$b', 'target_destination'])
                               for _ in range(rng.randrange(1, 6))))
    reqs, meta = [], []
    for v in values:
        got, left = run_param(v)
        for key, what in check_param(v, got, left):
            _wit(ctx, key, what, {'kind': 'parm', 'value': v})
        ctx.case({'parm': v}, nontrivial=' ' in v)
        ctx.count('func_instance_parms values')
        reqs.append({'op': 'param', 'value': codes(v), 'maxsplit': 2})
        meta.append((v, got))
    # keys that are not parameters are ignored (as coded: the key must start with "param")
    for key in ('parm1', 'Param1', 'other', 'replace01'):
        got, _ = run_param('$v string d', key)
        ctx.count('func_instance_parms key %s -> %d params' % (key, len(got)))
    for (v, got), m in zip(meta, drv.batch(reqs)):
        ctx.traces_vs_impl += 1
        name = uncodes(m['name'])
        typ = 'string'
        if m['type'] is not None:
            try:
                typ = VT(uncodes(m['type'])).value
            except ValueError:
                pass
        want = {name.casefold(): (name, typ, uncodes(m['default']))}
        if got != want:
            ctx.disagree({'parm': v}, got, want, 'func_instance_parms parsing')


# --- collapse_all

class _TooMany(Exception):
    pass


class _Alarm(Exception):
    pass


def gen_graph(rng, thorough):
    n = rng.randrange(1, 5)
    bmax = 3 if thorough and rng.random() < 0.3 else 2
    files = []
    for f in range(n):
        kids = []
        for _ in range(rng.choice([0, 1, 1, 2, bmax])):
            r = rng.random()
            kids.append(f if r < 0.15 else (n if r < 0.2 else rng.randrange(n)))
        hidden = rng.choice([0, 0, 1])
        files.append({'kids': kids, 'hidden': hidden})
    init = [rng.randrange(n) if rng.random() < 0.93 else n for _ in range(rng.randrange(0, 4))]
    limit = rng.randrange(0, 6)
    return {'files': files, 'init': init, 'limit': limit}


def build_graph(im, g, with_missing=False):
    VMF = im['VMF']
    rng = random.Random(json.dumps(g, sort_keys=True))
    n = len(g['files'])
    name = lambda i: f'maps/inst_{i}.vmf' if i < n else 'maps/missing.vmf'
    mapping = {}
    for i, f in enumerate(g['files']):
        v = VMF()
        v.add_brush(G._rand_brush(rng, im, v))
        v.create_ent('info_target', targetname='t', origin='0 0 0')
        rl = v.create_ent('logic_relay', targetname='r', origin='0 0 8')
        rl.add_out(im['Output']('OnTrigger', 't', 'Kill'), im['Output']('OnTrigger', '@g', 'Trigger'), im['Output']('OnSpawn', 'r', 'Disable'))
        for k in f['kids']:
            (a, _), (o, _) = G.rand_angle(rng), G.rand_origin(rng)
            # classnames and keys are compared case-insensitively (by_class, Entity keys): spell them in any case
            cv = lambda x_, p_=0.3: G.case_variant(rng, x_, p_)
            v.create_ent(g.get('classname') or cv('func_instance', 0.45), **{cv('file'): name(k), cv('targetname'): rng.choice(['', 'sub', 'x']),
                         cv('origin'): G.fmt_vec(tuple(x / 16 for x in o)), cv('angles'): G.fmt_vec(a),
                         cv('fixup_style'): str(rng.choice([0, 1, 2]))})
        for _ in range(f['hidden']):
            e = v.create_ent('func_instance', file=name(i), targetname='hid', origin='0 0 0', angles='0 0 0')
            e.hidden = True
        mapping[name(i)] = v.export(inc_version=False)
    top = VMF()
    for k in g['init']:
        (a, _), (o, _) = G.rand_angle(rng), G.rand_origin(rng)
        kw = {'file': name(k), 'origin': G.fmt_vec(o), 'angles': G.fmt_vec(a), 'fixup_style': str(rng.choice([0, 0, 1, 2]))}
        nm = rng.choice(['', '', None, 'top', 'Named'])     # unnamed: empty or no targetname key at all
        if nm is not None:
            kw['targetname'] = nm
        top.create_ent(G.case_variant(rng, 'func_instance', 0.3), **kw)
    if with_missing:
        v = VMF()
        v.add_brush(v.make_prism(im['Vec'](0, 0, 0), im['Vec'](24, 8, 40)).solid)
        v.create_ent('info_target', targetname='was_missing', origin='4 4 4')
        mapping[name(n)] = v.export(inc_version=False)
    spell = sorted({e['classname'] for t in [top] for e in t.entities} |
                   {m.group(1) for txt in mapping.values() for m in __import__('re').finditer(r'"classname" "([^"]*nstance)"', txt, 2)})
    return top, im['VirtualFileSystem'](mapping), spell


def geom_bound(g):
    b = max([len(f['kids']) for f in g['files']] + [0])
    return len(g['init']) * sum(b ** k for k in range(g['limit']))


def run_collapse_all(im, g):
    """collapse_all under the CALL COUNTER (the verdict: it is exact, bound of C17_term + 5) and, only as a backstop
    against a loop that never reaches collapse_one, a timer measured in process CPU time (ITIMER_PROF, not wall clock,
    so machine load cannot fire it), garbage collection off in the window; a 'hang' is retried once with 4x the budget
    before it is believed."""
    if _HANG_CONFIRMED[0]:
        return _run_collapse_all_once(im, g, 5.0)       # one confirmed hang is the witness; do not pay for the others
    r = _run_collapse_all_once(im, g, 60.0)
    if r['outcome'] == 'hang':
        r = _run_collapse_all_once(im, g, 240.0)
        r['retried'] = True
        if r['outcome'] == 'hang':
            _HANG_CONFIRMED[0] = True
    return r


_HANG_CONFIRMED = [False]


def _run_collapse_all_once(im, g, cpu_budget):
    I = im['I']
    top, fsys, spell = build_graph(im, g)
    bound = geom_bound(g)
    count = [0]
    real = I.collapse_one

    calls = []

    def counting(vmf, inst, *a, **k):
        count[0] += 1
        if count[0] > bound + 5:
            raise _TooMany()
        n0 = len(vmf.entities)
        rec = {'name': inst.name, 'style': inst.fixup_type.value}
        try:
            return real(vmf, inst, *a, **k)
        finally:
            rec['new'] = [(e['classname'].casefold(), e['targetname'], [o.target for o in e.outputs]) for e in vmf.entities[n0:]]
            calls.append(rec)

    def on_alarm(*_):
        raise _Alarm()

    import gc
    gc_was = gc.isenabled()
    gc.disable()
    old = signal.signal(signal.SIGPROF, on_alarm)
    signal.setitimer(signal.ITIMER_PROF, cpu_budget)
    I.collapse_one = counting
    try:
        try:
            I.collapse_all(top, fsys, recur_limit=g['limit'])
            outcome = 'done'
        except RecursionError:
            outcome = 'recursion'
        except FileNotFoundError:
            outcome = 'missing'
        except _TooMany:
            outcome = 'too-many'
        except _Alarm:
            outcome = 'hang'
        except Exception as e:
            outcome = f'{type(e).__name__}: {e}'
    finally:
        signal.setitimer(signal.ITIMER_PROF, 0)
        signal.signal(signal.SIGPROF, old)
        if gc_was:
            gc.enable()
        I.collapse_one = real
    return {'collapses': count[0], 'outcome': outcome, 'left': len(top.by_class['func_instance']),
            'brushes': len(top.brushes), 'bound': bound, 'spell': spell, 'calls': calls}


def _map_summary(top):
    """Content of a collapsed map up to ids, entity order and the automatic instance names."""
    return (sorted(tuple(round(c, 3) for p in s.planes for c in p) for b in top.brushes for s in b.sides),
            sorted((e['classname'].casefold(), e['origin']) for e in top.entities))


def _acyclic(g):
    n = len(g['files'])
    state = {}

    def visit(i):
        if i >= n or state.get(i) == 2:
            return True
        if state.get(i) == 1:
            return False
        state[i] = 1
        ok = all(visit(k) for k in g['files'][i]['kids'])
        state[i] = 2
        return ok
    return all(visit(i) for i in range(n))


def retry_experiment(im, g, r):
    """Error path: after collapse_all raised FileNotFoundError (RecursionError) a second call with the file present
    (a larger limit) must end with the same map as a clean run - nothing may be lost by the failed attempt."""
    I = im['I']
    if r['outcome'] not in ('missing', 'recursion') or not _acyclic(g):
        return []
    lim2 = g['limit'] if r['outcome'] == 'missing' else 12
    clean, fs_full, _ = build_graph(im, g, with_missing=True)
    try:
        I.collapse_all(clean, fs_full, recur_limit=lim2)
    except (RecursionError, FileNotFoundError):
        return []
    top, fs_part, _ = build_graph(im, g, with_missing=False)
    try:
        I.collapse_all(top, fs_part if r['outcome'] == 'missing' else fs_full, recur_limit=g['limit'])
        return []       # (set iteration order made this run pass)
    except (RecursionError, FileNotFoundError) as e:
        first = type(e).__name__
    try:
        I.collapse_all(top, fs_full, recur_limit=lim2)
    except RecursionError:
        return []
    except Exception as e:
        return [('error-path', f'after {first}, collapse_all on the same map (file now present / limit {lim2}) raised {type(e).__name__}: {e}; graph {g}')]
    a, b = _map_summary(top), _map_summary(clean)
    if a != b:
        return [('error-path', f'after collapse_all raised {first}, calling it again with the file present / a larger limit does not give the map '
                               f'a clean run gives: {len(a[0])} faces, {len(a[1])} entities vs {len(b[0])} faces, {len(b[1])} entities '
                               f'(the failed attempt lost content); graph {g}')]
    return []


_AUTO_RE = __import__('re').compile(r'InstanceAuto(\d+)$')


def check_auto_names(g, r):
    """Names produced by collapse_all: every instance - also an unnamed one, which gets InstanceAuto<N> - puts its name
    on the entities it adds in the shape of its fixup style; outputs target the renamed entities; the same entity
    copied from instances with different names has different names."""
    bad = []
    seen = {}
    autos = []
    for c in r.get('calls', []):
        nm, style = c['name'], c['style']
        if not nm:
            bad.append(('auto-name', f'collapse_all collapsed an instance with an empty name (no InstanceAuto<N> assigned): graph {g}'))
            continue
        m = _AUTO_RE.match(nm)
        if m:
            autos.append(int(m.group(1)))
        for cls, tn, outs in c['new']:
            base = {'info_target': 't', 'logic_relay': 'r'}.get(cls)
            if base is None:
                continue
            want = G.spec_fixup_name(style, nm, base)
            if tn != want:
                bad.append(('auto-name', f'instance {nm!r} (style {G.STYLE_NAMES[style]}) produced the entity {tn!r} from {base!r}, expected {want!r}; graph {g}'))
                return bad
            if cls == 'logic_relay':
                wo = [G.spec_fixup_name(style, nm, 't'), '@g', G.spec_fixup_name(style, nm, 'r')]
                if outs != wo:
                    bad.append(('auto-name', f'instance {nm!r} (style {G.STYLE_NAMES[style]}): relay outputs target {outs}, expected the renamed entities {wo}; graph {g}'))
                    return bad
            if style != 2:
                other = seen.setdefault((style, base, tn), nm)
                if other != nm:
                    bad.append(('auto-name', f'instances {other!r} and {nm!r} both produced an entity named {tn!r}; graph {g}'))
                    return bad
    if autos != list(range(1, len(autos) + 1)):
        bad.append(('auto-name', f'automatic instance names are not InstanceAuto1..N in processing order: {autos}; graph {g}'))
    return bad


def check_collapse_all(g, r):
    """Termination statement: returns with no instance left, or raises RecursionError / FileNotFoundError, after at
    most n0 * sum_{k<limit} b^k collapses."""
    bad = []
    if r['outcome'] in ('too-many', 'hang'):
        bad.append(('collapse-all', f'collapse_all does not terminate within the proved bound (C17_term: at most n0 * sum_{{k<limit}} b^k = '
                                    f'{r["bound"]} collapses): stopped after {r["collapses"]} collapses ({r["outcome"]}) on the inclusion graph {g}, '
                                    f'func_instance classnames spelt {r["spell"]}'))
    elif r['outcome'] not in ('done', 'recursion', 'missing'):
        bad.append(('collapse-all', f'collapse_all on graph {g}: {r["outcome"]} after {r["collapses"]} collapses (bound {r["bound"]})'))
    if r['collapses'] > r['bound']:
        bad.append(('collapse-all', f'collapse_all on graph {g}: {r["collapses"]} collapses exceed the bound {r["bound"]}'))
    if r['outcome'] == 'done' and r['left'] != 0:
        bad.append(('collapse-all', f'collapse_all returned with {r["left"]} func_instance entities left: {g}'))
    n = len(g['files'])
    has_missing = lambda: any(k >= n for k in g['init']) or any(k >= n for f in g['files'] for k in f['kids'])
    if r['outcome'] == 'missing' and not has_missing():
        bad.append(('collapse-all', f'FileNotFoundError although every file exists: {g}'))
    if r['outcome'] == 'done' and r['brushes'] != r['collapses']:
        bad.append(('collapse-all', f'{r["collapses"]} collapses of one-brush files produced {r["brushes"]} brushes: {g}'))
    bad += check_auto_names(g, r)
    bad += retry_experiment(impl(), g, r)
    return bad


def corr_collapse_all(ctx, drv):
    im = impl()
    rng = ctx.rng
    reqs, meta = [], []
    fixed = [{'files': [{'kids': [0, 0], 'hidden': 0}], 'init': [0], 'limit': 5},
             {'files': [{'kids': [0], 'hidden': 0}], 'init': [0], 'limit': 4, 'classname': 'Func_Instance'},
             {'files': [{'kids': [1], 'hidden': 0}, {'kids': [0, 1], 'hidden': 0}], 'init': [1], 'limit': 3, 'classname': 'FUNC_INSTANCE'},
             {'files': [{'kids': [1], 'hidden': 0}, {'kids': [0], 'hidden': 1}], 'init': [0, 1], 'limit': 4},
             {'files': [{'kids': [], 'hidden': 0}], 'init': [0], 'limit': 1},
             {'files': [{'kids': [], 'hidden': 0}], 'init': [], 'limit': 0},
             {'files': [{'kids': [1], 'hidden': 0}, {'kids': [], 'hidden': 0}], 'init': [0], 'limit': 3}]
    graphs = fixed + [gen_graph(rng, ctx.thorough) for _ in range(ctx.budget(120, 1200))]
    for g in graphs:
        r = run_collapse_all(im, g)
        for key, what in check_collapse_all(g, r):
            _wit(ctx, key, what, {'kind': 'graph', 'graph': g})
        reqs.append({'op': 'collapseAll', 'files': [f['kids'] for f in g['files']], 'init': g['init'], 'limit': g['limit']})
        meta.append((g, r))
        selfrec = any(i in f['kids'] for i, f in enumerate(g['files']))
        ctx.case({'graph': g}, nontrivial=bool(g['init']) and g['limit'] > 0)
        ctx.count('collapse_all outcome ' + r['outcome'])
        ctx.count('collapse_all self-recursive' if selfrec else 'collapse_all not self-recursive')
        ctx.count('collapse_all with a mixed-case func_instance classname' if any(x != 'func_instance' for x in r['spell']) else 'collapse_all all lower-case')
    # automatic names: the names as processed against the model's assignAuto
    areqs = [{'op': 'autonames', 'names': [codes('' if _AUTO_RE.match(c['name']) else c['name']) for c in r['calls']]} for g, r in meta]
    for (g, r), m in zip(meta, drv.batch(areqs)):
        ctx.traces_vs_impl += 1
        got = [c['name'] for c in r['calls']]
        if [uncodes(x) for x in m.get('names', [])] != got:
            ctx.disagree({'graph': g}, got, m, 'InstanceAuto<N> naming in collapse_all')
        ctx.count('collapse_all unnamed instances collapsed', sum(1 for x in got if _AUTO_RE.match(x)))
    for (g, r), m in zip(meta, drv.batch(reqs)):
        ctx.traces_vs_impl += 1
        if r['outcome'] == 'missing' or m.get('outcome') == 'missing':
            # which instances precede the missing one depends on set iteration order: outcome only
            if m.get('outcome') != r['outcome']:
                ctx.disagree({'graph': g}, r, m, 'collapse_all outcome')
            continue
        if (m.get('outcome'), m.get('collapses'), m.get('left')) != (r['outcome'], r['collapses'], r['left']):
            ctx.disagree({'graph': g}, r, m, 'collapse_all collapses/outcome/instances left')


# ------------------------------------------------------------------------------------------- run_check interface

def correspond(ctx, drivers):
    drv = drivers['drv_c17']
    im = impl()
    corr_fixup_name(ctx, drv)
    corr_substitute(ctx, drv)
    corr_cells(ctx, drv)
    corr_collapse_all(ctx, drv)
    corr_nested(ctx, drv)
    corr_from_angle(ctx, drv)
    corr_io(ctx, drv)
    corr_params(ctx, drv)
    # histories
    n_hist = ctx.budget(400, 4000)
    reqs, meta = [], []
    ctx.extra['history_seeds'] = []
    for _ in range(n_hist):
        seed = ctx.rng.getrandbits(40)
        steps = run_history(seed)
        ctx.extra['history_seeds'].append(seed) if len(ctx.extra['history_seeds']) < 20 else None
        for key, what in search_history(ctx, seed, steps=steps):
            _wit(ctx, key, what, {'kind': 'history', 'seed': seed, 'numeric_vars': False})
        for i, st in enumerate(steps):
            ctx.case({'history': seed, 'step': i, 'digest': _digest(st)}, nontrivial=_nontrivial(st), sample_every=97)
            ctx.count('angles ' + st.plan['ak']); ctx.count('origin ' + st.plan['ok'])
            ctx.count('style ' + G.STYLE_NAMES[st.params['style']])
            ctx.count('target ' + ('fresh' if st.plan['fresh'] else 'shared'))
            ctx.count('visgroup mode ' + st.vis)
            ctx.count('instance attributes set after construction' if st.plan.get('late') is not None else 'instance attributes from the constructor')
            ctx.count('brushes placed', len(st.old_brushes)); ctx.count('entities placed', len(st.old_ents))
            ctx.count('displacement faces placed', st.disp_faces[0])
            if st.error:
                ctx.count('collapse_one raised half-way (malformed axis value): template and later collapses still checked' if st.poisoned else 'collapse_one raised')
            if st.model_req is not None and st.view is not None:
                reqs.append(st.model_req)
                meta.append((seed, i, st.view))
            else:
                ctx.count('step without model comparison')
    ctx.count('histories', n_hist)
    for (seed, i, view), m in zip(meta, drv.batch(reqs, timeout=1200)):
        ctx.traces_vs_impl += 1
        if 'brushes' not in m:
            ctx.disagree({'history': seed, 'step': i}, 'result', m, 'model error')
            continue
        d = G.compare_result(view, m)
        if d:
            ctx.disagree({'history': seed, 'step': i}, d[:3], '(see differences)', 'collapse_one vs model collapse')
    ctx.extra['histories_done'] = True


def search(ctx):
    """The statement itself on the implementation. The histories of `correspond` were already checked there; here:
    histories with $variables inside numeric keys (outside the model), neighbours of disagreeing histories, and
    everything again if the driver could not be built."""
    impl()
    n = ctx.budget(120, 1000)
    if not ctx.extra.get('histories_done'):
        n += ctx.budget(250, 2500)
        for g in [gen_graph(ctx.rng, ctx.thorough) for _ in range(ctx.budget(120, 1200))]:
            for key, what in check_collapse_all(g, run_collapse_all(impl(), g)):
                _wit(ctx, key, what, {'kind': 'graph', 'graph': g})
        for _ in range(ctx.budget(40, 400)):
            seed = ctx.rng.getrandbits(40)
            for key, what in check_nested(run_nested(seed)):
                _wit(ctx, key, what, {'kind': 'nested', 'seed': seed})
        for _ in range(ctx.budget(400, 4000)):
            seed = ctx.rng.getrandbits(40)
            for key, what in check_io(run_io(seed)):
                _wit(ctx, key, f'[io case {seed}] {what}', {'kind': 'io', 'seed': seed})
    for k in range(n):
        seed = ctx.rng.getrandbits(40)
        nv = k % 2 == 0
        for key, what in search_history(ctx, seed, numeric_vars=nv):
            _wit(ctx, key, what, {'kind': 'history', 'seed': seed, 'numeric_vars': nv})
        ctx.count('search-only histories')
    for d in ctx.disagreements[:10]:
        seed = d['case'].get('history') if isinstance(d.get('case'), dict) else None
        if seed is not None:
            for key, what in search_history(ctx, seed):
                _wit(ctx, key, what, {'kind': 'history', 'seed': seed, 'numeric_vars': False})
    # the exponential observation (recorded, not a violation): two self-inclusions, limit 5
    r = run_collapse_all(impl(), {'files': [{'kids': [0, 0], 'hidden': 0}], 'init': [0], 'limit': 5})
    ctx.notes.append(f'doubly self-including file, recur_limit=5: {r["collapses"]} collapses then {r["outcome"]} (2^5-1 = 31)')


WITNESS = {'kind': 'fixed-template-fixup'}


def _fixed_witness():
    """A template containing a func_instance with $color=red collapsed twice with PREFIX naming."""
    im = impl()
    I, VMF, Vec, Matrix = im['I'], im['VMF'], im['Vec'], im['Matrix']
    t = VMF()
    e = t.create_ent('func_instance', file='inner.vmf', targetname='inner', origin='1 2 3', angles='0 0 0')
    e.fixup['$color'] = 'red'
    f = I.InstanceFile(t)
    before = t.export(inc_version=False)
    res = []
    for _ in range(2):
        target = VMF()
        I.collapse_one(target, I.Instance('A', 'a.vmf', Vec(64, 0, 0), Matrix(), I.FixupStyle.PREFIX), f)
        res.append(target.entities[0].fixup['$color'])
    return before == t.export(inc_version=False), res, e.fixup['$color']


def _fixed_node_witness():
    """Template: nodes 1, 2 and a link 1 -> 2; collapsed twice into the same map."""
    im = impl()
    I, VMF, Vec, Matrix = im['I'], im['VMF'], im['Vec'], im['Matrix']
    t = VMF()
    t.create_ent('info_node', origin='0 0 0', nodeid='1')
    t.create_ent('info_node', origin='64 0 0', nodeid='2')
    t.create_ent('info_node_link', origin='0 0 0', startnode='1', endnode='2')
    f = I.InstanceFile(t)
    target = VMF()
    res = []
    for k in range(2):
        n0 = len(target.entities)
        I.collapse_one(target, I.Instance(f'A{k}', 'a.vmf', Vec(64 * k, 0, 0), Matrix(), I.FixupStyle.PREFIX), f)
        e = target.entities[n0:]
        res.append((e[0]['nodeid'], e[1]['nodeid'], e[2]['startnode'], e[2]['endnode']))
    ok = all(r[0] == r[2] and r[1] == r[3] for r in res) and len({x for r in res for x in r[:2]}) == 4
    return ok, res


def _fixed_vis_witness():
    """A func_door whose brush is in template visgroup 1, collapsed with visgroup=False into a map that has its own group 1."""
    im = impl()
    I, VMF, Vec, Matrix = im['I'], im['VMF'], im['Vec'], im['Matrix']
    t = VMF()
    g = t.create_visgroup('detail')
    d = t.create_ent('func_door', origin='0 0 0', targetname='d')
    b = t.make_prism(Vec(0, 0, 0), Vec(8, 8, 8)).solid
    b.visgroup_ids.add(g.id)
    d.solids.append(b)
    f = I.InstanceFile(t)
    target = VMF()
    target.create_visgroup('unrelated group of the map')
    I.collapse_one(target, I.Instance('A', 'a.vmf', Vec(), Matrix(), I.FixupStyle.PREFIX), f)
    got = set(target.entities[0].solids[0].visgroup_ids)
    return got == set(), got


def _fixed_io_witness():
    """Relay + proxy named with capitals; the map fires instance:relay;trigger at the instance once-unlimited."""
    im = impl()
    I, VMF, Output, Vec, Matrix = im['I'], im['VMF'], im['Output'], im['Vec'], im['Matrix']
    t = VMF()
    r = t.create_ent('logic_relay', targetname='Relay', origin='0 0 0')
    r.add_out(Output('OnTrigger', 'proxy', 'ProxyRelay'))
    p = t.create_ent('func_instance_io_proxy', targetname='Proxy', origin='0 0 0')
    p.add_out(Output('OnProxyRelay', 'Relay', 'Trigger', times=1))
    f = I.InstanceFile(t)
    target = VMF()
    a = target.create_ent('logic_auto', origin='0 0 0')
    a.add_out(Output('OnMapSpawn', 'inst', 'trigger', inst_in='RELAY'))
    inst = I.Instance('inst', 'io.vmf', Vec(), Matrix(), I.FixupStyle.PREFIX,
                      outputs=[Output('OnTrigger', 'outer', 'FireUser1', inst_out='relay')])
    I.collapse_one(target, inst, f)
    o = a.outputs[0]
    new = target.entities[1]
    return {'lookup': o.inst_in is None, 'renamed': o.target == 'inst-Relay', 'times': o.times == 1,
            'proxyname': [(x.output, x.target, x.input) for x in new.outputs] == [('OnTrigger', 'outer', 'FireUser1')]}


def _fixed_missing_witness():
    g = {'files': [{'kids': [], 'hidden': 0}], 'init': [0, 0, 1], 'limit': 5}
    bad = retry_experiment(impl(), g, {'outcome': 'missing'})
    return not bad, bad


def replay_known(ctx, finding):
    if str(finding.get('key', '')).startswith('io-proxy-'):
        return not _fixed_io_witness()[finding['witness']['part']]
    if finding.get('key') == 'error-path':
        return not _fixed_missing_witness()[0]
    if finding.get('key') == 'visgroups':
        return not _fixed_vis_witness()[0]
    if finding.get('key') == 'node-ids':
        return not _fixed_node_witness()[0]
    if finding.get('key') == 'template-fixup-shared':
        same, res, tv = _fixed_witness()
        return not (same and res == ['A-red', 'A-red'] and tv == 'red')
    return None


def replay(ctx, payload):
    inp = payload.get('input') or {}
    kind = inp.get('kind')
    impl()
    if kind == 'history':
        found = search_history(ctx, inp['seed'], numeric_vars=inp.get('numeric_vars', False))
        for k, w in found[:10]:
            print(k, ':', w)
        return not found
    if kind == 'graph':
        r = run_collapse_all(impl(), inp['graph'])
        bad = check_collapse_all(inp['graph'], r)
        print(r, bad)
        return not bad
    if kind == 'parm':
        got, left = run_param(inp['value'])
        bad = check_param(inp['value'], got, left)
        print(got, bad)
        return not bad
    if kind == 'io':
        bad = check_io(run_io(inp['seed']))
        for k, w in bad[:10]:
            print(k, ':', w)
        return not bad
    if kind == 'nested':
        bad = check_nested(run_nested(inp['seed']))
        print(bad)
        return not bad
    if kind == 'subst':
        r, _ = impl_subst(impl(), [tuple(x) for x in inp['table']], inp['dflt'], inp['text'])
        want = G.spec_substitute([tuple(x) for x in inp['table']], inp['text'])
        print('substitute', inp, '->', repr(r), 'expected', repr(want))
        return want is None or r == want
    if kind == 'fixup':
        im = impl()
        inst = im['I'].Instance(inp['inst'], 'f.vmf', im['Vec'](), im['Matrix'](), im['I'].FixupStyle(inp['style']))
        r = inst.fixup_name(inp['name'])
        print('fixup_name', inp, '->', repr(r))
        return r == G.spec_fixup_name(inp['style'], inp['inst'], inp['name'])
    if kind == 'fixed-io':
        res = _fixed_io_witness()
        print(res)
        return res[inp['part']] if 'part' in inp else all(res.values())
    if kind == 'fixed-missing-file':
        ok, bad = _fixed_missing_witness()
        print(bad)
        return ok
    if kind == 'fixed-visgroup-strip':
        ok, got = _fixed_vis_witness()
        print('visgroup ids left on the collapsed entity brush:', got)
        return ok
    if kind == 'fixed-node-ids':
        ok, res = _fixed_node_witness()
        print('(node a, node b, link start, link end) per collapse:', res)
        return ok
    if kind == 'fixed-template-fixup':
        same, res, tv = _fixed_witness()
        print('template unchanged:', same, 'results:', res, 'template value:', tv)
        return same and res == ['A-red', 'A-red']
    print('replay file names a broken obligation/correspondence, no input to replay:', payload.get('broken_obligations'), payload.get('disagreements', [])[:1])
    return False


LEVEL_TEXT = ("Lean theorems over an arbitrary commutative ring / field for the executable model of collapse_one's geometry "
              "(rotate-then-offset composition, texture coordinates invariant under UVAxis.localise for orthogonal rotations, "
              "planes map to planes, placement factorisation of the whole collapse, results at two placements differ by the "
              "relative placement), over all strings for fixup_name (shape, pass-through, injectivity) and substitute "
              "(no-$ identity, longest defined variable wins), for all inclusion graphs for collapse_all (bounded number of "
              "collapses, exponential witness), and for the FixupValue cell model (fresh copy = template immutable; shared "
              "copy = template rewritten and double prefix). Tied to the code by a differential run after every step of "
              "random collapse histories plus exhaustive small-alphabet runs of substitute/fixup_name.")
LEVEL_NOTE = ("Exact-arithmetic theorems; floating point and Angle<->Matrix conversion are tied with a tolerance and trusted to C04. "
              "FGD typing comes from the implementation's database. Template immutability beyond the $fixup cells is established "
              "by comparing the template's export text before/after every collapse (not by a heap proof).")
TECHNIQUE = "Lean 4 proofs (ring / linear_combination over commutative rings, list induction) + differential correspondence after every collapse + direct property search"
DESIGN_REF = "DESIGN.md section 6, C17"
