"""Shared machinery of the checks: import of /repo's working tree, Lean build + audit,
model drivers (line protocol), evidence, known findings, violation reports.

Every check is `harness/run.py <PID> [--tier quick|thorough] [--replay file]` (wrapped by ./check)
and follows the same order (DESIGN.md section 2):
  1 translator (tools/extract.py) -> Gen files; lake build of the property's drivers and Props file
  2 audit (forbidden tokens, `#print axioms` of every property theorem)
  3 corpus + correspondence (model driver vs implementation)
  4 direct search for a failing input on the implementation (always runs; seeded with whatever
    disagreed in 3)
  5 known findings; 6 evidence; exit code.
"""
from __future__ import annotations
import os, sys, json, time, re, random, subprocess, fcntl, hashlib, pathlib, traceback, importlib, itertools

VERIF = pathlib.Path(__file__).resolve().parent.parent
REPO = pathlib.Path(os.environ.get('VERIF_REPO', '/repo'))
LEAN = VERIF / 'lean'
GUARD = 'SRCTOOLS_VERIF'
ALLOWED_AXIOMS = {'propext', 'Classical.choice', 'Quot.sound'}
BUILD_TIMEOUT = int(os.environ.get('VERIF_BUILD_TIMEOUT', '1500'))

TRUSTED_COMMON = [
    "Lean 4.33 kernel; axioms of every property theorem audited to be within {propext, Classical.choice, Quot.sound}; no sorry/admit/native_decide/bv_decide/axiom/implemented_by (grep + #print axioms each run)",
    "tools/extract.py + tools/gen_*.py (translator: source -> Gen/*.lean) and harness/* (generators, canonicalisation, line protocol) are trusted to report what the source / implementation does",
    "correspondence model<->implementation is differential testing: agreement is established only on the inputs explored in this run; the theorems hold for the model on all inputs",
    "CPython (str, dict order, struct, float, re), zlib, lzma, zipfile and the OS are not verified; Cython accelerators (_tokenizer.pyx, _math.pyx, _cy_vtf_readwrite.pyx) cannot be built here and only their literal tables are tied",
]


def import_impl():
    """Make `import srctools` resolve to REPO's working tree (not the wheel in site-packages)."""
    os.environ[GUARD] = '1'
    for k in [k for k in sys.modules if k == 'srctools' or k.startswith('srctools.')]:
        del sys.modules[k]
    paths = [str(REPO / 'src'), str(VERIF / 'harness' / 'shims')]
    sys.path[:] = paths + [p for p in sys.path if p not in paths]
    import srctools
    f = pathlib.Path(srctools.__file__).resolve()
    if not str(f).startswith(str((REPO / 'src').resolve())):
        raise RuntimeError(f'srctools imported from {f}, not from {REPO}/src')
    return srctools


class Timeout(Exception):
    pass


class InternalError(Exception):
    pass


# --------------------------------------------------------------------------- Lean side

def _run(cmd, cwd=None, timeout=None, env=None):
    t0 = time.time()
    try:
        p = subprocess.run(cmd, cwd=cwd, stdout=subprocess.PIPE, stderr=subprocess.STDOUT,
                           timeout=timeout, text=True, env=env)
    except subprocess.TimeoutExpired as e:
        raise Timeout(f"{' '.join(map(str, cmd))} exceeded {timeout}s")
    return p.returncode, p.stdout, time.time() - t0


class BuildLock:
    def __enter__(self):
        (LEAN / '.lake').mkdir(exist_ok=True)
        self.f = open(LEAN / '.lake' / 'verif.lock', 'w')
        fcntl.flock(self.f, fcntl.LOCK_EX)
        return self

    def __exit__(self, *a):
        fcntl.flock(self.f, fcntl.LOCK_UN)
        self.f.close()


def extract(gens):
    """Run the translator for the given Gen names. Returns {name: {ok, changed, error?}}."""
    if not gens:
        return {}
    rc, out, _ = _run([sys.executable, str(VERIF / 'tools' / 'extract.py'), '--repo', str(REPO)] + list(gens),
                      timeout=300)
    try:
        return json.loads(out[out.index('{'):])
    except Exception:
        return {g: {'ok': False, 'error': out[-2000:], 'changed': False} for g in gens}


def lake_build(targets, timeout=BUILD_TIMEOUT):
    rc, out, dt = _run(['lake', 'build'] + list(targets), cwd=LEAN, timeout=timeout)
    return rc == 0, out, dt


_ERR_RE = re.compile(r'^(?:error: )?(\S+\.lean):(\d+):(\d+):(?: error)?', re.M)


def failing_theorems(build_log):
    """Map build errors to the enclosing theorem/def names."""
    names = []
    for m in _ERR_RE.finditer(build_log):
        path, line = m.group(1), int(m.group(2))
        p = pathlib.Path(path)
        if not p.is_absolute():
            p = LEAN / p
        try:
            lines = p.read_text(encoding='utf-8').splitlines()
        except OSError:
            names.append(f'{path}:{line}')
            continue
        name = f'{path}:{line}'
        for i in range(min(line, len(lines)) - 1, -1, -1):
            mm = re.match(r'\s*(?:private |protected |@\[[^\]]*\]\s*)*(theorem|lemma|def|example|instance)\s+(\S+)?', lines[i])
            if mm:
                name = f'{mm.group(2) or "example"} ({p.name}:{i + 1})'
                break
        if name not in names:
            names.append(name)
    return names


def _strip_comments(text):
    text = re.sub(r'/-.*?-/', lambda m: '\n' * m.group().count('\n'), text, flags=re.S)
    return re.sub(r'--.*', '', text)


_FORBIDDEN = re.compile(r'\b(sorry|admit|native_decide|bv_decide|implemented_by)\b|^\s*axiom\s|\bunsafe\s|maxHeartbeats\s+0\b', re.M)


def import_closure(modules):
    """Files of this project reachable through `import Srctools.…`/`import Drv.…` from the modules."""
    seen, todo, files = set(), list(modules), []
    while todo:
        m = todo.pop()
        if m in seen:
            continue
        seen.add(m)
        f = LEAN / (m.replace('.', '/') + '.lean')
        if not f.exists():
            continue
        files.append(f)
        for mm in re.finditer(r'^\s*import\s+((?:Srctools|Drv)\.[A-Za-z0-9_.]+)', f.read_text(encoding='utf-8'), re.M):
            todo.append(mm.group(1))
    return files


def forbidden_tokens(modules=None):
    """sorry/admit/axiom/native_decide/… in the import closure of the given modules (comments stripped);
    all of lean/Srctools + lean/Drv when no modules are given."""
    if modules is None:
        files = list((LEAN / 'Srctools').rglob('*.lean')) + list((LEAN / 'Drv').rglob('*.lean'))
    else:
        files = import_closure(modules)
    hits = []
    for p in files:
        txt = _strip_comments(p.read_text(encoding='utf-8'))
        for m in _FORBIDDEN.finditer(txt):
            ln = txt.count('\n', 0, m.start()) + 1
            hits.append(f'{p.relative_to(LEAN)}:{ln}: {m.group().strip()}')
    return hits


def property_theorems(props_module):
    """Fully qualified names of the theorems declared in a Props file whose own name starts with
    the property id (e.g. C02_...)."""
    p = LEAN / (props_module.replace('.', '/') + '.lean')
    txt = _strip_comments(p.read_text(encoding='utf-8'))
    ns, out = [], []
    for line in txt.splitlines():
        m = re.match(r'\s*namespace\s+(\S+)', line)
        if m:
            ns.append(m.group(1)); continue
        m = re.match(r'\s*end\s+(\S+)', line)
        if m and ns and ns[-1] == m.group(1):
            ns.pop(); continue
        m = re.match(r'\s*(?:@\[[^\]]*\]\s*)*theorem\s+([A-Za-z0-9_.\']+)', line)
        if m:
            out.append('.'.join(ns + [m.group(1)]))
    return out


def audit_axioms(props_module, pid):
    """#print axioms for every property theorem. Returns (ok, {thm: [axioms]}, log)."""
    thms = [t for t in property_theorems(props_module) if t.split('.')[-1].startswith(pid + '_')]
    d = LEAN / '.lake' / 'audit'
    d.mkdir(parents=True, exist_ok=True)
    f = d / f'Audit_{pid}_{os.getpid()}.lean'
    f.write_text(f'import {props_module}\n' + ''.join(f'#print axioms {t}\n' for t in thms), encoding='utf-8')
    try:
        rc, out, _ = _run(['lake', 'env', 'lean', str(f)], cwd=LEAN, timeout=600)
    finally:
        try: f.unlink()
        except OSError: pass
    res = {}
    for m in re.finditer(r"'([^']+)' depends on axioms: \[([^\]]*)\]", out):
        res[m.group(1)] = [a.strip() for a in m.group(2).replace('\n', ' ').split(',') if a.strip()]
    for m in re.finditer(r"'([^']+)' does not depend on any axioms", out):
        res[m.group(1)] = []
    ok = rc == 0 and all(t in res for t in thms) and all(set(a) <= ALLOWED_AXIOMS for a in res.values())
    return ok, res, out, thms


class Driver:
    """A compiled Lean model driver speaking JSON lines. `batch` sends many requests at once."""

    def __init__(self, name):
        self.name = name
        self.exe = LEAN / '.lake' / 'build' / 'bin' / name
        if not self.exe.exists():
            raise InternalError(f'driver {name} not built')

    def batch(self, reqs, timeout=900):
        data = ''.join(json.dumps(r, separators=(',', ':')) + '\n' for r in reqs)
        try:
            p = subprocess.run([str(self.exe)], input=data, stdout=subprocess.PIPE, stderr=subprocess.PIPE,
                               text=True, timeout=timeout)
        except subprocess.TimeoutExpired:
            raise Timeout(f'driver {self.name} exceeded {timeout}s on {len(reqs)} requests')
        lines = p.stdout.splitlines()
        if p.returncode != 0 or len(lines) != len(reqs):
            raise InternalError(f'driver {self.name}: rc={p.returncode}, {len(lines)} replies for {len(reqs)} requests; stderr={p.stderr[-500:]}')
        return [json.loads(l) for l in lines]


def codes(s: str):
    return [ord(c) for c in s]


def uncodes(l):
    return ''.join(chr(c) for c in l)


# --------------------------------------------------------------------------- bookkeeping

class Ctx:
    def __init__(self, pid, tier, seed):
        self.pid, self.tier, self.seed = pid, tier, seed
        self.rng = random.Random(f'{pid}:{seed}')
        self.t0 = time.time()
        self.evaluations = 0
        self._distinct = set()
        self.samples = []
        self.hist = {}
        self.traces_vs_impl = 0
        self.disagreements = []      # model != impl  (list of dicts)
        self.witnesses = []          # property fails on impl (list of dicts with key/what/input)
        self.broken = []             # broken proof obligations / extraction failures (strings)
        self.notes = []
        self.exhaustive = None
        self.extra = {}

    @property
    def thorough(self):
        return self.tier == 'thorough'

    def budget(self, quick, thorough):
        return thorough if self.thorough else quick

    def count(self, key, n=1):
        self.hist[key] = self.hist.get(key, 0) + n

    def case(self, case, nontrivial=True, sample_every=None):
        """Record one explored case (any JSON-able value)."""
        self.evaluations += 1
        if nontrivial:
            h = hashlib.blake2b(json.dumps(case, sort_keys=True, default=str).encode(), digest_size=8).digest()
            self._distinct.add(h)
        if len(self.samples) < 6 and (sample_every is None or self.evaluations % sample_every == 1):
            self.samples.append(case)

    def disagree(self, case, impl, model, where=''):
        if len(self.disagreements) < 50:
            self.disagreements.append({'case': case, 'impl': impl, 'model': model, 'where': where})
        self.count('disagreements')

    def witness(self, key, what, inp):
        """The property itself fails on the implementation for input `inp`."""
        nkey = sum(1 for w in self.witnesses if w['key'] == key)
        if len(self.witnesses) < 60 and nkey < 5:      # per-key cap: a flood of one key must not hide another
            self.witnesses.append({'key': key, 'what': what, 'input': inp})
        self.count('witnesses')
        self.count('witness:' + str(key))

    def log(self, msg):
        print(f'[{self.pid}] {msg}', flush=True)


def load_known(pid):
    """Known findings: known_findings.json (+ per-property files in known_findings.d/)."""
    recs = []
    f = VERIF / 'known_findings.json'
    if f.exists():
        recs += json.loads(f.read_text())
    d = VERIF / 'known_findings.d'
    if d.is_dir():
        for g in sorted(d.glob('*.json')):
            try:
                recs += json.loads(g.read_text())
            except Exception:
                pass
    out, seen = [], set()
    for k in recs:
        if k.get('property') == pid and (k.get('key'), k.get('status')) not in seen:
            seen.add((k.get('key'), k.get('status')))
            out.append(k)
    return out


def write_replay(ctx, payload):
    d = VERIF / 'replays'
    d.mkdir(exist_ok=True)
    blob = json.dumps(payload, sort_keys=True, default=str, indent=1)
    name = f"{ctx.pid}-{hashlib.sha1(blob.encode()).hexdigest()[:10]}.json"
    (d / name).write_text(blob)
    return f'replays/{name}'


def write_evidence(ctx, spec, obligations, discharged, checker_cmd, violations):
    d = VERIF / 'evidence'
    d.mkdir(exist_ok=True)
    cov = {
        'obligations': obligations,
        'discharged': discharged,
        'checker_cmd': checker_cmd,
        'trusted_base': TRUSTED_COMMON + list(getattr(spec, 'TRUSTED', [])),
        'evaluations': ctx.evaluations,
        'distinct_nontrivial': len(ctx._distinct),
        'rule': getattr(spec, 'RULE', ''),
        'samples': ctx.samples[:6] or ['(no correspondence case was run)'],
        'traces_validated_against_impl': ctx.traces_vs_impl,
        'histogram': ctx.hist,
        'disagreements': len(ctx.disagreements),
        'broken_obligations': ctx.broken,
        'not_modelled': list(getattr(spec, 'NOT_MODELLED', [])),
        'theorems': ctx.extra.get('theorems', []),
        'axioms': ctx.extra.get('axioms', {}),
        'notes': ctx.notes,
    }
    if ctx.exhaustive is not None:
        cov['exhaustive'] = bool(ctx.exhaustive)
    for k, v in ctx.extra.items():
        cov.setdefault(k, v)
    ev = {
        'property_id': ctx.pid, 'tier': ctx.tier, 'seed': ctx.seed, 'level': 'proof',
        'coverage': cov,
        'assumptions': list(getattr(spec, 'ASSUMPTIONS', [])),
        'wall_s': round(time.time() - ctx.t0, 2),
        'violations': violations,
    }
    tmp = d / f'.{ctx.pid}.json.{os.getpid()}'
    tmp.write_text(json.dumps(ev, indent=1, default=str))
    os.replace(tmp, d / f'{ctx.pid}.json')


def ddmin(items, fails, budget=400):
    """Classic delta debugging on a list; `fails(list)->bool`."""
    items = list(items)
    n = 2
    calls = 0
    while len(items) >= 2 and calls < budget:
        chunk = max(1, len(items) // n)
        subsets = [items[i:i + chunk] for i in range(0, len(items), chunk)]
        reduced = False
        for i in range(len(subsets)):
            comp = [x for j, s in enumerate(subsets) if j != i for x in s]
            calls += 1
            if comp and fails(comp):
                items = comp
                n = max(n - 1, 2)
                reduced = True
                break
        if not reduced:
            if n >= len(items):
                break
            n = min(len(items), n * 2)
    return items


# --------------------------------------------------------------------------- the generic check

def run_check(spec, tier, seed, replay=None):
    """spec: a module with PID, GENS, DRIVERS, PROPS, correspond(ctx, drivers), search(ctx),
    optional replay_known(ctx, finding) -> bool, classify is done by search via ctx.witness(key,...)."""
    pid = spec.PID
    ctx = Ctx(pid, tier, seed)
    import_impl()
    checker_cmd = f"cd lean && lake build {' '.join(spec.DRIVERS)} {spec.PROPS} && lake env lean <#print axioms of every {pid}_ theorem>"
    drivers_ok = True
    obligations = discharged = 0
    try:
        # 1. translator + build
        with BuildLock():
            ex = extract(spec.GENS)
            for g, r in ex.items():
                if not r.get('ok'):
                    ctx.broken.append(f'extract:{g}: {r.get("error", "")[:300]}')
            ch = [g for g, r in ex.items() if r.get('changed')]
            ok_d, log_d, dt_d = lake_build(spec.DRIVERS)
            if not ok_d:
                drivers_ok = False
                ctx.broken.append('build:drivers: ' + '; '.join(failing_theorems(log_d)) or log_d[-300:])
            ok_p, log_p, dt_p = lake_build([spec.PROPS] + list(getattr(spec, 'EXTRA_PROPS', [])))
            if not ok_p:
                ft = failing_theorems(log_p)
                ctx.broken.append('build:props: ' + ('; '.join(ft) if ft else log_p[-400:]))
            ctx.log(f"extract: {len(ch)} Gen file(s) changed {ch}; lake build: drivers {'ok' if ok_d else 'FAILED'} ({dt_d:.1f}s), props {'ok' if ok_p else 'FAILED'} ({dt_p:.1f}s)")
            # 2. audit
            thms = []
            if ok_p:
                aok, axioms, alog, thms = audit_axioms(spec.PROPS, pid)
                ctx.extra['theorems'] = thms
                ctx.extra['axioms'] = {k: v for k, v in axioms.items()}
                if not aok:
                    bad = {t: a for t, a in axioms.items() if not set(a) <= ALLOWED_AXIOMS}
                    missing = [t for t in thms if t not in axioms]
                    ctx.broken.append(f'audit: disallowed axioms {bad} missing {missing} {alog[-300:] if not axioms else ""}')
            else:
                try:
                    thms = property_theorems(spec.PROPS)
                except OSError:
                    thms = []
            drv_mods = []
            lf = (LEAN / 'lakefile.toml').read_text()
            for d in spec.DRIVERS:
                mm = re.search(r'name = "%s"\s*\nroot = "([^"]+)"' % re.escape(d), lf)
                if mm:
                    drv_mods.append(mm.group(1))
            fb = forbidden_tokens([spec.PROPS] + list(getattr(spec, 'EXTRA_PROPS', [])) + drv_mods)
            ctx.extra['audited_files'] = len(import_closure([spec.PROPS] + drv_mods))
            if fb:
                ctx.broken.append('audit: forbidden tokens: ' + '; '.join(fb[:10]))
            if tier == 'thorough' and ok_p:
                rc, out, dt = _run(['lake', 'env', 'leanchecker', spec.PROPS], cwd=LEAN, timeout=1800)
                ctx.extra['leanchecker'] = {'rc': rc, 'wall_s': round(dt, 1), 'tail': out[-300:]}
                if rc != 0:
                    ctx.broken.append('leanchecker: ' + out[-300:])
            n_thm = len([t for t in thms if t.split('.')[-1].startswith(pid + '_')])
            obligations = n_thm + 2   # + forbidden-token audit + axiom audit
            discharged = (n_thm if ok_p else 0) + (0 if fb else 1) + (1 if ok_p and not any(b.startswith('audit: disallowed') for b in ctx.broken) else 0)
            ctx.log(f"audit: {n_thm} property theorems, axioms ⊆ allowed: {not any(b.startswith('audit') for b in ctx.broken)}")
        # 3. correspondence
        drivers = {}
        if drivers_ok:
            for d in spec.DRIVERS:
                drivers[d] = Driver(d)
            spec.correspond(ctx, drivers)
            ctx.log(f"correspondence: {ctx.evaluations} cases, {len(ctx._distinct)} distinct non-trivial, {len(ctx.disagreements)} disagreements")
        else:
            ctx.notes.append('drivers could not be built: correspondence skipped, direct search only')
        # 4. direct search on the implementation
        spec.search(ctx)
        ctx.log(f"search on implementation: {len(ctx.witnesses)} failing input(s)")
    except Timeout as e:
        ctx.log(f'TIMEOUT: {e}')
        return 2
    except InternalError as e:
        ctx.log(f'INTERNAL ERROR: {e}')
        return 2
    # 5. known findings
    known = load_known(pid)
    open_keys = {k['key']: k for k in known if k.get('status') == 'open'}
    printed = set()
    for k in open_keys.values():
        still = None
        if hasattr(spec, 'replay_known'):
            try:
                still = spec.replay_known(ctx, k)
            except Exception as e:
                still = None
                ctx.notes.append(f'replay_known({k["key"]}) raised {type(e).__name__}: {e}')
        if still or still is None:
            print(f"KNOWN-FINDING: property={pid} {k['what']}", flush=True)
            printed.add(k['key'])
        else:
            ctx.notes.append(f"known finding {k['key']} no longer reproduces")
    new = [w for w in ctx.witnesses if w['key'] not in open_keys]
    rc = 0
    if new:
        w = new[0]
        path = write_replay(ctx, {'property': pid, 'kind': 'failing-input', 'what': w['what'], 'key': w['key'],
                                  'input': w['input'], 'seed': seed, 'tier': tier,
                                  'other_witnesses': new[1:6], 'broken': ctx.broken,
                                  'disagreements': ctx.disagreements[:5]})
        print(f'[{pid}] {w["what"]}')
        print(f'VIOLATION property={pid} replay={path}', flush=True)
        rc = 1
    elif ctx.broken or ctx.disagreements:
        path = write_replay(ctx, {'property': pid, 'kind': 'obligation-or-correspondence-broken',
                                  'broken_obligations': ctx.broken,
                                  'disagreements': ctx.disagreements[:10], 'seed': seed, 'tier': tier,
                                  'note': 'no input violating the property was found on the implementation; the listed theorem / correspondence case no longer checks'})
        for b in ctx.broken[:5]:
            print(f'[{pid}] broken: {b[:300]}')
        for d in ctx.disagreements[:3]:
            print(f'[{pid}] disagreement: {json.dumps(d, default=str)[:400]}')
        print(f'VIOLATION property={pid} replay={path} no-failing-input-found', flush=True)
        rc = 1
    write_evidence(ctx, spec, obligations, discharged, checker_cmd, len(new) + (1 if rc and not new else 0))
    ctx.log(f'evidence written: evidence/{pid}.json (obligations {obligations} / discharged {discharged}); exit {rc}')
    return rc
