"""C02 — escape_text and the tokenizer are exact inverses on every string."""
import itertools
from common import codes, uncodes
import tokutil

PID = 'C02'
GENS = ['tok']
DRIVERS = ['drv_tok']
PROPS = 'Srctools.Props.C02'
RULE = ("exhaustive: all strings of length <= L over the 17-symbol alphabet SIGMA17 in both escape modes "
        "(L=4 quick, 5 thorough) and of length <= 4 over the 13-symbol alphabet SIGMA_LB (Unicode line-boundary and blank characters, NUL); random: strings over all Unicode scalar values (length <= 200) and over SIGMA17 "
        "(length <= 40), plain and embedded after/before other tokens under random tokenizer options with "
        "allow_escapes=True. A case = (string, multiline[, prefix, suffix, options]); non-trivial = contains at "
        "least one character that escape_text rewrites or that is special to the tokenizer; distinct by content.")
TRUSTED = ["model: Tok.escapeText / Tok.handleString / Tok.nextToken (lean/Srctools/Model/Tok.lean), tables regenerated "
           "from tokenizer.py by tools/gen_tok.py; the regex alternation of single characters is modelled as a "
           "character-wise substitution (compared exhaustively with re.sub here)",
           "_tokenizer.pyx (Cython twin) control flow is not covered; only BARE_DISALLOWED is tied statically"]
NOT_MODELLED = ['_tokenizer.pyx control flow']
ASSUMPTIONS = ['str.casefold is not involved (no directives in these inputs)']

SIGMA17 = ['\\', '"', "'", '\r', '\n', '\t', '\v', '\b', '\f', '\a', '?', '/', 'n', 'a', ' ', '\u00e9', '\U0001F600']
SPECIAL = set('\\"\'\r\n\t\v\b\f\a?/')
# every character str.splitlines()/str.isspace()-style library shortcuts treat as a line boundary or blank,
# plus the characters next to the escape symbols: a second, smaller exhaustive alphabet
SIGMA_LB = ['\n', '\r', '\\', '"', 'a', '\x1c', '\x1d', '\x1e', '\x85', '\u2028', '\u2029', '\x00', '\xa0']


def _rand_scalar(rng):
    while True:
        c = rng.choice([rng.randrange(0, 0x80), rng.randrange(0, 0x800), rng.randrange(0, 0x110000)])
        if not 0xD800 <= c <= 0xDFFF:
            return chr(c)


def gen_strings(ctx):
    L = ctx.budget(4, 5)
    for n in range(0, L + 1):
        for t in itertools.product(SIGMA17, repeat=n):
            yield ''.join(t)
    for n in range(1, 5):
        for t in itertools.product(SIGMA_LB, repeat=n):
            yield ''.join(t)


def gen_random(ctx, n):
    rng = ctx.rng
    for _ in range(n):
        r = rng.random()
        if r < 0.15:
            yield ''.join(rng.choice(SIGMA_LB + SIGMA17) for _ in range(rng.randrange(0, 41)))
        elif r < 0.5:
            yield ''.join(rng.choice(SIGMA17) for _ in range(rng.randrange(0, 41)))
        else:
            k = rng.randrange(0, 201)
            yield ''.join(rng.choice(SIGMA17) if rng.random() < 0.3 else _rand_scalar(rng) for _ in range(k))


PREFIXES = ['', 'key ', '"k" ', '\t"a\\"b" ', '{\n', '// c\n', 'x=']
SUFFIXES = ['', ' "v"\n', '\n}', ' [flag]', ' // tail', ',y', '\r\n"next"']


def _check_impl(ctx, s, ml, esc, r):
    """The property itself, on implementation results."""
    expect_line = 1 + (esc.count('\n'))
    want = {'toks': [[1, codes(s), expect_line], [0, [], expect_line]], 'err': None}
    case = {'s': codes(s), 'multiline': ml}
    if tokutil.strip_exc(r) != want or r.get('exc'):
        ctx.witness('inverse', f'tokenizing "\\"" + escape_text(s, {ml}) + "\\"" does not give back s = {s!r}: got {r}', case)
    # raw quote scan (left to right, backslash consumes the next character)
    i = 0
    while i < len(esc):
        if esc[i] == '\\':
            i += 2
            continue
        if esc[i] == '"':
            ctx.witness('raw-quote', f'escape_text({s!r}, {ml}) contains a raw double quote: {esc!r}', case)
            break
        i += 1
    if not ml and '\n' in esc:
        ctx.witness('raw-lf', f'escape_text({s!r}, False) contains a raw line feed: {esc!r}', case)
    if '\r' in esc:
        ctx.witness('raw-cr', f'escape_text({s!r}, {ml}) contains a raw carriage return: {esc!r}', case)


def correspond(ctx, drivers):
    from srctools.tokenizer import Tokenizer, TokenSyntaxError, escape_text
    drv = drivers['drv_tok']
    plain = list(gen_strings(ctx)) + list(gen_random(ctx, ctx.budget(20000, 300000)))
    rng0 = ctx.rng
    ctx.exhaustive = False
    ctx.extra['exhaustive_part'] = f'all strings of length <= {ctx.budget(4, 5)} over SIGMA17, both modes'
    reqs, meta = [], []
    for s in plain:
        # the order of the two modes is random per string, so a result that depends on the previous
        # call (memoisation keyed on the text only, shared scratch state) shows up either way round
        for ml in ((False, True) if rng0.random() < 0.5 else (True, False)):
            esc = escape_text(s, ml)
            text = '"' + esc + '"'
            r = tokutil.impl_run(Tokenizer, TokenSyntaxError, text, tokutil.DEFAULT_OPTS, max_calls=8)
            _check_impl(ctx, s, ml, esc, r)
            reqs.append({'op': 'escape', 'ml': ml, 's': codes(s)})
            reqs.append({'op': 'run', 'opts': tokutil.DEFAULT_OPTS, 's': codes(text), 'fold': []})
            meta.append((s, ml, esc, r))
            ctx.case({'s': codes(s), 'ml': ml}, nontrivial=bool(SPECIAL & set(s)), sample_every=9973)
            ctx.count('len=%d' % min(len(s), 6) if len(s) < 6 else 'len>=6')
    # embedded in larger lines, random options (escapes on)
    rng = ctx.rng
    emb = []
    pool = plain[-2000:] + [s for s in plain[:6000:7]]
    for _ in range(ctx.budget(6000, 60000)):
        s = rng.choice(pool)
        ml = rng.random() < 0.5
        opts = [rng.random() < 0.5 for _ in range(7)]
        opts[2] = True
        pre, suf = rng.choice(PREFIXES), rng.choice(SUFFIXES)
        text = pre + '"' + escape_text(s, ml) + '"' + suf
        r = tokutil.impl_run(Tokenizer, TokenSyntaxError, text, opts, max_calls=len(text) + 4)
        emb.append((s, ml, opts, pre, suf, r))
        reqs.append({'op': 'run', 'opts': opts, 's': codes(text), 'fold': tokutil.fold_table(text)})
        ctx.case({'s': codes(s), 'ml': ml, 'pre': pre, 'suf': suf, 'opts': opts}, nontrivial=bool(SPECIAL & set(s)), sample_every=997)
        ctx.count('embedded')
        # property on impl: the string token with value s appears right after the prefix tokens
        pr = tokutil.impl_run(Tokenizer, TokenSyntaxError, pre, opts, max_calls=len(pre) + 4)
        npre = len(pr['toks']) - 1
        if pr['err'] is None and not (len(r['toks']) > npre and r['toks'][npre][0] == 1 and r['toks'][npre][1] == codes(s)):
            ctx.witness('inverse-embedded', f'embedded escape_text({s!r},{ml}) after {pre!r} not read back as one STRING token', {'s': codes(s), 'multiline': ml, 'pre': pre, 'suf': suf, 'opts': opts})
    # history independence: the same calls again, in another order and on fresh tokenizers, must give the
    # same answers as the first time (anything else is a dependence on earlier calls)
    sample = meta[::max(1, len(meta) // 4000)]
    for (s, ml, esc, r) in reversed(sample):
        esc2 = escape_text(s, ml)
        r2 = tokutil.impl_run(Tokenizer, TokenSyntaxError, '"' + esc2 + '"', tokutil.DEFAULT_OPTS, max_calls=8)
        ctx.count('history-recheck')
        if esc2 != esc or r2 != r:
            ctx.disagree({'s': codes(s), 'ml': ml}, {'first': [codes(esc), r], 'again': [codes(esc2), r2]}, 'same call, same answer', 'history independence')
            _check_impl(ctx, s, ml, esc2, r2)
    replies = drv.batch(reqs)
    it = iter(replies)
    for (s, ml, esc, r) in meta:
        m_esc = next(it); m_run = next(it)
        if m_esc.get('r') != codes(esc):
            ctx.disagree({'s': codes(s), 'ml': ml}, codes(esc), m_esc, 'escape_text')
        if tokutil.strip_exc(r) != m_run or r.get('exc'):
            ctx.disagree({'s': codes(s), 'ml': ml}, r, m_run, 'tokenize quoted escape_text')
        ctx.traces_vs_impl += 1
    for (s, ml, opts, pre, suf, r) in emb:
        m_run = next(it)
        if tokutil.strip_exc(r) != m_run or r.get('exc'):
            ctx.disagree({'s': codes(s), 'ml': ml, 'pre': pre, 'suf': suf, 'opts': opts}, r, m_run, 'tokenize embedded')
        ctx.traces_vs_impl += 1


def search(ctx):
    """The direct oracle already ran inside correspond (same inputs). If the driver could not be built,
    run the oracle alone; also re-test neighbours of disagreeing inputs."""
    from srctools.tokenizer import Tokenizer, TokenSyntaxError, escape_text
    extra = []
    if ctx.evaluations == 0:
        extra = list(gen_strings(ctx)) + list(gen_random(ctx, 20000))
    for d in ctx.disagreements[:20]:
        s = uncodes(d['case']['s'])
        extra += [s, s + s, s[:1], s[-1:]] + [s[:i] + s[i + 1:] for i in range(len(s))]
    for s in extra:
        for ml in (False, True):
            try:
                esc = escape_text(s, ml)
                r = tokutil.impl_run(Tokenizer, TokenSyntaxError, '"' + esc + '"', tokutil.DEFAULT_OPTS, max_calls=8)
            except Exception as e:
                ctx.witness('inverse', f'escape_text/tokenize raised {type(e).__name__}: {e} for {s!r}', {'s': codes(s), 'multiline': ml})
                continue
            _check_impl(ctx, s, ml, esc, r)
    # shrink the first witness
    if ctx.witnesses:
        w = ctx.witnesses[0]
        s = uncodes(w['input']['s']); ml = w['input']['multiline']
        def fails(chars):
            t = ''.join(chars)
            try:
                esc = escape_text(t, ml)
                r = tokutil.impl_run(Tokenizer, TokenSyntaxError, '"' + esc + '"', tokutil.DEFAULT_OPTS, max_calls=8)
            except Exception:
                return True
            return tokutil.strip_exc(r)['toks'][:1] != [[1, codes(t), 1 + esc.count('\n')]] or r['err'] is not None or '\r' in esc or (not ml and '\n' in esc)
        if len(s) > 1 and fails(list(s)):
            from common import ddmin
            small = ''.join(ddmin(list(s), fails))
            w['input']['shrunk'] = codes(small)
            w['what'] += f' (shrunk to {small!r})'


def replay(ctx, payload):
    from srctools.tokenizer import Tokenizer, TokenSyntaxError, escape_text
    inp = payload.get('input') or {}
    if 's' not in inp:
        print('replay file names a broken obligation/correspondence, no input to replay:', payload.get('broken_obligations'), payload.get('disagreements', [])[:1])
        return False
    s = uncodes(inp.get('shrunk') or inp['s']); ml = inp['multiline']
    esc = escape_text(s, ml)
    r = tokutil.impl_run(Tokenizer, TokenSyntaxError, '"' + esc + '"', tokutil.DEFAULT_OPTS, max_calls=8)
    n0 = len(ctx.witnesses)
    _check_impl(ctx, s, ml, esc, r)
    print('input', repr(s), 'multiline', ml, 'escaped', repr(esc), 'tokens', r)
    return len(ctx.witnesses) == n0

LEVEL_TEXT = ("Theorems C02_inverse / C02_whole / C02_sequence (any number of padded quoted strings on a line) / C02_no_raw_quote / C02_single_line are proved in Lean for every string, "
              "both modes, any surrounding text and any tokenizer state, for every escape table satisfying a decidable "
              "predicate; C02_gen_ok re-checks that predicate on the tables regenerated from tokenizer.py on every run. "
              "The control flow of _handle_string/escape_text is tied by an exhaustive (length<=4/5 over 17 symbols) and "
              "random differential run of model vs implementation.")
LEVEL_NOTE = ("Trusted: Lean kernel + propext/Classical.choice/Quot.sound; tools/gen_tok.py; the correspondence harness. "
              "Modelled not verified: CPython re/str; the Cython twin _tokenizer.pyx is not covered.")
TECHNIQUE = "Lean 4 proof by induction over the string, generic in the extracted escape table; translator + exhaustive differential correspondence"
DESIGN_REF = "DESIGN.md section 6, C02"
