"""C12 instrumentation: intercept every file-system mutation below a sandbox directory.

No source hooks: `io.open`/`builtins.open`, `os.replace/rename/unlink/remove/mkdir/rmdir/truncate/link/symlink`
are monkey-patched while a `Tracer` is installed (pathlib's `Path.open/replace/unlink/mkdir` resolve
`io.open`/`os.*` at call time, so they are covered, as is any rewrite that uses `open`/`os` directly).
File objects opened for writing below the sandbox are wrapped in `TracedFile`, which makes
`write`/`seek`/`close` operation boundaries too.

At every boundary the tracer calls `hook(tracer, wid, index, op, name, arg)` *before* the operation is
performed.  The hook may
  * return None            – the operation is performed,
  * raise an OSError       – the operation is NOT performed and the error propagates into the code under test,
  * call os._exit          – the process dies at this boundary (used in forked children),
  * block                  – lock-step scheduling of several writer threads (`LockStep`).
Events are `[wid, op, name, arg, res]` with res in ok/eexist/enoent/err.
"""
from __future__ import annotations
import builtins, io, os, codecs, threading, errno

_REAL = {}
_PATCHED = ['replace', 'rename', 'unlink', 'remove', 'mkdir', 'rmdir', 'truncate', 'link', 'symlink']


def res_of(exc):
    if exc is None:
        return 'ok'
    if isinstance(exc, FileExistsError):
        return 'eexist'
    if isinstance(exc, FileNotFoundError):
        return 'enoent'
    if isinstance(exc, OSError):
        return 'err'
    return 'exc:' + type(exc).__name__


def make_fault(kind, name=''):
    if kind == 'eexist':
        return FileExistsError(errno.EEXIST, 'injected: file exists', name)
    if kind == 'enoent':
        return FileNotFoundError(errno.ENOENT, 'injected: no such file', name)
    if kind == 'eio':
        return OSError(errno.EIO, 'injected: I/O error', name)
    if kind == 'enospc':
        return OSError(errno.ENOSPC, 'injected: no space left on device', name)
    if kind == 'eperm':
        return PermissionError(errno.EACCES, 'injected: permission denied', name)
    raise ValueError(kind)


class TracedFile:
    """Proxy of a file object opened for writing inside the sandbox."""

    def __init__(self, tracer, real, name, text, encoding):
        self._t, self._f, self._name = tracer, real, name
        self._enc = codecs.getincrementalencoder(encoding or 'utf8')() if text else None
        self._wid = tracer.wid()

    # -- boundaries
    def write(self, data):
        raw = self._enc.encode(data) if self._enc is not None else bytes(data)
        t = self._t

        def do():
            n = self._f.write(data)
            if t.flush:
                self._f.flush()
            return n
        r = t.op('write', self._name, len(raw), do)
        t.script_add(self._name, ('w', raw))
        return r

    def writelines(self, lines):
        for l in lines:
            self.write(l)

    def seek(self, off, whence=0):
        if whence == 0:
            target = off
        elif whence == 1:
            target = self._f.tell() + off
        else:
            cur = self._f.tell()
            end = self._f.seek(0, 2)
            self._f.seek(cur)
            target = end + off
        r = self._t.op('seek', self._name, target, lambda: self._f.seek(off, whence))
        self._t.script_add(self._name, ('s', target))
        return r

    def truncate(self, size=None):
        return self._t.op('truncate', self._name, -1 if size is None else size, lambda: self._f.truncate(size))

    def close(self):
        if self._f.closed:
            return None
        def do():
            return self._f.close()
        def failed():
            # a real close that fails to flush still releases the descriptor
            try:
                self._f.close()
            except Exception:
                pass
        return self._t.op('close', self._name, 0, do, on_fault=failed)

    # -- plain delegation
    def __enter__(self):
        if self._f.closed:
            raise ValueError('I/O operation on closed file.')
        return self

    def __exit__(self, *a):
        self.close()

    def flush(self):
        return self._f.flush()

    def tell(self):
        return self._f.tell()

    @property
    def closed(self):
        return self._f.closed

    @property
    def name(self):
        return self._f.name

    def __getattr__(self, k):
        return getattr(self._f, k)


class Tracer:
    def __init__(self, root, flush=True, hook=None):
        self.root = os.path.realpath(root)
        self.flush = flush
        self.hook = hook
        self.events = []
        self.scripts = {}          # name -> [('w', bytes) | ('s', pos)]
        self.counts = {}           # wid -> boundaries seen
        self._local = threading.local()
        self._lock = threading.Lock()
        self.active = False

    # which writer the current thread is
    def wid(self):
        return getattr(self._local, 'wid', 0)

    def set_wid(self, w):
        self._local.wid = w

    def rel(self, path):
        """Name relative to the sandbox root ('.' = the root), None if outside / not a path."""
        if not self.active or isinstance(path, int):
            return None
        try:
            p = os.path.abspath(os.fspath(path))
        except TypeError:
            return None
        if isinstance(p, bytes):
            p = os.fsdecode(p)
        if p == self.root:
            return '.'
        if p.startswith(self.root + os.sep):
            return p[len(self.root) + 1:]
        return None

    def script_add(self, name, item):
        self.scripts.setdefault(name, []).append(item)

    def op(self, op, name, arg, do, on_fault=None):
        w = self.wid()
        with self._lock:
            idx = self.counts.get(w, 0)
            self.counts[w] = idx + 1
        if self.hook is not None:
            try:
                self.hook(self, w, idx, op, name, arg)
            except OSError as e:
                if on_fault is not None:
                    on_fault()
                self.events.append([w, op, name, arg, res_of(e)])
                raise
        try:
            r = do()
        except BaseException as e:
            self.events.append([w, op, name, arg, res_of(e)])
            raise
        self.events.append([w, op, name, arg, 'ok'])
        return r

    # ---- patched entry points
    def _open(self, real):
        def opener(file, mode='r', buffering=-1, encoding=None, errors=None, newline=None, closefd=True, opener=None):
            name = self.rel(file)
            if name is None or not (set(mode) & set('wax+')):
                return real(file, mode, buffering, encoding, errors, newline, closefd, opener)
            kind = 'create' if 'x' in mode else 'open-' + ''.join(sorted(set(mode) - set('bt')))
            text = 'b' not in mode
            f = self.op(kind, name, 0, lambda: real(file, mode, buffering, encoding, errors, newline, closefd, opener))
            return TracedFile(self, f, name, text, encoding)
        return opener

    def _two(self, opname, real):
        def f(src, dst, *a, **k):
            s, d = self.rel(src), self.rel(dst)
            if s is None and d is None:
                return real(src, dst, *a, **k)
            return self.op(opname, s if s is not None else os.fspath(src), d if d is not None else os.fspath(dst),
                           lambda: real(src, dst, *a, **k))
        return f

    def _one(self, opname, real):
        def f(path, *a, **k):
            n = self.rel(path)
            if n is None:
                return real(path, *a, **k)
            return self.op(opname, n, 0, lambda: real(path, *a, **k))
        return f

    def __enter__(self):
        if _REAL:
            raise RuntimeError('a Tracer is already installed')
        _REAL['io.open'] = io.open
        _REAL['builtins.open'] = builtins.open
        for n in _PATCHED:
            _REAL['os.' + n] = getattr(os, n)
        io.open = self._open(_REAL['io.open'])
        builtins.open = self._open(_REAL['builtins.open'])
        os.replace = self._two('replace', _REAL['os.replace'])
        os.rename = self._two('replace', _REAL['os.rename'])
        os.link = self._two('link', _REAL['os.link'])
        os.symlink = self._two('symlink', _REAL['os.symlink'])
        os.unlink = self._one('unlink', _REAL['os.unlink'])
        os.remove = self._one('unlink', _REAL['os.remove'])
        os.mkdir = self._one('mkdir', _REAL['os.mkdir'])
        os.rmdir = self._one('rmdir', _REAL['os.rmdir'])
        os.truncate = self._one('truncate', _REAL['os.truncate'])
        self.active = True
        return self

    def __exit__(self, *a):
        self.active = False
        io.open = _REAL['io.open']
        builtins.open = _REAL['builtins.open']
        for n in _PATCHED:
            setattr(os, n, _REAL['os.' + n])
        _REAL.clear()
        return False

    # un-instrumented access for the harness itself while installed
    def paused(self):
        t = self

        class P:
            def __enter__(s):
                s.prev = t.active
                t.active = False

            def __exit__(s, *a):
                t.active = s.prev
        return P()


def snapshot(root):
    """{name: bytes} of the regular files directly in root (directories are listed as None)."""
    out = {}
    for n in sorted(os.listdir(root)):
        p = os.path.join(root, n)
        if os.path.isdir(p):
            out[n] = None
        else:
            with io.open(p, 'rb') as f:
                out[n] = f.read()
    return out


class LockStep:
    """Lock-step execution of several writer threads: a thread parks at each operation boundary and
    performs the pending operation only when the scheduler grants it the turn."""

    def __init__(self, n, timeout=20.0):
        self.cv = threading.Condition()
        self.state = ['running'] * n      # running | parked | done
        self.grant = None
        self.timeout = timeout
        self.abort = False

    def park(self, wid):
        with self.cv:
            self.state[wid] = 'parked'
            self.cv.notify_all()
            ok = self.cv.wait_for(lambda: self.grant == wid or self.abort, self.timeout)
            self.state[wid] = 'running'
            if self.abort or not ok:
                raise SystemExit('lock-step aborted')
            self.grant = None

    def finish(self, wid):
        with self.cv:
            self.state[wid] = 'done'
            self.cv.notify_all()

    def settle(self):
        """Wait until no thread is running; returns the list of parked writer ids."""
        with self.cv:
            if not self.cv.wait_for(lambda: 'running' not in self.state, self.timeout):
                raise TimeoutError('lock-step: a writer did not reach a boundary')
            return [i for i, s in enumerate(self.state) if s == 'parked']

    def step(self, wid):
        with self.cv:
            self.grant = wid
            self.cv.notify_all()
            if not self.cv.wait_for(lambda: self.grant is None and self.state[wid] != 'running', self.timeout):
                raise TimeoutError('lock-step: the granted writer did not come back')

    def release_all(self):
        with self.cv:
            self.abort = True
            self.cv.notify_all()
