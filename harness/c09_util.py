"""C09 helpers: id-walk of implementation objects into the heap model's store, labelled trees,
generators of map objects, in-place mutators, export snapshots."""
import io, re, array, enum, warnings, copy as _copy

BUILTIN = {'list': 1000, 'set': 1001, 'dict': 1002, 'array': 1003, 'Vec': 1004, 'Angle': 1005, 'Matrix': 1006,
           'tuple': 1007, 'FrozenVec': 1008, 'FrozenAngle': 1009, 'FrozenMatrix': 1010, 'Vec4': 1011}
BUILTIN_NAME = {v: k for k, v in BUILTIN.items()}
IMMUTABLE_CODES = {1007, 1008, 1009, 1010, 1011}
RESET_ID_CLASSES = {'Entity', 'Solid', 'Side', 'VisGroup', 'EntityGroup'}
MAT_SLOTS = ['_aa', '_ab', '_ac', '_ba', '_bb', '_bc', '_ca', '_cb', '_cc']
FUEL = 48


class M:
    """The implementation's modules (imported lazily, after common.import_impl())."""
    _m = None

    @classmethod
    def get(cls):
        if cls._m is None:
            import srctools.vmf as vmf, srctools.keyvalues as kvm, srctools.math as smath
            cls._m = (vmf, kvm, smath)
        return cls._m


class Walker:
    """Assigns a location to every object (by identity, in discovery order) and serialises the current
    state of all known objects as a store for the model driver. Keeps the objects alive."""

    def __init__(self, table):
        self.table = table          # class name -> [field names]   (from the driver's Gen.Copy table)
        self.loc = {}               # id(obj) -> loc
        self.objs = []              # loc -> obj
        self.atoms = {}             # key -> int
        self.atom_list = []

    # -- classification
    def atom(self, v):
        if type(v).__name__ == 'VMF':
            key = ('ctx',)
        elif isinstance(v, enum.Enum):
            key = ('enum', type(v).__name__, repr(v.value))
        elif isinstance(v, float):
            key = ('float', repr(v))
        elif isinstance(v, re.Pattern):
            key = ('pattern', v.pattern, v.flags)
        else:
            key = (type(v).__name__, repr(v))
        i = self.atoms.get(key)
        if i is None:
            i = self.atoms[key] = len(self.atom_list)
            self.atom_list.append(key)
        return i

    def is_atom(self, v):
        vmf = M.get()[0]
        return v is None or isinstance(v, (bool, int, float, str, bytes, enum.Enum, re.Pattern, vmf.VMF)) \
            or callable(v) and not hasattr(v, '__slots__') and type(v).__name__ in ('function', 'builtin_function_or_method')

    def cls_of(self, o):
        """-> (class tag for the wire, mutable?)"""
        vmf, kvm, sm = M.get()
        n = type(o).__name__
        if n in self.table:
            return n, True
        if isinstance(o, dict): return BUILTIN['dict'], True
        if isinstance(o, list): return BUILTIN['list'], True
        if isinstance(o, (set, frozenset)): return BUILTIN['set'], not isinstance(o, frozenset)
        if isinstance(o, array.array): return BUILTIN['array'], True
        if isinstance(o, tuple): return BUILTIN['tuple'], False
        if n in BUILTIN:
            return BUILTIN[n], BUILTIN[n] not in IMMUTABLE_CODES
        raise TypeError(f'C09 walker: unknown object type {type(o)!r}')

    def fields_of(self, o):
        """-> [(field tag, python value)]"""
        vmf, kvm, sm = M.get()
        n = type(o).__name__
        if n in self.table:
            names = list(self.table[n])
            have = []
            for c in type(o).__mro__:
                have += [s for s in getattr(c, '__slots__', ()) if not s.startswith('__')]
            have += list(getattr(o, '__dict__', {}).keys())
            for extra in have:
                if extra not in names:
                    names.append(extra)
            out = []
            for f in names:
                try:
                    v = getattr(o, f)
                except AttributeError:
                    v = '<unset>'
                if f == 'id' and n in RESET_ID_CLASSES:
                    v = '<id>'
                out.append((f, v))
            return out
        if isinstance(o, dict):
            res = []
            for k, v in o.items():
                if not self.is_atom(k):
                    raise TypeError('dict key is not an atom')
                res.append((self.atom(k), v))
            return res
        if isinstance(o, (list, tuple, array.array)):
            return list(enumerate(o))
        if isinstance(o, (set, frozenset)):
            for v in o:
                if not self.is_atom(v):
                    raise TypeError('set element is not an atom')
            return list(enumerate(sorted(o, key=repr)))
        if isinstance(o, sm.VecBase):
            return [(0, o.x), (1, o.y), (2, o.z)]
        if isinstance(o, sm.AngleBase):
            return [(0, o.pitch), (1, o.yaw), (2, o.roll)]
        if isinstance(o, sm.MatrixBase):
            return [(i, getattr(o, s)) for i, s in enumerate(MAT_SLOTS)]
        if isinstance(o, vmf.Vec4):
            return [(0, o.x), (1, o.y), (2, o.z), (3, o.w)]
        raise TypeError(f'C09 walker: no field list for {type(o)!r}')

    # -- walking
    def add(self, o):
        """Register `o` and everything reachable from it; returns its location."""
        stack = [o]
        first = None
        while stack:
            x = stack.pop()
            if id(x) in self.loc:
                continue
            self.loc[id(x)] = len(self.objs)
            self.objs.append(x)
            kids = [v for _, v in self.fields_of(x) if not self.is_atom(v)]
            stack.extend(reversed(kids))
        return self.loc[id(o)]

    def store(self):
        """Current state of every known object (discovers new objects on the way)."""
        out = []
        i = 0
        while i < len(self.objs):
            o = self.objs[i]
            tag, mu = self.cls_of(o)
            fs = []
            for f, v in self.fields_of(o):
                if self.is_atom(v):
                    fs.append([f, 0, self.atom(v)])
                else:
                    if id(v) not in self.loc:
                        self.add(v)
                    fs.append([f, 1, self.loc[id(v)]])
            out.append([tag, 1 if mu else 0, fs])
            i += 1
        return out

    def reach(self, o):
        """[objects] reachable from o (including o)."""
        seen, order, stack = set(), [], [o]
        while stack:
            x = stack.pop()
            if id(x) in seen:
                continue
            seen.add(id(x))
            order.append(x)
            stack.extend(v for _, v in self.fields_of(x) if not self.is_atom(v))
        return order

    def lab(self, o, k, fuel=FUEL):
        """Labelled tree of `o` in the driver's format; label = loc when the object was known with loc < k."""
        if fuel == 0:
            return 'cut'
        tag, mu = self.cls_of(o)
        l = self.loc.get(id(o), None)
        kids = []
        for f, v in self.fields_of(o):
            kids.append([f, self.atom(v) if self.is_atom(v) else self.lab(v, k, fuel - 1)])
        return [tag, l if (l is not None and l < k) else -1, mu, kids]


def strip_labels(t):
    if isinstance(t, list):
        return [t[0], -1, t[2], [[f, strip_labels(s)] for f, s in t[3]]]
    return t


def diff_tree(a, b, path=''):
    """First difference between two labelled trees -> (path, a_part, b_part) or None.  A model atom -1
    (`missing`) in `a` matches anything."""
    if a == -1 and not isinstance(a, bool):
        return None
    if isinstance(a, list) != isinstance(b, list):
        return (path, _short(a), _short(b))
    if not isinstance(a, list):
        return None if a == b else (path, a, b)
    if a[0] != b[0] or a[1] != b[1] or a[2] != b[2]:
        return (path, a[:3], b[:3])
    fa, fb = a[3], b[3]
    if [f for f, _ in fa] != [f for f, _ in fb]:
        return (path + '.<fields>', [f for f, _ in fa][:12], [f for f, _ in fb][:12])
    for (f, x), (_, y) in zip(fa, fb):
        d = diff_tree(x, y, f'{path}.{f}')
        if d:
            return d
    return None


def _short(t):
    return t[:3] if isinstance(t, list) else t


def missing_paths(t, path=''):
    """Paths where the model tree has the `missing` atom."""
    out = []
    if isinstance(t, list):
        for f, s in t[3]:
            if s == -1 and not isinstance(s, bool):
                out.append(f'{path}.{f}')
            else:
                out += missing_paths(s, f'{path}.{f}')
    return out


# ------------------------------------------------------------------ export snapshots

_ID_LINE = re.compile(r'^(\s*)"(id|visgroupid)" "\d+"$')


def export_text(o, normalise_ids=False):
    """The exported text of one map object (the property's observation)."""
    vmf, kvm, sm = M.get()
    buf = io.StringIO()
    with warnings.catch_warnings():
        warnings.simplefilter('ignore')
        if isinstance(o, kvm.Keyvalues):
            if o._folded_name is None and not isinstance(o._value, list):
                txt = f'<leaf-root {o._value!r}>'
            else:
                txt = ''.join(o.export())
        elif isinstance(o, vmf.Entity):
            o.export(buf); txt = buf.getvalue()
        elif isinstance(o, (vmf.Solid, vmf.Side, vmf.VisGroup, vmf.Camera, vmf.Cordon)):
            o.export(buf, ''); txt = buf.getvalue()
        elif isinstance(o, vmf.EntityGroup):
            o.export(buf, ''); txt = buf.getvalue()
        elif isinstance(o, vmf.Output):
            txt = o.as_keyvalue()
        elif isinstance(o, vmf.EntityFixup):
            o.export(buf, ''); txt = buf.getvalue()
        elif isinstance(o, vmf.UVAxis):
            txt = str(o)
        else:
            raise TypeError(f'no export for {type(o)!r}')
    lines = txt.split('\n')
    # ids are fresh by design; sets are unordered
    out, run = [], []
    def flush():
        out.extend(sorted(run)); run.clear()
    for ln in lines:
        st = ln.strip()
        if st.startswith('"visgroupid"') or st.startswith('"groupid"'):
            if normalise_ids and isinstance(o, vmf.VisGroup):
                ln = _ID_LINE.sub(r'\1"\2" "#"', ln)
            run.append(ln)
            continue
        flush()
        if normalise_ids and st.startswith('"id"'):
            ln = _ID_LINE.sub(r'\1"\2" "#"', ln)
        out.append(ln)
    flush()
    return '\n'.join(out)


# ------------------------------------------------------------------ generators

STRS = ['', 'a', 'Name', 'targ_1', 'x y', 'q"uote', 'back\\slash', 'tab\there', '$fix', 'ünï', '0', '-1.5', '1 2 3', '@glob', 'line\nbreak']
MATS = ['tools/toolsnodraw', 'brick/brickwall001a', 'DEV/dev_measuregeneric01', 'metal/m"x', 'nature/blend_a']
NUMS = [0, 1, -1, 2, 0.5, -0.25, 16, 64, 128, -512, 1e-3, 1024.125, 3.0, 7, 90, 360, 1 / 3]


def r_num(rng):
    return rng.choice(NUMS) if rng.random() < 0.7 else round(rng.uniform(-2048, 2048), rng.randrange(0, 4))


def r_vec(rng):
    Vec = M.get()[2].Vec
    return Vec(r_num(rng), r_num(rng), r_num(rng))


def r_str(rng):
    return rng.choice(STRS) if rng.random() < 0.6 else ''.join(rng.choice('abcXYZ_ 0123$"\\') for _ in range(rng.randrange(1, 9)))


def r_side(rng, vmf_file, power=None, planes=None):
    vmf, kvm, sm = M.get()
    if power is None:
        power = rng.choice([0, 0, 0, 1, 1, 2, 2, 3])
    planes = planes or [r_vec(rng), r_vec(rng), r_vec(rng)]
    side = vmf.Side(vmf_file, planes, -1, rng.choice([16, 8, 32, 1]), rng.choice([0, 1, 5, 1 << 20]),
                    rng.choice(MATS), r_num(rng),
                    vmf.UVAxis(r_num(rng), r_num(rng), r_num(rng), r_num(rng), rng.choice([0.25, 1, 0.5, 2])),
                    vmf.UVAxis(r_num(rng), r_num(rng), r_num(rng), r_num(rng), rng.choice([0.25, 1, 0.125])),
                    power)
    if rng.random() < 0.3:
        side.strata_points = [r_vec(rng) for _ in range(rng.randrange(3, 7))]
    if power > 0:
        side.disp_pos = r_vec(rng)
        side.disp_elevation = float(r_num(rng))
        side.disp_flags = rng.choice(list(vmf.DispFlag)[:6]) if rng.random() < 0.7 else (vmf.DispFlag.SUBDIV | vmf.DispFlag.COLL_PHYSICS)
        if rng.random() < 0.8:
            side.disp_allowed_vert = array.array('i', [rng.choice([-1, 0, 1, 7, 2 ** 31 - 1, -2 ** 31]) for _ in range(10)])
        multi = rng.random() < 0.5
        tags = list(vmf.TriangleTag)
        for vert in side._disp_verts:
            if rng.random() < 0.7:
                vert.normal = r_vec(rng)
                vert.distance = float(r_num(rng))
                vert.offset = r_vec(rng)
                vert.offset_norm = r_vec(rng)
                vert.alpha = float(rng.choice([0, 255, 127.5, 1]))
                vert.triangle_a = rng.choice(tags)
                vert.triangle_b = rng.choice(tags)
            if multi and rng.random() < 0.8:
                vert.multi_blend = vmf.Vec4(rng.random(), rng.choice([0, 1, 0.5]), r_num(rng), 1.0)
                vert.multi_alpha = vmf.Vec4(r_num(rng), 0.0, rng.random(), 0.25)
                if rng.random() < 0.8:
                    vert.multi_colors = [r_vec(rng) for _ in range(4)]
    return side


def r_solid(rng, vmf_file, max_power=3):
    vmf, kvm, sm = M.get()
    if rng.random() < 0.5:
        a = r_vec(rng)
        b = a + sm.Vec(rng.choice([1, 16, 64.5, 128]), rng.choice([2, 32, 0.25]), rng.choice([8, 64, 1024]))
        solid = vmf_file.make_prism(a, b, rng.choice(MATS)).solid
        if rng.random() < 0.5:
            i = rng.randrange(len(solid.sides))
            old = solid.sides[i]
            solid.sides[i] = r_side(rng, vmf_file, rng.randrange(1, max_power + 1), [p.copy() for p in old.planes])
    else:
        solid = vmf.Solid(vmf_file, -1, [r_side(rng, vmf_file, rng.choice([0, 0, 0, 1, 2, min(3, max_power)])) for _ in range(rng.randrange(1, 6))])
    solid.visgroup_ids = {rng.randrange(1, 40) for _ in range(rng.randrange(0, 4))}
    solid.hidden = rng.random() < 0.2
    solid.group_id = rng.choice([None, None, 3, 17])
    solid.vis_shown = rng.random() < 0.8
    solid.vis_auto_shown = rng.random() < 0.8
    solid.is_cordon = rng.random() < 0.1
    solid.editor_color = sm.Vec(rng.randrange(256), rng.randrange(256), rng.randrange(256))
    return solid


def r_output(rng):
    vmf = M.get()[0]
    return vmf.Output(rng.choice(['OnTrigger', 'OnUser1', 'OnMapSpawn', 'On"x']), r_str(rng) or 'targ', rng.choice(['Kill', 'Trigger', 'FireUser1']),
                      r_str(rng), rng.choice([0.0, 0.5, 1, 10.25]), times=rng.choice([-1, 1, 3]),
                      inst_out=rng.choice([None, None, 'rl_out']), inst_in=rng.choice([None, None, 'rl_in']),
                      comma_sep=rng.random() < 0.3)


CLASSNAMES = ['info_target', 'func_brush', 'func_instance', 'logic_relay', 'prop_static', 'Trigger_Multiple', 'light']


def r_entity(rng, vmf_file, brush=None, max_power=3):
    vmf, kvm, sm = M.get()
    keys = {'classname': rng.choice(CLASSNAMES)}
    if rng.random() < 0.7:
        keys['targetname'] = rng.choice(['a', 'Relay', 'door_1', 'x y', 'ünï'])
    for _ in range(rng.randrange(0, 6)):
        k = rng.choice(['origin', 'angles', 'model', 'spawnflags', 'message', 'Speed', 'file', 'rendercolor', 'k_' + r_str(rng)])
        keys[k] = rng.choice([r_str(rng), str(r_vec(rng)), str(rng.randrange(100)), r_vec(rng), rng.random() < 0.5, r_num(rng)])
    fix = []
    for i in range(rng.choice([0, 0, 1, 2, 4])):
        fix.append(vmf.FixupValue(rng.choice(['var', 'Start_Enabled', 'x', 'color', 'a b']) + str(i if rng.random() < 0.7 else ''),
                                  r_str(rng), rng.choice([i + 1, i + 1, 1, 12])))
    if brush is None:
        brush = rng.random() < 0.4
    solids = [r_solid(rng, vmf_file, max_power) for _ in range(rng.randrange(1, 3))] if brush else []
    ent = vmf.Entity(vmf_file, keys, fix, -1, [r_output(rng) for _ in range(rng.choice([0, 0, 1, 2, 3]))], solids,
                     rng.random() < 0.2, [rng.randrange(1, 30) for _ in range(rng.randrange(0, 3))],
                     [rng.randrange(1, 30) for _ in range(rng.randrange(0, 4))], rng.random() < 0.8, rng.random() < 0.8,
                     rng.choice([None, '[0 500]', '[100 -200]']),
                     rng.choice([(255, 255, 255), (220, 30, 220), sm.Vec(1, 2, 3)]), rng.choice(['', '', 'a comment', 'with "quote"']))
    return ent


def rich_entity(rng, vmf_file):
    """A brush entity with every optional block populated: fixups, outputs, groups, a prism with one
    multiblend displacement (non-default allowed verts) and a face with Strata point data."""
    vmf, kvm, sm = M.get()
    solid = vmf_file.make_prism(sm.Vec(0, 0, 0), sm.Vec(64, 32, 16), 'brick/brickwall001a').solid
    old = solid.sides[0]
    disp = vmf.Side(vmf_file, [p.copy() for p in old.planes], -1, 16, 0, 'nature/blend_a', 0.0,
                    old.uaxis.copy(), old.vaxis.copy(), 2)
    disp.disp_pos = sm.Vec(1, 2, 3)
    disp.disp_elevation = 4.5
    disp.disp_flags = vmf.DispFlag.SUBDIV | vmf.DispFlag.COLL_PHYSICS
    disp.disp_allowed_vert = array.array('i', [1, 2, 3, 4, 5, 6, 7, 8, 9, 10])
    for i, vert in enumerate(disp._disp_verts):
        vert.normal = sm.Vec(0, 0, 1)
        vert.distance = float(i)
        vert.offset = sm.Vec(i, 0, 0.5)
        vert.offset_norm = sm.Vec(0, 1, 0)
        vert.alpha = float(i * 10)
        vert.triangle_a = vmf.TriangleTag.WALKABLE
        vert.multi_blend = vmf.Vec4(0.25, 0.5, 0.75, 1.0)
        vert.multi_alpha = vmf.Vec4(1.0, 0.0, 0.5, 0.25)
        vert.multi_colors = [sm.Vec(1, 0, 0), sm.Vec(0, 1, 0), sm.Vec(0, 0, 1), sm.Vec(0.5, 0.5, 0.5)]
    solid.sides[0] = disp
    solid.sides[1].strata_points = [sm.Vec(0, 0, 0), sm.Vec(64, 0, 0), sm.Vec(64, 32, 0), sm.Vec(0, 32, 0)]
    solid.visgroup_ids = {3, 11}
    solid.group_id = 5
    solid.editor_color = sm.Vec(10, 20, 30)
    ent = vmf.Entity(vmf_file, {'classname': 'func_brush', 'targetname': 'Rich', 'origin': '1 2 3', 'message': 'q"uote'},
                     [vmf.FixupValue('var', 'one', 1), vmf.FixupValue('Start_Enabled', '1', 2)], -1,
                     [r_output(rng), r_output(rng)], [solid], False, [4], [3, 9], True, False, '[0 500]',
                     sm.Vec(220, 30, 220), 'a "comment"')
    return ent


def r_visgroup(rng, vmf_file, depth=0):
    vmf, kvm, sm = M.get()
    kids = [r_visgroup(rng, vmf_file, depth + 1) for _ in range(rng.randrange(0, 3 if depth < 2 else 1))]
    return vmf.VisGroup(vmf_file, rng.choice(['walls', 'Group "1"', 'x', 'auto']), -1,
                        sm.Vec(rng.randrange(256), rng.randrange(256), rng.randrange(256)), kids)


def r_group(rng, vmf_file):
    vmf, kvm, sm = M.get()
    return vmf.EntityGroup(vmf_file, -1, rng.random() < 0.7, rng.random() < 0.7, sm.Vec(rng.randrange(256), rng.randrange(256), 0))


def r_camera(rng, vmf_file):
    return M.get()[0].Camera(vmf_file, r_vec(rng), r_vec(rng))


def r_cordon(rng, vmf_file):
    return M.get()[0].Cordon(vmf_file, r_vec(rng), r_vec(rng), rng.random() < 0.5, rng.choice(['Cordon', 'c "2"', 'main']))


KVNAMES = ['a', 'B', 'Name', 'key', 'KEY', 'block', 'sub', 'x y', 'q"z', '', 'solid', '1']


def r_kv(rng, depth=0, block=None, root=False):
    """A Keyvalues tree (block unless told otherwise)."""
    kvm = M.get()[1]
    if block is None:
        block = depth < 3 and rng.random() < 0.45
    if root:
        kids = [r_kv(rng, 1) for _ in range(rng.randrange(0, 5))]
        return kvm.Keyvalues.root(*kids)
    name = rng.choice(KVNAMES)
    ln = rng.choice([None, None, rng.randrange(1, 500)])
    if block:
        return kvm.Keyvalues(name, [r_kv(rng, depth + 1) for _ in range(rng.randrange(0, 4))], ln)
    return kvm.Keyvalues(name, r_str(rng), ln)


# ------------------------------------------------------------------ in-place mutation

def brutal_mutation(walker, root, rng):
    """Mutate, in place, every mutable object reachable from `root` (type-appropriate); returns the number of
    objects touched."""
    vmf, kvm, sm = M.get()
    n = 0
    for o in walker.reach(root):
        tag, mu = walker.cls_of(o)
        if not mu:
            continue
        n += 1
        if isinstance(o, sm.Vec):
            o += sm.Vec(1, 2.5, -3)           # Vec.__iadd__ mutates in place
        elif isinstance(o, sm.Angle):
            o.yaw = o.yaw + 45.0
        elif isinstance(o, sm.Matrix):
            o[0, 0] = o[0, 0] + 1.0
        elif isinstance(o, list):
            if o:
                o.append(o[0])
                o[0] = o[-2] if len(o) > 2 else o[0]
                if len(o) > 3 and rng.random() < 0.5:
                    del o[1]
        elif isinstance(o, set):
            o.add(987654)
            if len(o) > 1:
                o.discard(sorted(o)[0])
        elif isinstance(o, dict):
            for k in list(o):
                if isinstance(o[k], str):
                    o[k] = o[k] + '~'
            if all(isinstance(k, str) for k in o) and not any(not isinstance(v, str) for v in o.values()):
                o['zz_mut'] = 'new'
        elif isinstance(o, array.array):
            if len(o):
                o[0] = 5 if o[0] != 5 else 6
                o[-1] = 0 if o[-1] != 0 else 9
        else:
            for f, v in walker.fields_of(o):
                if f in ('map', 'vmf', 'id') or not isinstance(f, str):
                    continue
                if isinstance(v, bool):
                    nv = not v
                elif isinstance(v, int):
                    nv = v + 1
                elif isinstance(v, float):
                    nv = v + 1.5
                elif isinstance(v, str):
                    nv = v + '~'
                elif isinstance(v, vmf.Vec4):
                    nv = vmf.Vec4(v.x + 1, 9.0, v.z, 0.5)
                elif v is None and f == 'multi_colors':
                    nv = [sm.Vec(9, 9, 9) for _ in range(4)]
                elif v is None and f in ('inst_out', 'inst_in'):
                    nv = 'mut'
                else:
                    continue
                if isinstance(o, kvm.Keyvalues) and f in ('_folded_name', '_real_name') and v is None:
                    continue
                if f == 'disp_power':
                    continue      # would desynchronise the vertex list (an export assertion), not an aliasing matter
                try:
                    setattr(o, f, nv)
                except (AttributeError, TypeError, ValueError):
                    pass
    return n


def api_mutation(o, rng, steps):
    """A random script of public-API in-place mutations on one object; returns the op names applied."""
    vmf, kvm, sm = M.get()
    done = []
    def solid_ops(s):
        return [('translate', lambda: s.translate(r_vec(rng))),
                ('localise', lambda: s.localise(r_vec(rng), sm.Angle(rng.choice([0, 45, 90]), rng.choice([0, 90, 270]), rng.choice([0, 30])))),
                ('solid.editor_color+=', lambda: s.editor_color.__iadd__((1, 2, 3))),
                ('solid.visgroup_ids.add', lambda: s.visgroup_ids.add(777)),
                ('solid.flags', lambda: (setattr(s, 'hidden', not s.hidden), setattr(s, 'vis_shown', not s.vis_shown)))] + \
               [op for side in s.sides[:3] for op in side_ops(side)]
    def side_ops(side):
        ops = [('side.mat', lambda: setattr(side, 'mat', side.mat + '_x')),
               ('side.scale', lambda: setattr(side, 'scale', 0.75)),
               ('side.offset', lambda: setattr(side, 'offset', 12.5)),
               ('side.translate', lambda: side.translate(r_vec(rng))),
               ('side.localise', lambda: side.localise(r_vec(rng), sm.Matrix.from_yaw(90))),
               ('side.plane+=', lambda: side.planes[rng.randrange(3)].__iadd__((1, 1, 1))),
               ('side.plane.x=', lambda: setattr(side.planes[0], 'x', side.planes[0].x + 3)),
               ('side.uaxis', lambda: (setattr(side.uaxis, 'x', side.uaxis.x + 1), setattr(side.vaxis, 'scale', 3.5))),
               ('side.lightmap', lambda: (setattr(side, 'lightmap', side.lightmap + 1), setattr(side, 'smooth', side.smooth ^ 3), setattr(side, 'ham_rot', side.ham_rot + 15)))]
        if side.strata_points:
            ops.append(('side.strata+=', lambda: side.strata_points[0].__iadd__((0.5, 0, 0))))
            ops.append(('side.strata.pop', lambda: side.strata_points.pop() if len(side.strata_points) > 3 else None))
        if side.is_disp:
            def vert():
                return side._disp_verts[rng.randrange(len(side._disp_verts))]
            ops += [('vert.normal+=', lambda: vert().normal.__iadd__((0, 0, 1))),
                    ('vert.offset*=', lambda: vert().offset.__imul__(2)),
                    ('vert.offset_norm.z=', lambda: setattr(vert().offset_norm, 'z', 0.125)),
                    ('vert.alpha', lambda: (lambda v: (setattr(v, 'alpha', v.alpha + 3), setattr(v, 'distance', v.distance - 2)))(vert())),
                    ('vert.tags', lambda: setattr(vert(), 'triangle_a', vmf.TriangleTag.WALKABLE)),
                    ('vert.multi_blend', lambda: (lambda v: (setattr(v, 'multi_blend', vmf.Vec4(1, 0.5, 0.25, 0.75)), setattr(v, 'multi_alpha', vmf.Vec4(0.1, 0.2, 0.3, 0.4))))(vert())),
                    ('vert.multi_colors', lambda: (lambda v: v.multi_colors[rng.randrange(4)].__imul__(0.5) if v.multi_colors else setattr(v, 'multi_colors', [r_vec(rng) for _ in range(4)]))(vert())),
                    ('disp.allowed', lambda: side.disp_allowed_vert.__setitem__(rng.randrange(10), rng.randrange(100)) if side.disp_allowed_vert is not None else None),
                    ('disp.pos', lambda: setattr(side.disp_pos, 'z', side.disp_pos.z + 8)),
                    ('disp.misc', lambda: (setattr(side, 'disp_elevation', side.disp_elevation + 1.5), setattr(side, 'disp_flags', side.disp_flags ^ vmf.DispFlag.SUBDIV)))]
        return ops
    def ent_ops(e):
        ops = [('ent[k]=', lambda: e.__setitem__(rng.choice(['origin', 'newkey', 'message', 'angles']), r_str(rng) + '!')),
               ('del ent[k]', lambda: e.__delitem__(rng.choice([k for k in e._keys if k.casefold() != 'classname'])) if len(e._keys) > 1 else None),
               ('fixup[k]=', lambda: e.fixup.__setitem__(rng.choice(['var0', 'x', 'newvar', '$Start_Enabled1']), r_str(rng) + '?')),
               ('fixup.existing=', lambda: e.fixup.__setitem__(next(iter(e.fixup)), 'CHANGED') if len(e.fixup) else None),
               ('del fixup[k]', lambda: e.fixup.__delitem__(next(iter(e.fixup))) if len(e.fixup) else None),
               ('add_out', lambda: e.add_out(r_output(rng))),
               ('out.params', lambda: (lambda o: (setattr(o, 'params', o.params + 'P'), setattr(o, 'delay', o.delay + 1), setattr(o, 'target', 'T2')))(rng.choice(e.outputs)) if e.outputs else None),
               ('outputs.pop', lambda: e.outputs.pop() if e.outputs else None),
               ('ent.editor_color', lambda: e.editor_color.__iadd__((3, 2, 1))),
               ('ent.sets', lambda: (e.visgroup_ids.add(555), e.groups.add(444))),
               ('ent.misc', lambda: (setattr(e, 'comments', e.comments + ' more'), setattr(e, 'hidden', not e.hidden), setattr(e, 'logical_pos', '[7 7]'), setattr(e, 'vis_shown', not e.vis_shown)))]
        for s in e.solids:
            ops += solid_ops(s)
        if e.solids:
            ops.append(('solids.pop', lambda: e.solids.pop() if len(e.solids) > 1 else None))
        return ops
    def kv_ops(k):
        blocks = [x for x in k.iter_tree(blocks=True) if x.has_children()] if k.has_children() else []
        leaves = [x for x in k.iter_tree()] if k.has_children() else [k]
        ops = []
        if leaves:
            ops += [('kv.leaf.value', lambda: setattr(rng.choice(leaves), 'value', r_str(rng) + '#')),
                    ('kv.leaf.name', lambda: setattr(rng.choice(leaves), 'name', 'renamed'))]
        if k.has_children():
            tgt = lambda: rng.choice(blocks + [k])
            ops += [('kv.append', lambda: tgt().append(kvm.Keyvalues('added', 'v'))),
                    ('kv[name]=', lambda: tgt().__setitem__('setkey', 'val')),
                    ('kv.del0', lambda: (lambda b: b.__delitem__(0) if len(b) else None)(tgt())),
                    ('kv.clear', lambda: tgt().clear() if rng.random() < 0.3 else None),
                    ('kv.set_key', lambda: k.set_key(('p', 'q'), 'deep')),
                    ('kv.block.name', lambda: setattr(rng.choice(blocks), 'name', 'blk2') if blocks else None)]
        return ops
    for _ in range(steps):
        if isinstance(o, vmf.Entity): ops = ent_ops(o)
        elif isinstance(o, vmf.Solid): ops = solid_ops(o)
        elif isinstance(o, vmf.Side): ops = side_ops(o)
        elif isinstance(o, kvm.Keyvalues): ops = kv_ops(o)
        elif isinstance(o, vmf.VisGroup):
            ops = [('vg.color', lambda: o.color.__imul__(0.5)), ('vg.name', lambda: setattr(o, 'name', o.name + '2')),
                   ('vg.child.color', lambda: o.child_groups[0].color.__iadd__((1, 1, 1)) if o.child_groups else None),
                   ('vg.child.pop', lambda: o.child_groups.pop() if o.child_groups else None),
                   ('vg.child.name', lambda: setattr(o.child_groups[-1], 'name', 'kid') if o.child_groups else None)]
        elif isinstance(o, vmf.EntityGroup):
            ops = [('grp.color', lambda: o.color.__isub__((1, 0, 0))), ('grp.shown', lambda: setattr(o, 'shown', not o.shown))]
        elif isinstance(o, vmf.Camera):
            ops = [('cam.pos', lambda: o.pos.__iadd__((1, 0, 0))), ('cam.target.z', lambda: setattr(o.target, 'z', o.target.z - 4))]
        elif isinstance(o, vmf.Cordon):
            ops = [('cordon.min', lambda: o.bounds_min.__iadd__((1, 0, 0))), ('cordon.max', lambda: o.bounds_max.__imul__(2)),
                   ('cordon.name', lambda: setattr(o, 'name', o.name + 'x')), ('cordon.active', lambda: setattr(o, 'active', not o.active))]
        elif isinstance(o, vmf.Output):
            ops = [('out.attrs', lambda: (setattr(o, 'params', o.params + 'x'), setattr(o, 'times', o.times + 1), setattr(o, 'inst_in', 'zz')))]
        elif isinstance(o, vmf.EntityFixup):
            ops = [('fix[k]=', lambda: o.__setitem__(rng.choice(['var0', 'newvar']), 'v!')),
                   ('fix.existing=', lambda: o.__setitem__(next(iter(o)), 'CHANGED') if len(o) else None),
                   ('del fix[k]', lambda: o.__delitem__(next(iter(o))) if len(o) else None)]
        elif isinstance(o, vmf.UVAxis):
            ops = [('uv', lambda: (setattr(o, 'x', o.x + 1), setattr(o, 'offset', o.offset - 2)))]
        else:
            raise TypeError(type(o))
        name, fn = rng.choice(ops)
        with warnings.catch_warnings():
            warnings.simplefilter('ignore')
            fn()
        done.append(name)
    return done
