"""C14 pristine oracle: answers every request from a *pristine* interpreter state.

The process imports the implementation once and never calls it itself; each request is served by a
forked child (copy-on-write image of the pristine state), so no call can see state left behind by
another call.  Line protocol (JSON per line on stdin/stdout):
  {"op":"call","spec":S,"cfg":C}       -> the dict of p_c14.roundtrip (bytes as latin-1 text)
  {"op":"session","steps":[{spec,cfg}]} -> {"fail": null | [step, key, text]}   (judge + snapshot checks)
"""
import sys, os, json, pathlib
HERE = pathlib.Path(__file__).resolve().parent
sys.path.insert(0, str(HERE))
import common


def serve(req):
    import p_c14
    if req['op'] == 'call':
        res = p_c14.roundtrip(req['spec'], req['cfg'])
        if 'data' in res:
            res['data'] = res['data'].decode('latin1')
        return res
    if req['op'] == 'session':
        return {'fail': p_c14.check_session(req['steps'], None)}
    return {'error': 'unknown op'}


def main():
    common.import_impl()
    import srctools.dmx, srctools.keyvalues  # noqa: loaded, never called here
    import p_c14  # noqa
    for line in sys.stdin:
        line = line.strip()
        if not line:
            continue
        req = json.loads(line)
        r, w = os.pipe()
        pid = os.fork()
        if pid == 0:
            os.close(r)
            try:
                out = serve(req)
            except BaseException as e:  # noqa
                out = {'error': f'{type(e).__name__}: {e}'[:300]}
            with os.fdopen(w, 'w') as f:
                f.write(json.dumps(out, default=str))
            os._exit(0)
        os.close(w)
        with os.fdopen(r) as f:
            data = f.read()
        os.waitpid(pid, 0)
        sys.stdout.write((data or '{"error":"no reply"}') + '\n')
        sys.stdout.flush()


if __name__ == '__main__':
    main()
