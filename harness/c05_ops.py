"""C05: operation programs over the public API of Vec / Angle / Matrix and their frozen twins.

A *program* is a JSON list of steps `{"id": n, "op": name, ...}`; objects are referred to by the id of the
step that created them (a step whose referents do not exist is skipped, so programs survive delta-debugging).
`Runner.run(program)` executes a program on the implementation and, after every step,
  * checks that every live Angle/FrozenAngle has all fields in [0, 360),
  * compares every live object with its snapshot: only the declared target of an in-place operation may
    change (frozen objects never; copies are independent), frozen hashes stay put,
  * checks copy/freeze/thaw/pickle results for equality with their source,
  * checks every text form produced (shape, no '-0', exact decimal value within 5e-7),
and records the corresponding operations of the Lean state machine (`mops`) together with the field bits the
implementation shows at that moment, so that `p_c05` can compare them with the driver bit for bit.
Trigonometry is an oracle: `math.degrees` is wrapped (from outside) and its results become the raw inputs of
the model's `_to_angle`.
"""
import struct, math as _math, copy as _copy, pickle, re, operator
from fractions import Fraction

math_ulp = _math.ulp

NAN_BITS = 0x7ff8000000000000


def bits(x):
    x = float(x)
    if x != x:
        return NAN_BITS
    return struct.unpack('<Q', struct.pack('<d', x))[0]


def unbits(b):
    return struct.unpack('<d', struct.pack('<Q', b))[0]


TOKEN_RE = re.compile(r'^-?[0-9]+(\.[0-9]{1,6})?$')
KEYS = {0: [0, 'p', 'pit', 'pitch'], 1: [1, 'y', 'yaw'], 2: [2, 'r', 'rol', 'roll']}
VKEYS = {0: [0, 'x'], 1: [1, 'y'], 2: [2, 'z']}
PROP = ['pitch', 'yaw', 'roll']
VPROP = ['x', 'y', 'z']


class MathProxy:
    """stands in for the `math` module inside srctools.math; records what math.degrees returns"""
    def __init__(self, real):
        self._real = real
        self.log = []

    def __getattr__(self, name):
        return getattr(self._real, name)

    def degrees(self, x):
        r = self._real.degrees(x)
        self.log.append(r)
        return r


def check_token(tok, x, angle=False):
    """problems of one formatted component `tok` of value x (finite): list of (key, text)"""
    out = []
    if tok == '-0':
        # format_float prints '-0' exactly for negative values that round to zero at 6 places (open finding
        # text-minus-zero, pinned by the repo's tests for vectors); anywhere else it is a new violation
        if x < 0 and ('%.6f' % (x + 0.0)) == '-0.000000' and not angle:
            out.append(('text-minus-zero', f"component formats as '-0' (value {x!r})"))
        else:
            out.append(('text-minus-zero-unexpected', f"component formats as '-0' (value {x!r}, angle={angle})"))
    elif not TOKEN_RE.match(tok):
        out.append(('text-shape', f'component {tok!r} (value {x!r}) is not -?digits[.1-6 digits]'))
    else:
        if '.' in tok and tok.endswith('0'):
            out.append(('text-shape', f'component {tok!r} keeps trailing zeros'))
        if abs(Fraction(tok) - Fraction(x)) > Fraction(5, 10 ** 7):
            out.append(('text-close', f'component {tok!r} is more than 5e-7 away from {x!r}'))
        else:
            # float(tok) is the double nearest to the decimal value of tok: at most half an ulp further away
            back = float(tok)
            err = abs(Fraction(back) - Fraction(x))
            if err > Fraction(5, 10 ** 7) + Fraction(math_ulp(back)) / 2:
                out.append(('text-parse-back', f'float({tok!r}) = {back!r} is more than 5e-7 + ulp/2 away from {x!r}'))
            elif err > Fraction(5, 10 ** 7) and 2.0 ** 32 <= abs(x) < 2.0 ** 33:
                out.append(('parse-back-binade32', f'float({tok!r}) = {back!r} is {float(err):.3g} away from {x!r}'))
    return out


class Runner:
    def __init__(self, smath):
        self.m = smath
        self.proxy = None

    # ------------------------------------------------------------------ helpers
    def kind(self, o):
        m = self.m
        for k, c in (('A', m.Angle), ('FA', m.FrozenAngle), ('V', m.Vec), ('FV', m.FrozenVec),
                     ('M', m.Matrix), ('FM', m.FrozenMatrix)):
            if type(o) is c:
                return k
        return None

    @staticmethod
    def fields(o, k):
        if k in ('A', 'FA'):
            return (o._pitch, o._yaw, o._roll)
        if k in ('V', 'FV'):
            return (o._x, o._y, o._z)
        return (o._aa, o._ab, o._ac, o._ba, o._bb, o._bc, o._ca, o._cb, o._cc)

    def snap(self, o, k):
        return tuple(bits(v) for v in self.fields(o, k))

    # ------------------------------------------------------------------ run
    def run(self, program, want_model=True):
        """-> dict(witnesses=[(key, what, step_index)], mops=[...], expect=[...], counts={}, final=[(mid, kind, bits)])"""
        m = self.m
        real_math = m.math if not isinstance(m.math, MathProxy) else m.math._real
        proxy = MathProxy(real_math)
        m.math = proxy
        try:
            return self._run(program, proxy)
        finally:
            m.math = real_math

    def _run(self, program, proxy):
        m = self.m
        env = {}          # id -> record
        order = []        # records in creation order
        wit = []
        mops, expect = [], []
        counts = {}
        nmodel = [0]
        KCODE = {'A': 0, 'FA': 1, 'V': 2, 'FV': 3}

        nmat = [0]

        def tmp_mat(mobj):
            """a matrix that exists only inside an operation (Matrix.from_angle(other), the matrix of transform()):
            the model gets its entries as observed"""
            sn = list(self.snap(mobj, 'M'))
            mops.append(['mctor', False, sn]); expect.append(['m', nmat[0], [False, sn]])
            nmat[0] += 1
            return nmat[0] - 1

        def mat_operand(rec):
            """model id of the matrix an Angle/Matrix operand stands for"""
            if rec['kind'] in ('M', 'FM'):
                return rec['mmid']
            return tmp_mat(m.Matrix.from_angle(rec['obj']))

        def add(step, obj, mid_ops=None, src=None):
            """register a result object; mid_ops: list of model ops creating it (last one yields it)"""
            k = self.kind(obj)
            if k is None:
                return None
            for r in order:
                if r['obj'] is obj:      # an alias (frozen copy, FrozenX(frozen))
                    env[step['id']] = r
                    return r
            rec = {'obj': obj, 'kind': k, 'snap': self.snap(obj, k), 'mid': None, 'mmid': None, 'hash': None, 'born': step['id']}
            if k in ('M', 'FM'):
                ops = mid_ops if mid_ops is not None else [['mctor', k == 'FM', list(rec['snap'])]]
                for op in ops[:-1]:
                    mops.append(op); expect.append(None)
                mops.append(ops[-1]); expect.append(['m', nmat[0], [k == 'FM', list(rec['snap'])]])
                rec['mmid'] = nmat[0]; nmat[0] += 1
                env[step['id']] = rec
                order.append(rec)
                return rec
            if k in ('FA', 'FV'):
                try:
                    rec['hash'] = hash(obj)
                except Exception as e:
                    wit.append(('frozen-unhashable', f'hash({k}) raised {type(e).__name__}', step['id']))
            if k in KCODE and mid_ops is not None:
                for op in mid_ops[:-1]:
                    mops.append(op); expect.append(None)
                mops.append(mid_ops[-1]); expect.append([nmodel[0], [KCODE[k]] + list(rec['snap'])])
                rec['mid'] = nmodel[0]
                nmodel[0] += 1
            elif k in KCODE:
                # opaque creation: tell the model the observed values
                if k in ('V', 'FV'):
                    mops.append(['vctor', k == 'FV'] + list(rec['snap']))
                    expect.append([nmodel[0], [KCODE[k]] + list(rec['snap'])])
                    rec['mid'] = nmodel[0]; nmodel[0] += 1
            env[step['id']] = rec
            order.append(rec)
            return rec

        def mutated(rec, ops):
            """in-place change of rec: model ops (last one observes the object)"""
            rec['snap'] = self.snap(rec['obj'], rec['kind'])
            if rec['kind'] == 'M' and ops is not None:
                for op in ops[:-1]:
                    mops.append(op); expect.append(None)
                mops.append(ops[-1]); expect.append(['m', rec['mmid'], [False, list(rec['snap'])]])
                return
            if rec['mid'] is None or ops is None:
                return
            for op in ops[:-1]:
                mops.append(op); expect.append(None)
            mops.append(ops[-1]); expect.append([rec['mid'], [KCODE[rec['kind']]] + list(rec['snap'])])

        def vset_ops(rec):
            s = self.snap(rec['obj'], rec['kind'])
            return [['vset', rec['mid'], i, s[i]] for i in range(3)]

        def to_angle_op(tgt, frozen, log):
            return ['toAngle', tgt, frozen, [bits(x) for x in log]]

        def get(step, name, kinds=None):
            r = env.get(step.get(name))
            if r is None or (kinds is not None and r['kind'] not in kinds):
                return None
            return r

        def fl(b):
            return unbits(b)

        for si, step in enumerate(program):
            op = step['op']
            target = None     # record allowed to change
            proxy.log.clear()
            try:
                # ---------------------------------------------------------------- angles
                if op == 'ang':
                    fr = step['frozen']; cls = m.FrozenAngle if fr else m.Angle
                    v = [fl(b) for b in step['v']]
                    how = step.get('how', 'num')
                    if how == 'num':
                        o = cls(v[0], v[1], v[2]); mo = ['ctor', fr, False] + step['v']
                    elif how == 'kw':
                        o = cls(pitch=v[0], yaw=v[1], roll=v[2]); mo = ['ctor', fr, False] + step['v']
                    else:
                        o = cls(iter(v)); mo = ['ctor', fr, True] + step['v']
                    add(step, o, [mo])
                elif op == 'ang_copyctor':
                    r = get(step, 'src', ('A', 'FA'))
                    if r is None: continue
                    fr = step['frozen']; cls = m.FrozenAngle if fr else m.Angle
                    o = cls(r['obj'])
                    if fr and r['kind'] == 'FA':
                        if o is not r['obj']:
                            wit.append(('frozen-copy-identity', 'FrozenAngle(frozen) did not return the same object', step['id']))
                        add(step, o)
                    else:
                        add(step, o, [['ctorCopy', fr, r['mid']]])
                        self._eq_check(wit, step, r, o, 'Angle(angle)')
                elif op == 'ang_from_str':
                    fr = step['frozen']; cls = m.FrozenAngle if fr else m.Angle
                    d = [fl(b) for b in step['d']]
                    o = cls.from_str(step['text'], d[0], d[1], d[2])
                    add(step, o, [['fromStr', fr, True, [ord(c) for c in step['text']]] + step['d']])
                elif op == 'ang_with_axes':
                    fr = step['frozen']; cls = m.FrozenAngle if fr else m.Angle
                    args = []
                    for (slot, ki, b) in step['axes']:
                        names = [k for k in KEYS[slot] if isinstance(k, str)]
                        key = names[-1] if fr else names[ki % len(names)]   # FrozenAngle.with_axes takes the full names only
                        args += [key, fl(b)]
                    o = cls.with_axes(*args)
                    if fr:
                        vals = [0, 0, 0]
                        for (slot, ki, b) in step['axes']:
                            vals[slot] = b
                        add(step, o, [['ctor', True, False] + vals])
                    else:
                        ops = [['ctor', False, False, 0, 0, 0]]
                        mid = nmodel[0]
                        for (slot, ki, b) in step['axes']:
                            ops.append(['setItem', mid, slot, b])
                        add(step, o, ops)
                elif op == 'set':
                    r = get(step, 'tgt', ('A', 'V'))
                    if r is None: continue
                    slot, v = step['slot'], fl(step['v'])
                    if step.get('int') and v != 0 and v == int(v) and abs(v) < 2 ** 53:
                        v = int(v)
                    target = r
                    if r['kind'] == 'A':
                        if step['via'] == 'prop':
                            setattr(r['obj'], PROP[slot], v); mo = ['setProp', r['mid'], slot, step['v']]
                        else:
                            r['obj'][KEYS[slot][step.get('key', 0) % len(KEYS[slot])]] = v
                            mo = ['setItem', r['mid'], slot, step['v']]
                    else:
                        if step['via'] == 'prop':
                            setattr(r['obj'], VPROP[slot], v)
                        else:
                            r['obj'][VKEYS[slot][step.get('key', 0) % 2]] = v
                        mo = ['vset', r['mid'], slot, step['v']]
                    mutated(r, [mo])
                elif op == 'scale':       # ang * v, v * ang, vec * v
                    r = get(step, 'src', ('A', 'FA', 'V', 'FV'))
                    if r is None: continue
                    v = fl(step['v'])
                    o = (v * r['obj']) if step.get('side') == 'r' else (r['obj'] * v)
                    if r['kind'] in ('A', 'FA'):
                        add(step, o, [['mulNew', r['mid'], step['v']]])
                    else:
                        add(step, o, [['vscale', r['mid'], step['v'], False]])
                elif op == 'iscale':      # x *= v
                    r = get(step, 'tgt', ('A', 'FA', 'V', 'FV'))
                    if r is None: continue
                    v = fl(step['v'])
                    o = r['obj']
                    o2 = operator.imul(o, v)
                    if o2 is o:
                        target = r
                        if r['kind'] in ('FA', 'FV'):
                            wit.append(('frozen-mutated', f'{r["kind"]} *= v returned the same object', step['id']))
                        mutated(r, [['imul', r['mid'], step['v']]] if r['kind'] == 'A' else [['vscale', r['mid'], step['v'], True]])
                    else:
                        add(step, o2, [['mulNew', r['mid'], step['v']]] if r['kind'] in ('A', 'FA') else [['vscale', r['mid'], step['v'], False]])
                # ---------------------------------------------------------------- vectors
                elif op == 'vec':
                    fr = step['frozen']; cls = m.FrozenVec if fr else m.Vec
                    v = [fl(b) for b in step['v']]
                    how = step.get('how', 'num')
                    o = cls(v[0], v[1], v[2]) if how == 'num' else cls(x=v[0], y=v[1], z=v[2]) if how == 'kw' else cls(iter(v))
                    add(step, o, [['vctor', fr] + step['v']])
                elif op == 'vec_from_str':
                    fr = step['frozen']; cls = m.FrozenVec if fr else m.Vec
                    d = [fl(b) for b in step['d']]
                    o = cls.from_str(step['text'], d[0], d[1], d[2])
                    add(step, o, [['fromStr', fr, False, [ord(c) for c in step['text']]] + step['d']])
                elif op == 'vbin':        # a (+|-) b  vec-vec, new object
                    a = get(step, 'a', ('V', 'FV')); b = get(step, 'b', ('V', 'FV'))
                    if a is None or b is None: continue
                    sub = step['sub']
                    o = (a['obj'] - b['obj']) if sub else (a['obj'] + b['obj'])
                    add(step, o, [['vadd', a['mid'], b['mid'], sub, False]])
                elif op == 'vibin':       # a (+=|-=) b
                    a = get(step, 'a', ('V', 'FV')); b = get(step, 'b', ('V', 'FV'))
                    if a is None or b is None: continue
                    sub = step['sub']
                    o2 = (operator.isub if sub else operator.iadd)(a['obj'], b['obj'])
                    if o2 is a['obj']:
                        target = a
                        if a['kind'] == 'FV':
                            wit.append(('frozen-mutated', 'FrozenVec += v returned the same object', step['id']))
                        mutated(a, [['vadd', a['mid'], b['mid'], sub, True]])
                    else:
                        add(step, o2, [['vadd', a['mid'], b['mid'], sub, False]])
                elif op == 'vmisc':       # opaque vector results
                    a = get(step, 'a', ('V', 'FV'))
                    if a is None: continue
                    f = step['f']
                    b = get(step, 'b', ('V', 'FV'))
                    if f == 'neg': o = -a['obj']
                    elif f == 'abs': o = abs(a['obj'])
                    elif f == 'norm': o = a['obj'].norm()
                    elif f == 'round': o = round(a['obj'], 3)
                    elif f == 'cross' and b is not None: o = a['obj'].cross(b['obj'])
                    elif f == 'div': o = a['obj'] / 3.0
                    elif f == 'clamped' and b is not None: o = a['obj'].clamped(mins=b['obj'])
                    elif f == 'bbox' and b is not None:
                        lo, hi = type(a['obj']).bbox(a['obj'], b['obj']); o = lo
                        add({'id': ('bbox-hi', step['id'])}, hi)
                    elif f == 'norm_mask' and b is not None: o = a['obj'].norm_mask(b['obj'])
                    else: continue
                    add(step, o)
                elif op == 'vminmax':
                    a = get(step, 'a', ('V',)); b = get(step, 'b', ('V', 'FV'))
                    if a is None or b is None: continue
                    target = a
                    (a['obj'].max if step['max'] else a['obj'].min)(b['obj'])
                    mutated(a, vset_ops(a))
                # ---------------------------------------------------------------- matrices
                elif op == 'mat':
                    fr = step['frozen']; cls = m.FrozenMatrix if fr else m.Matrix
                    how = step['how']
                    if how == 'identity': o = cls()
                    elif how in ('yaw', 'pitch', 'roll'): o = getattr(cls, 'from_' + how)(fl(step['v'][0]))
                    elif how == 'angle3': o = cls.from_angle(*[fl(b) for b in step['v'][:3]])
                    elif how == 'angle':
                        r = get(step, 'src', ('A', 'FA'))
                        if r is None: continue
                        o = cls.from_angle(r['obj'])
                    elif how == 'angstr': o = cls.from_angstr(step['text'])
                    elif how == 'axis_angle':
                        v = [fl(b) for b in step['v']]
                        if not any(v[:3]): continue
                        o = cls.axis_angle(tuple(v[:3]), v[3])
                    elif how == 'basis':
                        kw = {}
                        for ax in ('x', 'y', 'z'):
                            r = get(step, ax, ('V', 'FV'))
                            if r is not None: kw[ax] = r['obj']
                        o = cls.from_basis(**kw)
                    elif how == 'copyctor':
                        r = get(step, 'src', ('M', 'FM'))
                        if r is None: continue
                        o = cls(r['obj'])
                        if not (fr and r['kind'] == 'FM'):
                            self._eq_check(wit, step, r, o, 'Matrix(matrix)')
                            add(step, o, [['mcopy', fr, r['mmid']]])
                            continue
                    else: continue
                    add(step, o)
                elif op == 'mset':
                    r = get(step, 'tgt', ('M',))
                    if r is None: continue
                    target = r
                    r['obj'][step['r'], step['c']] = fl(step['v'])
                    mutated(r, [['mset', r['mmid'], step['r'], step['c'], step['v']]])
                elif op == 'munary':
                    r = get(step, 'src', ('M', 'FM'))
                    if r is None: continue
                    f = step['f']
                    if f == 'transpose':
                        o = r['obj'].transpose()
                        add(step, o, [['mtranspose', r['mmid']]])
                    elif f == 'inverse':
                        o = r['obj'].inverse()
                        add(step, o)
                    elif f in ('forward', 'left', 'up'):
                        mag = step.get('v', bits(1.0))
                        o = getattr(r['obj'], f)(fl(mag))
                        add(step, o, [['mrow', r['mmid'], ('forward', 'left', 'up').index(f), mag]])
                    else: continue
                # ---------------------------------------------------------------- rotation
                elif op == 'matmul':      # left @ right -> new object
                    a = get(step, 'a'); b = get(step, 'b', ('A', 'FA', 'M', 'FM'))
                    if b is None: continue
                    if step.get('tuple'):
                        left = tuple(fl(x) for x in step['tuple'])
                    elif a is None: continue
                    else: left = a['obj']
                    if step.get('r'):      # explicit reflected call
                        o = b['obj'].__rmatmul__(left)
                        if o is NotImplemented: continue
                    else:
                        o = left @ b['obj']
                    k = self.kind(o)
                    if k in ('A', 'FA'):
                        add(step, o, [to_angle_op(None, k == 'FA', proxy.log)])
                    elif step.get('tuple') or a is None:
                        add(step, o)
                    elif k in ('V', 'FV') and a['kind'] in ('V', 'FV'):
                        mm = mat_operand(b)
                        add(step, o, [['vrot', a['mid'], mm, False]])
                    elif k in ('M', 'FM') and a['kind'] in ('M', 'FM'):
                        mm = mat_operand(b)
                        add(step, o, [['mmul', a['mmid'], mm, False]])
                    else:
                        add(step, o)
                elif op == 'imatmul':     # left @= right
                    a = get(step, 'a'); b = get(step, 'b', ('A', 'FA', 'M', 'FM'))
                    if a is None or b is None: continue
                    o2 = operator.imatmul(a['obj'], b['obj'])
                    if o2 is a['obj']:
                        target = a
                        if a['kind'] in ('FA', 'FV', 'FM'):
                            wit.append(('frozen-mutated', f'{a["kind"]} @= x returned the same object', step['id']))
                        if a['kind'] == 'A': mutated(a, [to_angle_op(a['mid'], False, proxy.log)])
                        elif a['kind'] == 'V':
                            mm = mat_operand(b)
                            mutated(a, [['vrot', a['mid'], mm, True]])
                        elif a['kind'] == 'M':
                            mm = mat_operand(b)
                            mutated(a, [['mmul', a['mmid'], mm, True]])
                        else: mutated(a, None)
                    else:
                        k = self.kind(o2)
                        if k in ('A', 'FA'):
                            add(step, o2, [to_angle_op(None, k == 'FA', proxy.log)])
                        elif k in ('V', 'FV') and a['kind'] in ('V', 'FV'):
                            mm = mat_operand(b)
                            add(step, o2, [['vrot', a['mid'], mm, False]])
                        elif k in ('M', 'FM') and a['kind'] in ('M', 'FM'):
                            mm = mat_operand(b)
                            add(step, o2, [['mmul', a['mmid'], mm, False]])
                        else:
                            add(step, o2)
                elif op == 'to_angle':
                    r = get(step, 'src', ('M', 'FM', 'V', 'FV'))
                    if r is None: continue
                    if r['kind'] in ('M', 'FM'):
                        o = r['obj'].to_angle()
                        add(step, o, [to_angle_op(None, False, proxy.log)])
                    else:
                        roll = fl(step['v'])
                        o = r['obj'].to_angle(roll)
                        lg = list(proxy.log)
                        add(step, o, [['ctor', False, False, bits(lg[0]), bits(lg[1] % 360), step['v']]])
                elif op == 'ang_from_basis':
                    fr = step['frozen']; cls = m.FrozenAngle if fr else m.Angle
                    kw = {}
                    for ax in ('x', 'y', 'z'):
                        r = get(step, ax, ('V', 'FV'))
                        if r is not None: kw[ax] = r['obj']
                    o = cls.from_basis(**kw)
                    if not kw:
                        pass
                    add(step, o, [to_angle_op(None, fr, proxy.log)])
                elif op == 'transform':
                    a = get(step, 'tgt', ('A', 'V'))
                    if a is None: continue
                    target = a
                    rots = [get(step, n, ('A', 'FA', 'M', 'FM')) for n in ('b', 'c')]
                    proxy.log.clear()
                    with a['obj'].transform() as mat:
                        for r in rots:
                            if r is not None:
                                mat @= r['obj']
                        if step.get('yaw') is not None:
                            mat @= m.Matrix.from_yaw(fl(step['yaw']))
                    if a['kind'] == 'A': mutated(a, [['transform', a['mid'], [bits(x) for x in proxy.log]]])
                    else:
                        mm = tmp_mat(mat)
                        mutated(a, [['vrot', a['mid'], mm, True]])
                elif op == 'localise':
                    a = get(step, 'tgt', ('V',)); o_ = get(step, 'b', ('V', 'FV')); r = get(step, 'c', ('A', 'FA', 'M', 'FM'))
                    if a is None or o_ is None: continue
                    target = a
                    a['obj'].localise(o_['obj'], r['obj'] if r is not None else None)
                    mutated(a, vset_ops(a))
                elif op == 'rotate':
                    a = get(step, 'tgt', ('V',))
                    if a is None: continue
                    target = a
                    import warnings
                    with warnings.catch_warnings():
                        warnings.simplefilter('ignore')
                        v = [fl(b) for b in step['v']]
                        if step.get('text') is not None:
                            a['obj'].rotate_by_str(step['text'], *v)
                        else:
                            a['obj'].rotate(*v)
                    mutated(a, vset_ops(a))
                # ---------------------------------------------------------------- copies
                elif op in ('copy', 'freeze', 'thaw'):
                    r = get(step, 'src')
                    if r is None: continue
                    how = step.get('how', 'copy') if op == 'copy' else op
                    k = r['kind']
                    if how == 'freeze':
                        if k not in ('A', 'V', 'M'): continue
                        o = r['obj'].freeze()
                        mo = [['freeze', r['mid']]] if k in ('A', 'V') else [['mcopy', True, r['mmid']]]
                    elif how == 'thaw':
                        if k not in ('FA', 'FV', 'FM'): continue
                        o = r['obj'].thaw()
                        mo = [['thaw', r['mid']]] if k in ('FA', 'FV') else [['mcopy', False, r['mmid']]]
                    else:
                        if how == 'copy': o = r['obj'].copy()
                        elif how == 'copy.copy': o = _copy.copy(r['obj'])
                        elif how == 'deepcopy': o = _copy.deepcopy(r['obj'])
                        else: o = pickle.loads(pickle.dumps(r['obj'], step.get('proto', 4)))
                        s = list(r['snap'])
                        if k == 'A':
                            if how == 'pickle':
                                mid = nmodel[0]
                                mo = [['ctor', False, False, 0, 0, 0]] + [['setProp', mid, i, s[i]] for i in range(3)]
                            elif how == 'deepcopy':
                                # default reconstruction through __reduce__ as well
                                mid = nmodel[0]
                                mo = [['ctor', False, False, 0, 0, 0]] + [['setProp', mid, i, s[i]] for i in range(3)]
                            else:
                                mo = [['ctor', False, False] + s]
                        elif k == 'FA':
                            mo = [['ctor', True, False] + s] if how == 'pickle' else None
                        elif k == 'V':
                            mo = [['vctor', False] + s]
                        elif k == 'FV':
                            mo = [['vctor', True] + s] if how == 'pickle' else None
                        elif k == 'M':
                            mo = [['mcopy', False, r['mmid']]]
                        elif k == 'FM':
                            mo = [['mcopy', True, r['mmid']]] if how == 'pickle' else None
                        else:
                            mo = None
                        if k in ('FA', 'FV', 'FM') and how != 'pickle' and o is not r['obj']:
                            wit.append(('frozen-copy-identity', f'{how} of {k} did not return the same object', step['id']))
                        if k in ('A', 'V', 'M') and o is r['obj']:
                            wit.append(('copy-not-independent', f'{how} of {k} returned the same object', step['id']))
                    want = {'freeze': {'A': 'FA', 'V': 'FV', 'M': 'FM'}, 'thaw': {'FA': 'A', 'FV': 'V', 'FM': 'M'}}.get(how, {}).get(k, k)
                    if self.kind(o) != want:
                        wit.append(('copy-type', f'{how} of {k} gave a {type(o).__name__}', step['id']))
                    self._eq_check(wit, step, r, o, how)
                    if o is r['obj']:
                        add(step, o)
                    else:
                        add(step, o, mo)
                # ---------------------------------------------------------------- text
                elif op == 'str':
                    r = get(step, 'src', ('A', 'FA', 'V', 'FV'))
                    if r is None: continue
                    how = step.get('how', 'str')
                    o = r['obj']
                    vals = self.fields(o, r['kind'])
                    if how == 'str': text = str(o); toks = text.split(' ')
                    elif how == 'join': text = o.join(' : '); toks = text.split(' : ')
                    elif how == 'format': text = format(o, ''); toks = text.split(' ')
                    else:
                        text = repr(o)
                        mm = re.match(r'^(\w+)\((.*)\)$', text)
                        toks = mm.group(2).split(', ') if mm else [text]
                        if not mm or mm.group(1) != type(o).__name__:
                            wit.append(('text-shape', f'repr {text!r}', step['id']))
                    if len(toks) != 3:
                        wit.append(('text-shape', f'{how} gives {text!r}: not three components', step['id']))
                    else:
                        for t, x in zip(toks, vals):
                            if x != x or x in (float('inf'), float('-inf')):
                                wit.append(('overflow-nonfinite', f'{how} of an object holding {x!r}: {text!r}', step['id']))
                                continue
                            for key, what in check_token(t, x, angle=r['kind'] in ('A', 'FA')):
                                wit.append((key, f'{type(o).__name__} {how}: {what}', step['id']))
                        if r['mid'] is not None:
                            mops.append(['str', r['mid']]); expect.append([ord(c) for c in ' '.join(toks)])
                        # from_str(str(o)) must give an equal object
                        if all(TOKEN_RE.match(t) for t in toks) and r['kind'] in ('A', 'FA', 'V', 'FV'):
                            back = type(o).from_str(' '.join(toks))
                            bv = self.fields(back, r['kind'])
                            for x, y in zip(vals, bv):
                                d = abs(Fraction(x) - Fraction(y)) if x == x and y == y and abs(x) != float('inf') and abs(y) != float('inf') else None
                                if r['kind'] in ('A', 'FA') and d is not None:
                                    d = min(d, 360 - d)      # 359.9999999 prints as 360 and parses back as 0
                                if d is None or d > Fraction(5, 10 ** 7) + Fraction(math_ulp(y)) / 2:
                                    wit.append(('text-parse-back', f'from_str(str(o)) gives {y!r} for {x!r}', step['id']))
                            add({'id': ('back', step['id'])}, back,
                                [['fromStr', r['kind'] in ('FA', 'FV'), r['kind'] in ('A', 'FA'), [ord(c) for c in ' '.join(toks)], 0, 0, 0]])
                # ---------------------------------------------------------------- attacks on frozen objects
                elif op == 'attack':
                    r = get(step, 'tgt', ('FA', 'FV', 'FM'))
                    if r is None: continue
                    o = r['obj']; f = step['f']
                    try:
                        if f == 'setprop':
                            setattr(o, {'FA': 'pitch', 'FV': 'x'}.get(r['kind'], 'aa'), 5.0)
                            if r['kind'] != 'FM':
                                wit.append(('frozen-mutated', f'{r["kind"]}: public attribute assignment accepted', step['id']))
                        elif f == 'setitem':
                            if r['kind'] == 'FM': o[0, 0] = 5.0
                            else: o[0] = 5.0
                            wit.append(('frozen-mutated', f'{r["kind"]}: item assignment accepted', step['id']))
                        elif f == 'delattr':
                            delattr(o, {'FA': 'pitch', 'FV': 'x'}.get(r['kind'], 'copy'))
                        elif f == 'init':
                            # re-running the constructor protocol on an existing frozen object
                            type(o).__init__(o, 1.0, 2.0, 3.0) if r['kind'] != 'FM' else type(o).__init__(o)
                    except (AttributeError, TypeError, KeyError):
                        pass
                else:
                    raise ValueError(f'unknown op {op}')
            except (ZeroDivisionError, ArithmeticError, ValueError, OverflowError) as e:
                counts['raised:' + type(e).__name__] = counts.get('raised:' + type(e).__name__, 0) + 1
            except Exception as e:
                wit.append(('api-exception', f'step {step}: {type(e).__name__}: {e}', step['id']))
            counts[op] = counts.get(op, 0) + 1
            # ---- after every step: frame + frozen + range
            for rec in order:
                k = rec['kind']
                now = self.snap(rec['obj'], k)
                if now != rec['snap']:
                    if k in ('FA', 'FV', 'FM'):
                        wit.append(('frozen-mutated', f'{type(rec["obj"]).__name__} created at step {rec["born"]} changed during step {step["id"]} ({op}): '
                                    f'{[unbits(b) for b in rec["snap"]]} -> {[unbits(b) for b in now]}', step['id']))
                    elif rec is not target:
                        wit.append(('not-independent', f'{type(rec["obj"]).__name__} created at step {rec["born"]} changed during step {step["id"]} ({op}) '
                                    f'although it is not the target', step['id']))
                    rec['snap'] = now
                if rec['hash'] is not None and hash(rec['obj']) != rec['hash']:
                    wit.append(('frozen-mutated', f'hash of {type(rec["obj"]).__name__} from step {rec["born"]} changed in step {step["id"]}', step['id']))
                    rec['hash'] = hash(rec['obj'])
                if k in ('A', 'FA'):
                    for name, x in zip(PROP, self.fields(rec['obj'], k)):
                        if not (0.0 <= x < 360.0):
                            key = 'overflow-nonfinite' if x != x else 'angle-range'
                            if not rec.get('reported'):
                                wit.append((key, f'{type(rec["obj"]).__name__}.{name} == {x!r} after step {step["id"]} ({op})', step['id']))
                            rec['reported'] = True
        final = [(rec['mid'], KCODE[rec['kind']], list(rec['snap'])) for rec in order if rec['mid'] is not None]
        mfinal = [(rec['mmid'], rec['kind'] == 'FM', list(rec['snap'])) for rec in order if rec['mmid'] is not None]
        return {'witnesses': wit, 'mops': mops, 'expect': expect, 'counts': counts, 'final': final, 'mfinal': mfinal,
                'nobj': len(order)}

    def _eq_check(self, wit, step, rec, o, how):
        """copy/freeze/thaw/pickle result must be equal to (and carry the same field bits as) its source"""
        k2 = self.kind(o)
        if k2 is None:
            wit.append(('copy-type', f'{how} returned {type(o).__name__}', step['id']))
            return
        try:
            same = (o == rec['obj'])
        except Exception as e:
            same = False
        a, b = self.snap(o, k2), rec['snap']
        if a != b or (not same and NAN_BITS not in a):
            wit.append(('copy-equal', f'{how} of {type(rec["obj"]).__name__}: fields {[unbits(x) for x in b]} -> {[unbits(x) for x in a]} (== {same})', step['id']))


# ---------------------------------------------------------------------- generators

SPECIAL = [0.0, -0.0, 360.0, -360.0, 720.0, 359.99999999999994, 360.00000000000006, 180.0, 90.0, 270.0, 45.0,
           -1e-14, -1e-9, -1e-7, 1e-7, -4.9e-7, 4.9e-7, -5e-7, 5e-7, -5.000001e-7, 1e-300, -1e-300, 5e-324, -5e-324,
           359.9999995, 359.9999994, 1e15, -1e15, 1e22, 123456.789, -0.5, 0.1, 1 / 3, 2.0 ** 32 + 0.4999, 7200.0,
           -1e-16, -2.2250738585072014e-308, 36000000000.0, 0.0078125, 1.0000005, 2.5e-7, 7.5e-7]


def gen_value(rng, wide=False):
    c = rng.random()
    if c < 0.35:
        return rng.choice(SPECIAL)
    if c < 0.5:
        return float(rng.randrange(-8, 9) * 360) + rng.choice([0.0, 0.0, 1e-13, -1e-13, 5e-7, -5e-7, 1e-9, -1e-9])
    if c < 0.7:
        return float(rng.randrange(-24, 25) * 15)
    if c < 0.85:
        return rng.uniform(-1000, 1000)
    if c < 0.93:
        return round(rng.uniform(-400, 400), rng.randrange(0, 8))
    e = rng.uniform(-320, 300 if wide else 15)
    return rng.choice([-1, 1]) * 10.0 ** e * rng.uniform(1, 10)


def gen_scalar(rng):
    """multiplier for `*`: products of fields < 360 stay finite"""
    return rng.choice([0.0, 1.0, -1.0, 2.0, 0.5, -0.0, 3.0, 1e-3, -7.25, 1e10, 1 / 3, 360.0, 1e-320, -1e100, rng.uniform(-10, 10)])


def gen_text(rng, angle, nonfinite=False):
    parts = []
    for _ in range(3):
        x = gen_value(rng)
        c = rng.random()
        if c < 0.4: parts.append(repr(x))
        elif c < 0.6: parts.append('%.6f' % x)
        elif c < 0.7: parts.append('%g' % x)
        elif c < 0.8: parts.append(str(int(x)) if abs(x) < 1e18 else '0')
        elif c < 0.9: parts.append('%.10e' % x)
        else: parts.append(rng.choice(['1.', '.5', '+3', '-.25e1', '1E2', 'x', '0x10', ''] + (['inf', 'nan', '-Infinity', '1_0'] if nonfinite else [])))
    sep = rng.choice([' ', ' ', '  ', '\t'])
    s = sep.join(p for p in parts)
    c = rng.random()
    if c < 0.2: s = rng.choice('([{<') + s + rng.choice(')]}>')
    elif c < 0.3: s = ' ' + s + '\n'
    elif c < 0.35: s = s + ' 4'
    elif c < 0.4: s = ' '.join(s.split(' ')[:2])
    return s


def gen_program(rng, length=30):
    """random program; ids are consecutive integers"""
    prog = []
    live = {'A': [], 'FA': [], 'V': [], 'FV': [], 'M': [], 'FM': []}    # ids by *expected* kind
    b = bits

    def pick(*kinds):
        pool = [i for k in kinds for i in live[k]]
        return rng.choice(pool) if pool else None

    def new(step, kind):
        step['id'] = len(prog)
        prog.append(step)
        if kind:
            live[kind].append(step['id'])

    # seed objects
    for _ in range(rng.randrange(2, 5)):
        fr = rng.random() < 0.5
        new({'op': 'ang', 'frozen': fr, 'how': rng.choice(['num', 'num', 'kw', 'iter']),
             'v': [b(gen_value(rng)) for _ in range(3)]}, 'FA' if fr else 'A')
    for _ in range(rng.randrange(1, 3)):
        fr = rng.random() < 0.5
        new({'op': 'vec', 'frozen': fr, 'how': rng.choice(['num', 'kw', 'iter']), 'v': [b(gen_value(rng)) for _ in range(3)]}, 'FV' if fr else 'V')
    fr = rng.random() < 0.6
    new({'op': 'mat', 'frozen': fr, 'how': rng.choice(['yaw', 'pitch', 'roll']), 'v': [b(gen_value(rng))]}, 'FM' if fr else 'M')
    def kind_of(i):
        return next(k for k in live if i in live[k])

    def observer(x, k):
        """one observation step of object x (kind k): copy / freeze / thaw / Angle(a) / FrozenAngle(a) / str / pickle"""
        opts = ['copy', 'copy.copy', 'deepcopy', 'pickle']
        if k in ('A', 'V', 'M'): opts += ['freeze', 'freeze']
        if k in ('FA', 'FV', 'FM'): opts += ['thaw']
        if k in ('A', 'FA'): opts += ['Angle', 'FrozenAngle']
        if k in ('M', 'FM'): opts += ['Matrix', 'FrozenMatrix', 'to_angle']
        if k in ('A', 'FA', 'V', 'FV'): opts += ['str', 'repr', 'join']
        o = rng.choice(opts)
        if o == 'freeze': return {'op': 'freeze', 'src': x}, 'F' + k
        if o == 'thaw': return {'op': 'thaw', 'src': x}, k[1:]
        if o in ('Angle', 'FrozenAngle'): return {'op': 'ang_copyctor', 'frozen': o == 'FrozenAngle', 'src': x}, 'FA' if o == 'FrozenAngle' else 'A'
        if o in ('Matrix', 'FrozenMatrix'):
            return {'op': 'mat', 'frozen': o == 'FrozenMatrix', 'how': 'copyctor', 'src': x, 'v': [0, 0, 0, 0]}, 'FM' if o == 'FrozenMatrix' else 'M'
        if o == 'to_angle': return {'op': 'to_angle', 'src': x, 'v': b(0.0)}, 'A'
        if o in ('str', 'repr', 'join'): return {'op': 'str', 'src': x, 'how': o}, None
        return {'op': 'copy', 'src': x, 'how': o, 'proto': rng.randrange(2, 6)}, k

    def mutator(x, k):
        """one in-place operation on x (for a frozen x: the operators that must rebind instead of mutating)"""
        rot = pick('A', 'FA', 'M', 'FM')
        if rot is None or rng.random() < 0.5:
            fr = rng.random() < 0.5
            if rng.random() < 0.5:
                new({'op': 'ang', 'frozen': fr, 'how': 'num', 'v': [b(float(rng.randrange(1, 24) * 15)) for _ in range(3)]}, 'FA' if fr else 'A')
            else:
                new({'op': 'mat', 'frozen': fr, 'how': rng.choice(['yaw', 'pitch', 'roll']), 'v': [b(float(rng.randrange(1, 24) * 15))]}, 'FM' if fr else 'M')
            rot = len(prog) - 1
        if k == 'A':
            opts = ['set-prop', 'set-item', 'iscale', 'imatmul', 'imatmul', 'imatmul', 'transform']
        elif k == 'V':
            opts = ['set-prop', 'set-item', 'iscale', 'imatmul', 'imatmul', 'transform', 'vibin', 'vminmax', 'localise', 'rotate']
        elif k == 'M':
            opts = ['mset', 'imatmul', 'imatmul']
        else:
            opts = ['iscale', 'imatmul', 'imatmul', 'attack'] if k != 'FM' else ['imatmul', 'attack']
        o = rng.choice(opts)
        if o in ('set-prop', 'set-item'):
            return {'op': 'set', 'tgt': x, 'slot': rng.randrange(3), 'v': b(gen_value(rng)), 'via': o[4:], 'key': rng.randrange(4), 'int': False}, None
        if o == 'iscale': return {'op': 'iscale', 'tgt': x, 'v': b(rng.choice([2.0, 0.5, -1.0, 3.0, 1 / 3]))}, (k if k in ('FA', 'FV') else None)
        if o == 'imatmul': return {'op': 'imatmul', 'a': x, 'b': rot}, (k if k in ('FA', 'FV', 'FM') else None)
        if o == 'transform': return {'op': 'transform', 'tgt': x, 'b': rot, 'c': None, 'yaw': b(float(rng.randrange(1, 24) * 15))}, None
        if o == 'mset': return {'op': 'mset', 'tgt': x, 'r': rng.randrange(3), 'c': rng.randrange(3), 'v': b(rng.uniform(-1, 1))}, None
        if o == 'vibin': return {'op': 'vibin', 'a': x, 'b': pick('V', 'FV'), 'sub': rng.random() < 0.5}, None
        if o == 'vminmax': return {'op': 'vminmax', 'a': x, 'b': pick('V', 'FV'), 'max': rng.random() < 0.5}, None
        if o == 'localise': return {'op': 'localise', 'tgt': x, 'b': pick('V', 'FV'), 'c': rot}, None
        if o == 'rotate': return {'op': 'rotate', 'tgt': x, 'v': [b(float(rng.randrange(24) * 15)) for _ in range(3)], 'text': None}, None
        return {'op': 'attack', 'tgt': x, 'f': rng.choice(['setprop', 'setitem', 'delattr', 'init'])}, None

    def triple():
        """directed history [O(x); M(x); O(x)] on the SAME live object: every observation must show the current value"""
        x = pick('A', 'A', 'A', 'V', 'M', 'FA', 'FV', 'FM')
        if x is None:
            return
        k = kind_of(x)
        st1, rk1 = observer(x, k)
        new(dict(st1), rk1)
        for _ in range(rng.randrange(1, 3)):
            st, rk = mutator(x, k)
            new(st, rk)
        if rng.random() < 0.6:      # the very same observer again
            new(dict(st1), rk1)
        else:
            st2, rk2 = observer(x, k)
            new(st2, rk2)

    n_triples = rng.randrange(1, 4)
    triple_at = sorted(rng.randrange(len(prog), max(len(prog) + 1, length)) for _ in range(n_triples))
    while len(prog) < length or triple_at:
        while triple_at and len(prog) >= triple_at[0]:
            triple_at.pop(0)
            triple()
        if len(prog) >= length:
            continue
        c = rng.random()
        if c < 0.08:
            fr = rng.random() < 0.5
            new({'op': 'ang', 'frozen': fr, 'how': rng.choice(['num', 'kw', 'iter']), 'v': [b(gen_value(rng, True)) for _ in range(3)]}, 'FA' if fr else 'A')
        elif c < 0.12:
            s = pick('A', 'FA'); fr = rng.random() < 0.5
            if s is not None: new({'op': 'ang_copyctor', 'frozen': fr, 'src': s}, 'FA' if fr else 'A')
        elif c < 0.16:
            fr = rng.random() < 0.5
            new({'op': 'ang_from_str', 'frozen': fr, 'text': gen_text(rng, True), 'd': [b(gen_value(rng)) for _ in range(3)]}, 'FA' if fr else 'A')
        elif c < 0.19:
            fr = rng.random() < 0.5
            slots = rng.sample([0, 1, 2], rng.randrange(1, 4))
            new({'op': 'ang_with_axes', 'frozen': fr, 'axes': [[s, rng.randrange(3), b(gen_value(rng))] for s in slots]}, 'FA' if fr else 'A')
        elif c < 0.29:
            t = pick('A', 'A', 'V')
            if t is not None:
                new({'op': 'set', 'tgt': t, 'slot': rng.randrange(3), 'v': b(gen_value(rng, True)), 'via': rng.choice(['prop', 'item']),
                     'key': rng.randrange(4), 'int': rng.random() < 0.3}, None)
        elif c < 0.34:
            s = pick('A', 'FA', 'V', 'FV')
            if s is not None:
                k = 'A' if s in live['A'] else 'FA' if s in live['FA'] else 'V' if s in live['V'] else 'FV'
                new({'op': 'scale', 'src': s, 'v': b(gen_scalar(rng)), 'side': rng.choice(['l', 'r'])}, k)
        elif c < 0.39:
            t = pick('A', 'FA', 'V', 'FV')
            if t is not None:
                k = 'FA' if t in live['FA'] else 'FV' if t in live['FV'] else None
                new({'op': 'iscale', 'tgt': t, 'v': b(gen_scalar(rng))}, k)
        elif c < 0.42:
            fr = rng.random() < 0.5
            new({'op': 'vec', 'frozen': fr, 'how': rng.choice(['num', 'kw', 'iter']), 'v': [b(gen_value(rng)) for _ in range(3)]}, 'FV' if fr else 'V')
        elif c < 0.44:
            fr = rng.random() < 0.5
            new({'op': 'vec_from_str', 'frozen': fr, 'text': gen_text(rng, False), 'd': [b(gen_value(rng)) for _ in range(3)]}, 'FV' if fr else 'V')
        elif c < 0.48:
            a, bb = pick('V', 'FV'), pick('V', 'FV')
            if a is not None:
                inplace = rng.random() < 0.5
                k = 'V' if a in live['V'] else 'FV'
                new({'op': 'vibin' if inplace else 'vbin', 'a': a, 'b': bb, 'sub': rng.random() < 0.5}, (None if k == 'V' else 'FV') if inplace else k)
        elif c < 0.52:
            a, bb = pick('V', 'FV'), pick('V', 'FV')
            if a is not None:
                k = 'V' if a in live['V'] else 'FV'
                new({'op': 'vmisc', 'a': a, 'b': bb, 'f': rng.choice(['neg', 'abs', 'norm', 'round', 'cross', 'div', 'clamped', 'bbox', 'norm_mask'])}, k)
        elif c < 0.54:
            a, bb = pick('V'), pick('V', 'FV')
            if a is not None: new({'op': 'vminmax', 'a': a, 'b': bb, 'max': rng.random() < 0.5}, None)
        elif c < 0.61:
            fr = rng.random() < 0.5
            how = rng.choice(['identity', 'yaw', 'pitch', 'roll', 'angle3', 'angle', 'angstr', 'axis_angle', 'basis', 'copyctor'])
            st = {'op': 'mat', 'frozen': fr, 'how': how, 'v': [b(gen_value(rng)) for _ in range(4)]}
            if how == 'angle': st['src'] = pick('A', 'FA')
            if how == 'copyctor': st['src'] = pick('M', 'FM')
            if how == 'angstr': st['text'] = gen_text(rng, True)
            if how == 'basis':
                for ax in rng.sample(['x', 'y', 'z'], rng.randrange(0, 3)):
                    st[ax] = pick('V', 'FV')
            new(st, 'FM' if fr else 'M')
        elif c < 0.63:
            t = pick('M')
            if t is not None: new({'op': 'mset', 'tgt': t, 'r': rng.randrange(3), 'c': rng.randrange(3), 'v': b(rng.uniform(-1, 1))}, None)
        elif c < 0.66:
            s = pick('M', 'FM')
            if s is not None:
                f = rng.choice(['transpose', 'inverse', 'forward', 'left', 'up'])
                k = ('M' if s in live['M'] else 'FM') if f in ('transpose', 'inverse') else 'V'
                new({'op': 'munary', 'src': s, 'f': f}, k)
        elif c < 0.78:
            a = pick('A', 'FA', 'V', 'FV', 'M', 'FM', 'A', 'FA', 'FM'); bb = pick('A', 'FA', 'M', 'FM')
            if a is not None and bb is not None:
                k = next(k for k in live if a in live[k])
                if k in ('M', 'FM') and bb in live['A'] + live['FA'] and False:
                    pass
                st = {'op': 'matmul', 'a': a, 'b': bb}
                if rng.random() < 0.08: st['tuple'] = [b(gen_value(rng)) for _ in range(3)]; k = 'V'
                if rng.random() < 0.1: st['r'] = True
                new(st, k)
        elif c < 0.85:
            a = pick('A', 'V', 'M', 'FA', 'FV', 'FM', 'A', 'FM'); bb = pick('A', 'FA', 'M', 'FM')
            if a is not None and bb is not None:
                k = next(k for k in live if a in live[k])
                new({'op': 'imatmul', 'a': a, 'b': bb}, k if k in ('FA', 'FV', 'FM') else None)
        elif c < 0.88:
            s = pick('M', 'FM', 'V', 'FV')
            if s is not None: new({'op': 'to_angle', 'src': s, 'v': b(gen_value(rng))}, 'A')
        elif c < 0.90:
            fr = rng.random() < 0.5
            st = {'op': 'ang_from_basis', 'frozen': fr}
            for ax in rng.sample(['x', 'y', 'z'], rng.randrange(1, 3)):
                st[ax] = pick('V', 'FV')
            new(st, 'FA' if fr else 'A')
        elif c < 0.93:
            t = pick('A', 'V')
            if t is not None:
                new({'op': 'transform', 'tgt': t, 'b': pick('A', 'FA', 'M', 'FM'), 'c': pick('A', 'FA', 'M', 'FM'),
                     'yaw': b(gen_value(rng)) if rng.random() < 0.5 else None}, None)
        elif c < 0.94:
            t = pick('V')
            if t is not None:
                if rng.random() < 0.5:
                    new({'op': 'localise', 'tgt': t, 'b': pick('V', 'FV'), 'c': pick('A', 'FA', 'M', 'FM')}, None)
                else:
                    new({'op': 'rotate', 'tgt': t, 'v': [b(gen_value(rng)) for _ in range(3)], 'text': gen_text(rng, True) if rng.random() < 0.3 else None}, None)
        elif c < 0.97:
            s = pick('A', 'FA', 'V', 'FV', 'M', 'FM')
            if s is not None:
                k = next(k for k in live if s in live[k])
                op = rng.choice(['copy', 'copy', 'freeze', 'thaw'])
                if op == 'freeze' and k in ('A', 'V', 'M'):
                    new({'op': 'freeze', 'src': s}, 'F' + k)
                elif op == 'thaw' and k in ('FA', 'FV', 'FM'):
                    new({'op': 'thaw', 'src': s}, k[1:])
                else:
                    new({'op': 'copy', 'src': s, 'how': rng.choice(['copy', 'copy.copy', 'deepcopy', 'pickle']), 'proto': rng.randrange(2, 6)}, k)
        elif c < 0.99:
            s = pick('A', 'FA', 'V', 'FV')
            if s is not None: new({'op': 'str', 'src': s, 'how': rng.choice(['str', 'str', 'repr', 'join', 'format'])}, None)
        else:
            t = pick('FA', 'FV', 'FM')
            if t is not None: new({'op': 'attack', 'tgt': t, 'f': rng.choice(['setprop', 'setitem', 'delattr', 'init'])}, None)
    # always end by printing every angle/vector once
    for k in ('A', 'FA', 'V', 'FV'):
        for i in live[k][:6]:
            prog.append({'id': len(prog), 'op': 'str', 'src': i, 'how': 'str'})
    return prog
