"""C08 — ids handed out inside one VMF are unique per kind and never reused while live."""
import itertools, json
import c08_impl
from common import ddmin

PID = 'C08'
GENS = ['c08']
DRIVERS = ['drv_c08']
PROPS = 'Srctools.Props.C08'
RULE = ("three families. (1) IDMan scripts: every sequence of length <= L (L=4 quick, 5 thorough) over "
        "get_id(d), d in {-1,0,1,2,3,7} and discard(e), e in {1,2,3}, plus random scripts of length <= 40 with "
        "desired ids in -3..12 and 2**40; results, used set and search_pos compared after the script. "
        "(2) EntityFixup tables: every initial list of length <= 3 over 3 variables x indexes {0,1,2,3} followed by "
        "every set/delete script of length <= 2 over 4 variables, plus random longer ones; the (variable,index) table "
        "in dict order compared after every step; (2b) up to three tables side by side: copy.copy / copy.deepcopy / "
        "EntityFixup(copy_values()) of a table followed by interleaved set / setdefault / del / pop / clear on all of them "
        "(every script of length <= 3 over 20 steps containing a copy, from 4 initial tables, plus random scripts of length <= 24), "
        "every table scanned for duplicate / non-positive indexes after every step. (3) histories: random sequences (length <= 45) of the operations "
        "newmap / Entity() / add_ent / remove / Side() / Solid() / add_brush / remove_brush / copy (same map, other "
        "map; entity, brush, face, group, visgroup) / drop a reference (=> __del__ when it was the last) / take a "
        "reference to a child, vmf.entities[i], vmf.brushes[i], vmf.spawn / nodeid set, del, pop / EntityGroup() / "
        "VisGroup() / fixup set, del / VMF.parse of a generated document with colliding, missing, zero and negative ids "
        "(preserve_ids=False) / a Solid constructor that raises after the desired id was stored but before registration, Entity / Side constructors that raise after registration (any desired id); desired ids drawn from {-1, 0, negatives, 1..8, 100, 2**40} "
        "so that collisions are frequent. After EVERY step the used set of all six managers of every map and the ids / "
        "nodeid / fixup table of every object reachable from the maps and from the caller's variables are compared "
        "exactly with the model. A history is non-trivial when it releases at least one id and allocates after that; "
        "distinct by content.")
TRUSTED = [
    "model lean/Srctools/Model/C08.lean: object lifetime is reference counting over the references the model knows "
    "(caller's variables, vmf.entities, vmf.brushes, vmf.spawn, parent->child); CPython's guarantee that __del__ runs "
    "exactly once, when the last reference goes, is assumed (the harness drops references explicitly and calls gc.collect())",
    "tools/gen_c08.py lists every <kind>_id.get_id/discard call of vmf.py and checks the statement shape of IDMan.get_id/"
    "discard/remove; the control flow of the listed call sites is tied by the correspondence, not by the translator",
    "the order in which VMF.parse creates nested visgroups (children first) is computed by the harness when it renders a document",
]
NOT_MODELLED = [
    "NullIDMan (maps opened with preserve_ids=True are exempt by the property's definition)",
    "Solid / Entity objects cloned by copy.copy / pickle (they bypass get_id); copy.copy / deepcopy of an EntityFixup IS covered",
    "instance collapse (srctools.instancing) itself: it is built from Entity.copy(vmf_file=...), Solid.copy, add_ent/add_brush "
    "and node_id.get_id, which are modelled; the direct search collapses generated instances into generated maps and scans the ids; "
    "VMF.add_ents (same body as add_ent)",
    "assigning obj.id directly; hidden entities (parsed after the visible ones)",
    "nodeid values whose conv_kv text parses as an int while int(value) itself raises (Enum members)",
]
ASSUMPTIONS = ['CPython reference counting: an object dies as soon as it is unreachable (no cycles among map objects that are not in the map)']

DESIRED = [-1, -1, -1, -1, 0, -5, 1, 1, 2, 2, 3, 3, 4, 5, 6, 7, 8, 100, 2 ** 40]


def _des(rng):
    return rng.choice(DESIRED)


def _node(rng):
    x = rng.random()
    if x < 0.12:
        return 'raw'
    return rng.choice([-1, 0, 1, 1, 2, 2, 3, 3, 4, 5, 9, -4, 70])


def _fixlist(rng, nonpos=True):
    n = rng.choice([0, 0, 1, 2, 3, 4])
    lo = 0 if nonpos else 1
    return [[rng.randrange(1, 5), rng.randrange(lo, 5)] for _ in range(n)]


def _solid_doc(rng):
    return [_des(rng), [_des(rng) for _ in range(rng.choice([0, 1, 1, 2, 3]))]]


def gen_doc(rng, nonpos_fix=True):
    vis = []
    open_n = 0
    for _ in range(rng.choice([0, 0, 1, 2, 3, 4])):
        k = rng.randrange(0, open_n + 1) if rng.random() < 0.5 else 0
        vis.append([_des(rng), k])
        open_n = open_n - k + 1
    return {
        'vis': vis,
        'world': rng.choice([-1, 0, 1, 1, 2, 5]),
        'wsolids': [_solid_doc(rng) for _ in range(rng.choice([0, 1, 2, 3]))],
        'groups': [_des(rng) for _ in range(rng.choice([0, 0, 1, 2]))],
        'ents': [[rng.choice([-1, 0, 1, 1, 2, 2, 3, 4, 9]), rng.choice([None, None, _node(rng)]),
                  [_solid_doc(rng) for _ in range(rng.choice([0, 0, 0, 1, 2]))],
                  _fixlist(rng, nonpos_fix)] for _ in range(rng.choice([0, 1, 2, 3, 4]))],
    }


def gen_history(rng, length, profile='mixed', nonpos_fix=True, failsolid=True):
    """A random history. The generator keeps a light mirror (kind and map of each register) only to
    make most operations meaningful; ill-typed ones are no-ops on both sides."""
    ops = [['newmap']]
    nmaps = 1
    regs = {}          # r -> [kind, map]
    nxt = itertools.count()
    if rng.random() < 0.35:
        ops.append(['newmap']); nmaps += 1

    def pick(kind=None):
        c = [r for r, (k, _) in regs.items() if kind is None or k == kind]
        return rng.choice(c) if c else None

    weights = {
        'mixed': dict(ent=10, addent=9, rment=9, side=4, solid=4, addbrush=3, rmbrush=3, copy=8, drop=10, kid=3, entat=4,
                      brushat=2, spawn=1, setnode=5, delnode=2, popnode=1, group=2, vis=2, fxset=4, fxdel=2, parse=2,
                      newmap=1, failsolid=1),
        'ents': dict(ent=14, addent=12, rment=12, copy=5, drop=12, entat=5, setnode=6, delnode=3, popnode=1, spawn=1),
        'brushes': dict(side=10, solid=8, addbrush=6, rmbrush=6, copy=8, drop=10, kid=5, brushat=4, ent=3, addent=2, rment=2,
                        parse=1, failsolid=1),
        'fix': dict(ent=6, fxset=12, fxdel=8, copy=4, drop=2, parse=2, entat=3),
    }[profile]
    if not failsolid:
        weights = {k: v for k, v in weights.items() if k != 'failsolid'}
    names, ws = list(weights), list(weights.values())
    while len(ops) < length:
        name = rng.choices(names, ws)[0]
        m = rng.randrange(nmaps)
        if name == 'newmap':
            if nmaps >= 3:
                continue
            ops.append(['newmap']); nmaps += 1
        elif name == 'ent':
            r = next(nxt)
            solids = []
            if rng.random() < 0.3:
                s = pick('solid')
                if s is not None:
                    solids = [s] if rng.random() < 0.7 or pick('solid') is None else [s, pick('solid')]
            node = _node(rng) if rng.random() < (0.55 if profile == 'ents' else 0.3) else None
            fix = _fixlist(rng, nonpos_fix) if rng.random() < (0.8 if profile == 'fix' else 0.25) else []
            ops.append(['ent', r, m, _des(rng), node, solids, fix])
            regs[r] = ['ent', m]
            if rng.random() < 0.6:
                ops.append(['addent', r])
        elif name in ('addent', 'rment', 'setnode', 'delnode', 'popnode', 'fxset', 'fxdel'):
            r = pick('ent')
            if r is None:
                continue
            if name == 'setnode':
                ops.append(['setnode', r, _node(rng)])
            elif name in ('fxset', 'fxdel'):
                ops.append([name, r, rng.randrange(1, 6)])
            else:
                ops.append([name, r])
        elif name == 'side':
            r = next(nxt)
            ops.append(['side', r, m, _des(rng)]); regs[r] = ['face', m]
        elif name == 'solid':
            r = next(nxt)
            sides = [x for x in (pick('face') for _ in range(rng.choice([0, 1, 2, 3]))) if x is not None]
            ops.append(['solid', r, m, _des(rng), sides]); regs[r] = ['solid', m]
        elif name in ('addbrush', 'rmbrush'):
            r = pick('solid')
            if r is None:
                continue
            ops.append([name, r])
        elif name == 'copy':
            r = pick()
            if r is None:
                continue
            r2 = next(nxt)
            tgt = None if rng.random() < 0.5 else rng.randrange(nmaps)
            ops.append(['copy', r2, r, _des(rng), tgt])
            regs[r2] = [regs[r][0], regs[r][1] if tgt is None else tgt]
            if regs[r][0] == 'ent' and rng.random() < 0.5:
                ops.append(['addent', r2])
        elif name == 'drop':
            r = pick()
            if r is None:
                continue
            ops.append(['drop', r]); del regs[r]
        elif name == 'kid':
            r = pick(rng.choice(['ent', 'solid', 'vis']))
            if r is None:
                continue
            r2 = next(nxt)
            ops.append(['kid', r2, r, rng.randrange(0, 3)])
            regs[r2] = [{'ent': 'solid', 'solid': 'face', 'vis': 'vis'}[regs[r][0]], regs[r][1]]
        elif name in ('entat', 'brushat'):
            r2 = next(nxt)
            ops.append([name, r2, m, rng.randrange(0, 4)])
            regs[r2] = ['ent' if name == 'entat' else 'solid', m]
        elif name == 'spawn':
            r2 = next(nxt)
            ops.append(['spawn', r2, m]); regs[r2] = ['ent', m]
        elif name == 'group':
            r = next(nxt)
            ops.append(['group', r, m, _des(rng)]); regs[r] = ['group', m]
        elif name == 'vis':
            r = next(nxt)
            kids = [x for x in (pick('vis') for _ in range(rng.choice([0, 0, 1, 2]))) if x is not None]
            ops.append(['vis', r, m, _des(rng), kids]); regs[r] = ['vis', m]
        elif name == 'parse':
            if nmaps >= 3:
                continue
            ops.append(['parse', gen_doc(rng, nonpos_fix)]); nmaps += 1
        elif name == 'failsolid':
            ops.append([rng.choice(['failsolid', 'failsolid', 'failent', 'failside']), m, _des(rng)])
    return ops


def _nontrivial(ops):
    rel = False
    for op in ops:
        if op[0] in ('drop', 'rment', 'delnode', 'setnode'):
            rel = True
        elif rel and op[0] in ('ent', 'side', 'solid', 'copy', 'parse', 'addent', 'setnode'):
            return True
    return False


# ------------------------------------------------------------------ unit correspondences

def _idman_scripts(ctx):
    L = ctx.budget(4, 5)
    alpha = [['g', d] for d in (-1, 0, 1, 2, 3, 7)] + [['d', e] for e in (1, 2, 3)]
    for n in range(1, L + 1):
        for t in itertools.product(alpha, repeat=n):
            yield list(t)
    rng = ctx.rng
    from srctools.vmf import IDMan
    for _ in range(ctx.budget(4000, 40000)):
        m, got, sc = IDMan(), [], []
        for _ in range(rng.randrange(1, 41)):
            if got and rng.random() < 0.4:
                # release an id that get_id returned earlier (sometimes twice: discard must tolerate it)
                e = rng.choice(got)
                m.discard(e); sc.append(['d', e])
            else:
                d = rng.choice([-3, -1, -1, 0, 2 ** 40] + list(range(1, 13)))
                got.append(m.get_id(d)); sc.append(['g', d])
        yield sc


def _run_idman(script):
    from srctools.vmf import IDMan
    m = IDMan()
    out = []
    for k, v in script:
        if k == 'g':
            out.append(m.get_id(v))
        else:
            m.discard(v)
            out.append(None)
    return {'r': out, 'used': sorted(m), 'pos': m.search_pos}


def _fix_cases(ctx):
    pairs = [[v, i] for v in (1, 2, 3) for i in (0, 1, 2, 3)]
    steps = [['s', v] for v in (1, 2, 3, 4)] + [['d', v] for v in (1, 2, 3, 4)]
    for n in range(0, 4):
        for init in itertools.product(pairs, repeat=n):
            for k in range(0, (3 if n < 3 else 2)):
                for sc in itertools.product(steps, repeat=k):
                    yield [list(p) for p in init], [list(s) for s in sc]
    rng = ctx.rng
    for _ in range(ctx.budget(3000, 40000)):
        init = [[rng.randrange(1, 7), rng.choice([0, 1, 1, 2, 2, 3, 4, 5, 9, 50])] for _ in range(rng.randrange(0, 8))]
        sc = [[rng.choice('ssd'), rng.randrange(1, 9)] for _ in range(rng.randrange(0, 16))]
        yield init, sc


def _run_fix(init, script):
    from srctools.vmf import EntityFixup, FixupValue
    fx = EntityFixup([FixupValue(c08_impl.var_name(v, (i + j) % 2), 'x', i) for j, (v, i) in enumerate(init)])
    tab = lambda: [[c08_impl.var_num(f.var), f.id] for f in fx.copy_values()]
    out = [tab()]
    for j, (k, v) in enumerate(script):
        if k == 's':
            fx[c08_impl.var_name(v, j)] = 'y'
        else:
            del fx[c08_impl.var_name(v, j + 1)]
        out.append(tab())
    return out


def _fixtab_cases(ctx):
    """Several tables side by side: copy.copy / copy.deepcopy / EntityFixup(copy_values()) then
    interleaved set / setdefault / del / pop / clear on both."""
    steps = ([['s', t, v] for t in (0, 1) for v in (1, 2, 4)] + [['d', t, v] for t in (0, 1) for v in (1, 2, 4)]
             + [['clr', 0], ['clr', 1], ['cp', 1, 0], ['cp', 0, 1], ['ctor', 1, 0], ['cp', 2, 1]])
    inits = [[], [[1, 1], [2, 2]], [[1, 1], [2, 2], [3, 3]], [[1, 2], [2, 2], [3, 1]]]
    L = ctx.budget(3, 3)
    for init in inits:
        for n in range(1, L + 1):
            for sc in itertools.product(steps, repeat=n):
                if any(s[0] in ('cp', 'ctor') for s in sc):
                    yield init, [list(s) for s in sc]
    rng = ctx.rng
    for _ in range(ctx.budget(4000, 40000)):
        init = [[rng.randrange(1, 7), rng.choice([1, 1, 2, 2, 3, 4, 5, 0])] for _ in range(rng.randrange(0, 7))]
        sc = []
        for _ in range(rng.randrange(2, 25)):
            k = rng.choice(['s', 's', 's', 'd', 'd', 'clr', 'cp', 'cp', 'ctor'])
            if k in ('s', 'd'):
                sc.append([k, rng.randrange(3), rng.randrange(1, 9)])
            elif k == 'clr':
                sc.append([k, rng.randrange(3)])
            else:
                sc.append([k, rng.randrange(3), rng.randrange(3)])
        yield init, sc


def _run_fixtabs(init, script):
    import copy
    from srctools.vmf import EntityFixup, FixupValue
    tabs = {0: EntityFixup([FixupValue(c08_impl.var_name(v, (i + j) % 2), 'x', i) for j, (v, i) in enumerate(init)])}
    dump = lambda: [([[c08_impl.var_num(f.var), f.id] for f in tabs[i].copy_values()] if i in tabs else None) for i in range(3)]
    out = [dump()]
    for j, st in enumerate(script):
        k = st[0]
        fx = tabs.get(st[1])
        if k == 's' and fx is not None:
            name = c08_impl.var_name(st[2], j)
            if j % 3 == 2 and name not in fx:
                fx.setdefault(name, 'd')
            else:
                fx[name] = 'y'
        elif k == 'd' and fx is not None:
            name = c08_impl.var_name(st[2], j + 1)
            if j % 2:
                fx.pop(name, None)
            else:
                del fx[name]
        elif k == 'clr' and fx is not None:
            fx.clear()
        elif k in ('cp', 'ctor') and st[2] in tabs:
            src = tabs[st[2]]
            tabs[st[1]] = (EntityFixup(src.copy_values()) if k == 'ctor'
                           else copy.copy(src) if j % 2 else copy.deepcopy(src))
        out.append(dump())
    return out


def _check_fixtabs(ctx, init, script, states):
    given_pos = all(i > 0 for _, i in init)
    for n, st in enumerate(states):
        for ti, tab in enumerate(st):
            if tab is None:
                continue
            idx = [i for _, i in tab]
            if len(set(idx)) != len(idx):
                ctx.witness('dup-fixup-index', f'EntityFixup({init}) then {script[:n]}: table {ti} has indexes {idx}', {'fixtab_init': init, 'fixtab_script': script[:n]})
                return
            if given_pos and any(i <= 0 for i in idx):
                ctx.witness('nonpos-fixup-index', f'EntityFixup({init}) then {script[:n]}: table {ti} has indexes {idx}', {'fixtab_init': init, 'fixtab_script': script[:n]})
                return


def _check_fix_tables(ctx, init, script, tables):
    given_pos = all(i > 0 for _, i in init)
    for t in tables:
        idx = [i for _, i in t]
        if len(set(idx)) != len(idx):
            ctx.witness('dup-fixup-index', f'EntityFixup({init}) then {script}: indexes {idx} are not distinct', {'fix_init': init, 'fix_script': script})
            return
        if given_pos and any(i <= 0 for i in idx):
            ctx.witness('nonpos-fixup-index', f'EntityFixup({init}) then {script}: non-positive index in {idx}', {'fix_init': init, 'fix_script': script})
            return


def _check_idman(ctx, script, res):
    """get_id never returns an id that is in use; positive as long as only returned ids were discarded."""
    used, own = set(), True
    for (k, v), r in zip(script, res['r']):
        if k == 'g':
            if r in used or (own and r <= 0):
                ctx.witness('idman-fresh', f'IDMan script {script}: get_id({v}) returned {r} with used={sorted(used)}', {'idman_script': script})
                return
            used.add(r)
        else:
            if v not in used and v <= 0:
                own = False
            used.discard(v)


# ------------------------------------------------------------------ the check

def _histories(ctx, n):
    rng = ctx.rng
    for i in range(n):
        prof = ['mixed', 'mixed', 'ents', 'brushes', 'fix'][i % 5]
        yield gen_history(rng, rng.randrange(6, 46), prof)


def correspond(ctx, drivers):
    drv = drivers['drv_c08']
    # (1) IDMan
    fixed = list(_idman_scripts(ctx))
    reqs = [{'op': 'idman', 'guard': None, 'script': sc} for sc in fixed]
    replies = drv.batch(reqs)
    for sc, rep in zip(fixed, replies):
        res = _run_idman(sc)
        _check_idman(ctx, sc, res)
        ctx.case({'idman': sc}, nontrivial=any(k == 'd' for k, _ in sc), sample_every=4001)
        ctx.count('idman-script')
        if res != rep:
            ctx.disagree({'idman_script': sc}, res, rep, 'IDMan script')
        ctx.traces_vs_impl += 1
    # (2) EntityFixup
    cases = list(_fix_cases(ctx))
    replies = drv.batch([{'op': 'fix', 'init': i, 'script': s} for i, s in cases])
    for (init, sc), rep in zip(cases, replies):
        tabs = _run_fix(init, sc)
        _check_fix_tables(ctx, init, sc, tabs)
        ctx.case({'fix_init': init, 'fix_script': sc}, nontrivial=len({i for _, i in init}) < len(init) or bool(sc), sample_every=5003)
        ctx.count('fixup-case')
        if tabs != rep.get('tables'):
            ctx.disagree({'fix_init': init, 'fix_script': sc}, tabs, rep, 'EntityFixup table')
        ctx.traces_vs_impl += 1
    # (2b) several tables: copies then interleaved edits
    cases = list(_fixtab_cases(ctx))
    replies = []
    for i in range(0, len(cases), 20000):
        replies += drv.batch([{'op': 'fixtabs', 'init': a, 'script': s} for a, s in cases[i:i + 20000]])
    for (init, sc), rep in zip(cases, replies):
        st = _run_fixtabs(init, sc)
        _check_fixtabs(ctx, init, sc, st)
        ctx.case({'fixtab_init': init, 'fixtab_script': sc}, nontrivial=True, sample_every=7001)
        ctx.count('fixup-tables-case')
        if st != rep.get('tables'):
            ctx.disagree({'fixtab_init': init, 'fixtab_script': sc}, st, rep, 'EntityFixup tables (copy)')
        ctx.traces_vs_impl += 1
    # (3) histories
    hists = list(_histories(ctx, ctx.budget(1200, 12000)))
    replies = []
    for i in range(0, len(hists), 400):
        replies += drv.batch([{'op': 'hist', 'cfg': None, 'ops': h} for h in hists[i:i + 400]])
    ctx.extra['history_witnesses'] = []
    for h, rep in zip(hists, replies):
        obs, viol = c08_impl.run_history(h, observe=True, oracle=True)
        ctx.case({'history': h}, nontrivial=_nontrivial(h), sample_every=301)
        for op in h:
            ctx.count('op:' + op[0])
        ctx.count('history-len<=15' if len(h) <= 15 else 'history-len<=30' if len(h) <= 30 else 'history-len>30')
        steps = rep.get('steps')
        if steps is None or len(steps) != len(obs):
            ctx.disagree({'history': h}, 'observations', rep, 'history (driver error)')
        else:
            for j, (a, b) in enumerate(zip(obs, steps)):
                if a != b:
                    ctx.disagree({'history': h[:j + 1]}, _diff(a, b)[0], _diff(a, b)[1], f'history step {j} ({h[j][0]})')
                    break
        ctx.traces_vs_impl += 1
        if viol is not None:
            _report(ctx, h, viol)


def _diff(a, b):
    """first differing component of two observations (for a readable report)."""
    if a.get('regs') != b.get('regs'):
        for x, y in itertools.zip_longest(a.get('regs', []), b.get('regs', [])):
            if x != y:
                return {'reg': x}, {'reg': y}
    for m, (x, y) in enumerate(itertools.zip_longest(a.get('maps', []), b.get('maps', []))):
        if x != y:
            for key in ('used', 'ents', 'brushes', 'spawn'):
                if (x or {}).get(key) != (y or {}).get(key):
                    return {'map': m, key: (x or {}).get(key)}, {'map': m, key: (y or {}).get(key)}
    return a, b


_reported = set()


def _fails_with(key):
    def fails(ops):
        try:
            _, v = c08_impl.run_history(ops, observe=False, oracle=True)
        except Exception:
            return False
        return v is not None and v[1] == key
    return fails


def _report(ctx, h, viol):
    step, key, text = viol
    if key in _reported:
        ctx.count('witness-again:' + key)
        return
    _reported.add(key)
    small = ddmin(h[:step + 1], _fails_with(key), budget=300)
    _, v2 = c08_impl.run_history(small, observe=False, oracle=True)
    if v2 is None or v2[1] != key:
        small, v2 = h[:step + 1], viol
    ctx.witness(key, f'{v2[2]} after the history {json.dumps(small)}', {'history': small})


def search(ctx):
    """The property stated directly on the implementation: after every step of a history no two live
    objects of one kind in one map share an id, no two entities of a map a nodeid, no two fixups of an
    entity an index, and every id is positive. Independent of the model and of the driver."""
    rng = ctx.rng
    n = ctx.budget(2500, 25000)
    extra = []
    # regression corpus: the witnesses of every finding recorded for this property (fixed ones must pass)
    import common
    for k in common.load_known(PID):
        h = (k.get('witness') or {}).get('history')
        if h and k.get('status') == 'fixed':
            extra.append(h)
            ctx.count('corpus-history')
    for d in ctx.disagreements[:20]:
        h = d['case'].get('history')
        if h:
            extra += [h, h + h[1:]] + [h[:i] + h[i + 1:] for i in range(1, len(h))]
    for i in range(n + len(extra)):
        if i < len(extra):
            h = extra[i]
        else:
            prof = ['ents', 'mixed', 'brushes', 'fix', 'ents'][i % 5]
            h = gen_history(rng, rng.randrange(5, 31), prof)
        if i >= len(extra) and i % 4 == 1:
            # error paths: after each of up to 3 setnode/ent steps, an assignment that raises and is caught
            h = list(h)
            spots = [k for k, op in enumerate(h) if op[0] in ('ent', 'addent', 'setnode')]
            for k in sorted(rng.sample(spots, min(3, len(spots))), reverse=True):
                if h[k][0] == 'ent' or len(h[k]) > 1:
                    h.insert(k + 1, ['setnode_raise', h[k][1], rng.randrange(8)])
            ctx.count('search-history with raising assignments')
        try:
            _, viol = c08_impl.run_history(h, observe=False, oracle=True)
        except Exception as e:
            ctx.notes.append(f'search: history raised {type(e).__name__}: {e}: {json.dumps(h)[:300]}')
            continue
        ctx.count('search-history')
        if viol is not None:
            _report(ctx, h, viol)
    # instance collapse (srctools.instancing; not in the model): collapsing generated instance maps,
    # the same file twice and two files, into a generated host map must leave the host's ids unique
    _search_collapse(ctx, ctx.budget(150, 1500))
    # unit oracles when the driver could not be used
    if ctx.evaluations == 0:
        for sc in itertools.islice(_idman_scripts(ctx), 20000):
            if all(not (k == 'd' and v > 100) for k, v in sc):
                _check_idman(ctx, sc, _run_idman(sc))
        for init, sc in itertools.islice(_fix_cases(ctx), 20000):
            _check_fix_tables(ctx, init, sc, _run_fix(init, sc))
        for init, sc in itertools.islice(_fixtab_cases(ctx), 30000):
            _check_fixtabs(ctx, init, sc, _run_fixtabs(init, sc))


def _collapse_case(host_doc, inst_docs, salt):
    import io
    from srctools.vmf import VMF
    from srctools.keyvalues import Keyvalues
    from srctools.math import Vec, Matrix
    from srctools import instancing
    parse = lambda d, s: VMF.parse(Keyvalues.parse(io.StringIO(c08_impl.doc_text(d, s)), 'doc'))
    host = parse(host_doc, salt)
    for j, d in enumerate(inst_docs):
        f = instancing.InstanceFile(parse(d, salt + j))
        inst = instancing.Instance('inst%d' % j, 'x.vmf', Vec(j * 128, 0, 0), Matrix(), instancing.FixupStyle.PREFIX)
        instancing.collapse_one(host, inst, f, visgroup=(j == 0))
        instancing.collapse_one(host, inst, f)
    im = c08_impl.Impl()
    im.maps = [host]
    return im.violations(True)


def _search_collapse(ctx, n):
    import logging
    logging.disable(logging.WARNING)
    rng = ctx.rng
    try:
        for i in range(n):
            hd = gen_doc(rng, False)
            ids = [gen_doc(rng, False) for _ in range(rng.choice([1, 2]))]
            try:
                v = _collapse_case(hd, ids, i)
            except Exception as e:
                ctx.notes.append(f'search: collapse raised {type(e).__name__}: {e}')
                ctx.count('collapse-raised')
                continue
            ctx.count('search-collapse')
            if v and ('collapse:' + v[0][0]) not in _reported:
                _reported.add('collapse:' + v[0][0])
                ctx.witness('collapse-' + v[0][0], f'after instance collapse: {v[0][1]}', {'collapse': [hd, ids, i]})
    finally:
        logging.disable(logging.NOTSET)


def _replay_input(inp):
    """True = property holds."""
    if 'history' in inp:
        obs, viol = c08_impl.run_history(inp['history'], observe=True, oracle=True)
        for op, o in zip(inp['history'], obs):
            print(' ', json.dumps(op), '->', json.dumps({'used': [m['used'] for m in o['maps']], 'regs': o['regs']})[:300])
        print('  violation:', viol)
        return viol is None
    if 'collapse' in inp:
        v = _collapse_case(*inp['collapse'])
        print('  violations:', v)
        return not v
    if 'idman_script' in inp:
        class C:  # minimal ctx
            w = []
            def witness(self, *a): self.w.append(a)
        c = C()
        res = _run_idman(inp['idman_script'])
        print('  ', res)
        _check_idman(c, inp['idman_script'], res)
        return not c.w
    if 'fixtab_init' in inp:
        class C:
            w = []
            def witness(self, *a): self.w.append(a)
        c = C()
        st = _run_fixtabs(inp['fixtab_init'], inp['fixtab_script'])
        print('  ', st)
        _check_fixtabs(c, inp['fixtab_init'], inp['fixtab_script'], st)
        return not c.w
    if 'fix_init' in inp:
        class C:
            w = []
            def witness(self, *a): self.w.append(a)
        c = C()
        tabs = _run_fix(inp['fix_init'], inp['fix_script'])
        print('  ', tabs)
        _check_fix_tables(c, inp['fix_init'], inp['fix_script'], tabs)
        return not c.w
    print('replay file names a broken obligation/correspondence, no input to replay')
    return False


def replay(ctx, payload):
    inp = payload.get('input') or {}
    if not inp:
        ds = payload.get('disagreements') or []
        if ds and 'history' in ds[0].get('case', {}):
            print('correspondence case (model and implementation differ, property itself not violated):')
            _replay_input(ds[0]['case'])
        print('broken:', payload.get('broken_obligations'))
        return False
    return _replay_input(inp)


def replay_known(ctx, finding):
    w = finding.get('witness') or {}
    if 'history' not in w:
        return None
    _, viol = c08_impl.run_history(w['history'], observe=False, oracle=True)
    return viol is not None


LEVEL_TEXT = ("C08_fresh / C08_hint (IDMan.get_id returns a positive id that is not in use, within |used|+1 probes; the "
              "search_pos hint invariant) and C08_fixup (replaceNN indexes of one table pairwise distinct, positive when "
              "the given ones are) are proved for all inputs. C08_unique is proved by induction over every history of the "
              "operation language (create with any desired id, add/remove, copy within/across maps, reference drops with "
              "reference-counting collection, nodeid set/del/pop, parse of documents with colliding ids, fixup edits): in every "
              "reachable state live objects of one kind in one map have pairwise distinct positive ids that are registered "
              "in the manager, and likewise for nodeid numbers. C08_double_release proves (decide +kernel) that with the "
              "release sites of the original source the invariant fails on 9-step histories (C08_double_remove, C08_node_release, C08_nonpositive: each part of the soundness condition is necessary). The release sites are "
              "re-extracted from vmf.py on every run (C08_gen_cfg, C08_gen_sites).")
LEVEL_NOTE = ("Trusted: Lean kernel + propext/Classical.choice/Quot.sound; tools/gen_c08.py; the correspondence harness; "
              "CPython running __del__ exactly once when the last reference is dropped. NullIDMan (preserve_ids=True), "
              "copy.copy/pickle clones and srctools.instancing are not modelled.")
TECHNIQUE = "Lean 4 proof: state invariant by induction over operation histories, parameterised by the extracted release sites; translator + step-by-step differential correspondence with explicit lifetime control"
DESIGN_REF = "DESIGN.md section 6, C08"
