"""C11: instrumentation of BSP.save() for the lumps with cross references (faces, brushes + sides, leafs, nodes).

`install(bsp, cfg)` wraps the writer functions of ONE BSP object (instance attribute `_save_funcs`, no source
hook): just before each of these writers runs it records the tables the writer's find_or_insert / find_or_extend
closures will start from (as object numbers) and the elements to write; just after, the bytes produced (main
lump and the side lumps) and the tables.  `requests(log)` turns that into driver requests for the Lean model
(`Model/C11Lumps.lean`) and the replies expected from it."""
import inspect
import c11_world as W


class Numberer:
    """object identity -> small number (objects are kept alive so ids are not reused)"""
    def __init__(self):
        self.ids, self.keep = {}, []

    def n(self, obj):
        k = id(obj)
        if k not in self.ids:
            self.ids[k] = len(self.ids) + 1
            self.keep.append(obj)
        return self.ids[k]

    def ns(self, lst):
        return [self.n(o) for o in lst]


class Names:
    """texture / material names -> numbers (by exact spelling); str.casefold as a table on those numbers"""
    def __init__(self):
        self.ids, self.classes = {}, {}

    def n(self, s):
        if s not in self.ids:
            self.ids[s] = len(self.ids) + 1
        return self.ids[s]

    def fold_table(self):
        out = []
        for s, i in self.ids.items():
            c = self.classes.setdefault(s.casefold(), 1000000 + len(self.classes))
            out.append([i, c])
        return out


def install(bsp, cfg):
    from srctools.bsp import BSP, BSP_LUMPS, VisLeaf
    N = Numberer()
    names = Names()
    log = []
    layout = W.CONFIG_BY_NAME[cfg][4]
    vit, chaos = cfg == 'vitamin', cfg == 'chaos'

    def bound(v):
        return {'f': W.f32bits(float(v))} if chaos else {'i': int(v)}

    def face_json(f):
        return {'plane': N.n(f.plane), 'sameDir': bool(f.same_dir_as_plane), 'onNode': bool(f.on_node), 'edges': N.ns(f.edges),
                'texinfo': None if f.texinfo is None else N.n(f.texinfo), 'dispinfo': f._dispinfo_ind, 'fog': f.surf_fog_volume_id,
                'ls': list(f.light_styles), 'lightOff': f._lightmap_off, 'area': W.f32bits(f.area),
                'lm': [*f.lightmap_mins, *f.lightmap_size], 'orig': None if f.orig_face is None else N.n(f.orig_face),
                'prims': N.ns(f.primitives), 'dyn': bool(f.dynamic_shadows), 'smoothing': f.smoothing_groups, 'hid': f.hammer_id}

    def pre(lump, self, data):
        if lump in (BSP_LUMPS.FACES, BSP_LUMPS.FACES_HDR, BSP_LUMPS.ORIGINALFACES) and not vit:
            uo = lump is not BSP_LUMPS.ORIGINALFACES
            return {'op': 'x_faces', 'layout': layout, 'useOrig': uo,
                    'tabs': {'texinfo': N.ns(self.texinfo), 'planes': N.ns(self.planes), 'surfedges': N.ns(self.surfedges),
                             'prims': N.ns(self.primitives), 'origFaces': N.ns(self.orig_faces) if uo else []},
                    'faces': [face_json(f) for f in data]}
        if lump is BSP_LUMPS.FACES and vit:
            return {'op': 'x_vfaces',
                    'tabs': {'texinfo': N.ns(self.texinfo), 'planes': N.ns(self.planes), 'surfedges': N.ns(self.surfedges)},
                    'faces': [{'plane': N.n(f.plane), 'texinfo': None if f.texinfo is None else N.n(f.texinfo), 'dispinfo': f._dispinfo_ind,
                               'edges': N.ns(f.edges), 'lm': [*f.lightmap_mins, *f.lightmap_size], 'flags': f.vitamin_flags} for f in data]}
        if lump is BSP_LUMPS.LEAFWATERDATA:
            return {'op': 'x_water', 'layout': layout, 'texinfo': N.ns(self.texinfo),
                    'items': [{'sz': W.f32bits(x.surface_z), 'mz': W.f32bits(x.min_z), 'texinfo': N.n(x.surface_texinfo)} for x in data]}
        if lump == b'dprp':
            from srctools.bsp import DetailPropModel, DetailPropShape
            props = []
            for d in data:
                q = {'f6': [W.f32bits(x) for x in (*d.origin, d.angles.pitch, d.angles.yaw, d.angles.roll)], 'leaf': d.leaf,
                     'lighting': list(d.lighting), 'styles': d._light_styles[0], 'styleCount': d._light_styles[1], 'sway': d.sway_amount,
                     'orient': d.orientation.value}
                if isinstance(d, DetailPropModel):
                    q['model'] = names.n(d.model)
                else:
                    q['rect'] = [W.f32bits(x) for x in (*d.dims_upper_left, *d.dims_lower_right, *d.texcoord_upper_left, *d.texcoord_lower_right)]
                    q['scale'] = W.f32bits(d.sprite_scale)
                    if isinstance(d, DetailPropShape):
                        q.update(cross=bool(d.is_cross), ang=d.shape_angle, size=d.shape_size)
                props.append(q)
            return {'op': 'x_detail', 'props': props,
                    'names': [[i, list(s_.encode('ascii', 'surrogateescape'))] for s_, i in names.ids.items()]}
        if lump == b'sprp':
            return {'op': 'x_propidx', 'visleafs': N.ns(self.visleafs),
                    'props': [{'model': names.n(p_.model), 'leafs': N.ns(list(p_.visleafs))} for p_ in data]}
        if lump is BSP_LUMPS.MODELS:
            spawn = self.ents.spawn
            md = {}
            for m in data.values():
                md[N.n(m)] = {'floats': [W.f32bits(x) for x in (*m.mins, *m.maxes, *m.origin)], 'node': N.n(m.node), 'faces': N.ns(m.faces),
                              'kv': None if m.phys_keyvalues is None else list(m.phys_keyvalues.serialise().encode('ascii')),
                              'solids': [list(x) for x in m._phys_solids]}
            ents = [e for e in data.keys() if e is not spawn]
            return {'op': 'x_bmodels', 'nodes': N.ns(self.nodes), 'faces': N.ns(self.faces), 'world': N.n(data[spawn]),
                    'entModels': [N.n(data[e]) for e in ents], 'md': [[k, v] for k, v in md.items()], '_ents': ents}
        if lump is BSP_LUMPS.BRUSHES:
            sides = {}
            for b in data:
                for s in b.sides:
                    sides[N.n(s)] = {'plane': N.n(s.plane), 'texinfo': N.n(s.texinfo), 'dispinfo': s._dispinfo,
                                     'bevel': bool(s.is_bevel_plane), 'bits': int(s._unknown_bevel_bits)}
            return {'op': 'x_brushes', 'layout': layout, 'vitamin': vit,
                    'tabs': {'planes': N.ns(self.planes), 'texinfo': N.ns(self.texinfo)},
                    'sides': [[k, v] for k, v in sides.items()],
                    'brushes': [{'contents': b.contents.value, 'sides': N.ns(b.sides)} for b in data]}
        if lump is BSP_LUMPS.LEAFS:
            return {'op': 'x_leafs', 'layout': layout,
                    'cfg': {'vitamin': vit, 'hasAmbient': (not vit) and self.version <= 19, 'areaOff': self.lump_layout['LEAF_AREA_OFFSET']},
                    'tabs': {'faces': N.ns(self.faces), 'brushes': N.ns(self.brushes)},
                    'leafs': [{'contents': l.contents.value, 'cluster': l.cluster_id, 'area': l.area, 'flags': l.flags.value,
                               'b': [bound(l.mins.x), bound(l.mins.y), bound(l.mins.z), bound(l.maxes.x), bound(l.maxes.y), bound(l.maxes.z)],
                               'faces': N.ns(l.faces), 'brushes': N.ns(l.brushes), 'water': l.water_id, 'ambient': list(l._ambient),
                               'minDist': l.min_water_dist} for l in data]}
        if lump is BSP_LUMPS.PRIMITIVES and not vit:
            return {'op': 'x_prims', 'layout': layout,
                    'prims': [{'typ': int(p.is_tristrip), 'indices': list(p.indexed_verts),
                               'verts': [[W.f32bits(v.x), W.f32bits(v.y), W.f32bits(v.z)] for v in p.verts]} for p in data]}
        if lump is BSP_LUMPS.TEXINFO:
            tds = {}
            for info in data:
                t = info._info
                tds[N.n(t)] = {'mat': names.n(t.mat), 'r': [W.f32bits(t.reflectivity.x), W.f32bits(t.reflectivity.y), W.f32bits(t.reflectivity.z)],
                               'w': t.width, 'h': t.height}
            tex = [names.n(x) for x in self.textures]
            return {'op': 'x_texinfo', 'layout': layout, 'vitamin': vit, 'textures': tex,
                    'fold': names.fold_table(), 'tdv': [[k, v] for k, v in tds.items()],
                    'infos': [{'f': [W.f32bits(x) for x in (*i.s_off, i.s_shift, *i.t_off, i.t_shift, *i.lightmap_s_off, i.lightmap_s_shift,
                                                             *i.lightmap_t_off, i.lightmap_t_shift)],
                               'flags': i.flags.value, 'td': N.n(i._info)} for i in data]}
        if lump is BSP_LUMPS.OVERLAYS:
            fl = lambda o: [W.f32bits(x) for x in (o.u_min, o.u_max, o.v_min, o.v_max, *o.uv1, *o.uv2, *o.uv3, *o.uv4, *o.origin, *o.normal)]
            return {'op': 'x_overlays', 'texinfo': N.ns(self.texinfo),
                    'overlays': [{'id': o.id, 'texinfo': N.n(o.texture), 'faces': list(o.faces), 'ro': o.render_order, 'floats': fl(o),
                                  'fmin': W.f32bits(o.fade_min_sq), 'fmax': W.f32bits(o.fade_max_sq),
                                  'levels': [o.min_cpu, o.max_cpu, o.min_gpu, o.max_gpu]} for o in data]}
        if lump is BSP_LUMPS.SURFEDGES:
            from srctools.bsp import RevEdge
            from srctools.math import Vec
            verts = list(self.vertexes)
            zeros = [N.n(v) for v in verts if v == Vec()]
            fresh, dummy = 9000001 + len(log), 9500001 + len(log)
            fv = zeros[0] if zeros else fresh
            ed, ss = {dummy: (fv, fv)}, []
            for e in data:
                base = e.opposite if isinstance(e, RevEdge) else e
                ed[N.n(base)] = (N.n(base.a), N.n(base.b))
                ss.append([N.n(base), isinstance(e, RevEdge)])
            return {'op': 'x_surfedges', 'layout': layout, 'verts': N.ns(verts), 'zeros': zeros, 'fresh': fresh, 'dummy': dummy,
                    'ed': [[k, a, b] for k, (a, b) in ed.items()], 'ss': ss, '_nverts': len(verts), '_haszero': bool(zeros)}
        if lump is BSP_LUMPS.NODES:
            nd, todo = {}, list(data)
            while todo:
                n = todo.pop()
                if N.n(n) in nd:
                    continue
                def child(c):
                    if isinstance(c, VisLeaf):
                        return {'leaf': N.n(c)}
                    todo.append(c)
                    return {'node': N.n(c)}
                nd[N.n(n)] = {'plane': N.n(n.plane), 'faces': N.ns(n.faces), 'area': n.area_ind,
                              'b': [bound(n.mins.x), bound(n.mins.y), bound(n.mins.z), bound(n.maxes.x), bound(n.maxes.y), bound(n.maxes.z)],
                              'neg': child(n.child_neg), 'pos': child(n.child_pos)}
            return {'op': 'x_nodes', 'layout': layout, 'nodes': N.ns(data), 'nd': [[k, v] for k, v in nd.items()],
                    'fuel': 4 * len(nd) + 8,
                    'tabs': {'planes': N.ns(self.planes), 'leafs': N.ns(self.visleafs), 'faces': N.ns(self.faces)}}
        return None

    def post(lump, self, data, req, out):
        L = lambda name: list(self.lumps[getattr(BSP_LUMPS, name)].data)
        if req['op'] == 'x_faces':
            exp = {'bytes': list(out), 'tabs': {'texinfo': N.ns(self.texinfo), 'planes': N.ns(self.planes), 'surfedges': N.ns(self.surfedges),
                                                 'prims': N.ns(self.primitives),
                                                 'origFaces': N.ns(self.orig_faces) if req['useOrig'] else []}}
            if req['useOrig'] and any(f['orig'] is not None for f in req['faces']):
                exp['faceids'] = L('FACEIDS')
            return exp
        if req['op'] == 'x_vfaces':
            return {'bytes': list(out), 'tabs': {'texinfo': N.ns(self.texinfo), 'planes': N.ns(self.planes), 'surfedges': N.ns(self.surfedges)}}
        if req['op'] == 'x_water':
            return {'bytes': list(out), 'texinfo': N.ns(self.texinfo)}
        if req['op'] == 'x_detail':
            return {'bytes': list(out)}
        if req['op'] == 'x_propidx':
            import struct as _st
            ver = self.static_prop_version
            nmod = _st.unpack_from('<i', out, 0)[0]
            mods = [out[4 + 128 * k: 4 + 128 * (k + 1)].rstrip(b'\0').decode('ascii', 'surrogateescape') for k in range(nmod)]
            pos = 4 + 128 * nmod
            nleaf = _st.unpack_from('<i', out, pos)[0]
            code = self.lump_layout['STATICPROPLEAF'].format[1]
            width = _st.calcsize('<' + code)
            arr = list(_st.unpack_from('<%d%s' % (nleaf, code), out, pos + 4))
            pos += 4 + width * nleaf
            nprops = _st.unpack_from('<i', out, pos)[0]
            pos += 4
            recs = []
            for k in range(nprops):
                mi, first, count = _st.unpack_from('<HHH', out, pos + ver.size * k + 24)
                recs.append([first, count, mi])
            return {'recs': recs, 'leafArray': arr, 'models': [names.n(m) for m in mods], 'visleafs': N.ns(self.visleafs)}
        if req['op'] == 'x_bmodels':
            ents = req.pop('_ents')
            return {'idx': [int(e['model'][1:]) for e in ents], 'bytes': list(out), 'phys': L('PHYSCOLLIDE'),
                    'nodes': N.ns(self.nodes), 'faces': N.ns(self.faces)}
        if req['op'] == 'x_brushes':
            return {'brushes': list(out), 'sides': L('BRUSHSIDES'),
                    'tabs': {'planes': N.ns(self.planes), 'texinfo': N.ns(self.texinfo)}}
        if req['op'] == 'x_leafs':
            return {'leafs': list(out), 'leaffaces': L('LEAFFACES'), 'leafbrushes': L('LEAFBRUSHES'), 'mindist': L('LEAFMINDISTTOWATER'),
                    'tabs': {'faces': N.ns(self.faces), 'brushes': N.ns(self.brushes)}}
        if req['op'] == 'x_overlays':
            return {'overlays': list(out), 'fades': L('OVERLAY_FADES'), 'levels': L('OVERLAY_SYSTEM_LEVELS'), 'texinfo': N.ns(self.texinfo)}
        if req['op'] == 'x_surfedges':
            if not req['_haszero']:      # the Vec() the writer created and appended: give it the number announced to the model
                obj = self.vertexes[req['_nverts']]
                N.ids[id(obj)] = req['fresh']
                N.keep.append(obj)
            return {'surfedges': list(out), 'edges': L('EDGES'), 'verts': N.ns(self.vertexes)}
        if req['op'] == 'x_prims':
            return {'prims': list(out), 'indices': L('PRIMINDICES'), 'verts': L('PRIMVERTS')}
        if req['op'] == 'x_texinfo':
            return {'texinfo': list(out), 'texdata': L('TEXDATA'), 'textures': [names.n(x) for x in self.textures]}
        if req['op'] == 'x_nodes':
            return {'bytes': list(out), 'nodes': N.ns(data),
                    'tabs': {'planes': N.ns(self.planes), 'leafs': N.ns(self.visleafs), 'faces': N.ns(self.faces)}}

    def wrap(lump, fn):
        def w(self, data):
            try:
                req = pre(lump, self, data)
            except Exception as e:       # never let the instrumentation change the outcome of save()
                req = None
                log.append(('capture-error', f'{lump}: {type(e).__name__}: {e}', None))
            out = fn(self, data)
            if inspect.isgenerator(out):
                out = b''.join(out)
            if req is not None:
                try:
                    log.append((lump.name if hasattr(lump, 'name') else lump.decode('ascii'), req, post(lump, self, data, req, out)))
                except Exception as e:
                    log.append(('capture-error', f'{lump}: {type(e).__name__}: {e}', None))
            return out
        return w

    bsp._save_funcs = {k: wrap(k, f) for k, f in BSP._save_funcs.items()}
    return log


def compare(req, exp, rep):
    """None if the model's reply agrees with what the implementation wrote, else a description."""
    if 'err' in rep:
        return f'model: {rep["err"]}'
    for k, v in exp.items():
        if rep.get(k) != v:
            return f'{k}: implementation {str(v)[:160]} model {str(rep.get(k))[:160]}'
    return None
