"""C10 — saving an unmodified BSP is lossless whichever lumps were looked at."""
import os, json, itertools, tempfile, shutil, pathlib, random, time
import common
import c10_synth as synth
import c10_util as U

PID = 'C10'
GENS = ['bsp']
DRIVERS = ['drv_c10']
PROPS = 'Srctools.Props.C10'
RULE = ("files: the sample tests/test_vec/rot_main.bsp and BSPs synthesised byte-by-byte by harness/c10_synth.py "
        "(v19 / v20 / v21 / L4D2 header order / INFRA / Chaos v25 / VitaminSource layouts; static-prop versions 4-13 incl. "
        "lightmapped and Mesa; LZMA-compressed lumps and game lumps; non-empty water, faces, overlays, props, detail props, "
        "physics, visibility, pakfile; random bytes in the lumps that have no view). A case = (file, sequence of view reads, "
        "then save, re-read, save again). Sequences: none, every single view, every 2-subset (random order), random larger "
        "subsets/orders, all views; plus SESSIONS: 2-3 BSP objects over different variants alive at once with their opens, "
        "reads and saves interleaved at random, every object compared with the single-object model after every step. "
        "Non-trivial = at least one view read; distinct by (file variant, sequence) / by session.")
TRUSTED = ["model: C10.access / C10.save (lean/Srctools/Model/C10.lean) over the tables regenerated from bsp.py by "
           "tools/gen_bsp.py; lump contents are abstract (provenance tags in the driver)",
           "the reader/writer view dependencies used by the driver on a concrete file are the ones traced on that file "
           "(harness/c10_util.Tracer) and are checked to be a subset of the statically extracted ones",
           "LZMA (lzma module), zipfile: decompress(compress b) = b assumed; exercised, not proved"]
NOT_MODELLED = ["16 of the 21 lump codecs (abstract in the model, hypothesis rd(wr(rd x)) = rd x at the file's parse; exercised by the round trip "
                "on the implementation here); planes, vertexes, cubemaps, textures, visibility use C11's concrete reader/writer models (C10_content_concrete)",
                "mutation of other views' objects by readers other than the bmodels/ents `model` key (faces set orig_face.texinfo / hammer_id)",
                "DeferredWrites / AtomicWriter mechanics (C12); file offsets are modelled as prefix sums (Model/C10Bytes.lean)"]
ASSUMPTIONS = ["the input file is well formed: FACEIDS has one entry per face, a vertex (0,0,0) exists, floats are float32 values, "
               "angles lie in [0,360), cross references are in range (synthesised files are built that way)"]

SAMPLE = common.REPO / 'tests' / 'test_vec' / 'rot_main.bsp'


# ----------------------------------------------------------------------------- files

class FileInfo:
    def __init__(self, label, path, variant=None, info=None):
        self.label, self.path, self.variant, self.info = label, str(path), variant, info or {}
        self.base = None       # (hdr, raw, graw, dump) of a fresh read
        self.rd = self.wd = None
        self.brush_ents = []
        self.fail_views = set()   # names of views whose parser raises on this file (corrupted / unknown-version lumps)


def make_files(ctx, tmp, variants=None):
    files = []
    for v in (variants or synth.VARIANTS):
        data, lumps, game, info = synth.build(v, random.Random(f'C10-files:{ctx.seed}:{v.name}'))
        p = pathlib.Path(tmp) / f'{v.name}.bsp'
        p.write_bytes(data)
        files.append(FileInfo(v.name, p, v, info))
    if SAMPLE.exists():
        p = pathlib.Path(tmp) / 'sample_rot_main.bsp'
        shutil.copyfile(SAMPLE, p)
        files.append(FileInfo('sample', p))
    return files


def prepare(ctx, f, T, tmp):
    """Baseline summary + traced dependencies of one file. Returns an error string when reading every view and
    saving (the tracing run) raised — the static dependencies are used then."""
    names = T['names']
    f.base = U.file_summary(f.path)
    f.brush_ents = [i for i, e in enumerate(f.base[3]['ents']) if i > 0 and any(k.casefold() == 'model' and v.startswith('*') for k, v in e['kv'])]
    B = U.impl()
    f.fail_views = set()
    for n in names:
        try:
            getattr(B.BSP(f.path), n)
        except Exception:
            f.fail_views.add(n)
    try:
        rd, wd = U.dynamic_deps(f.path, os.path.join(tmp, 'trace_out.bsp'), names, tolerate=f.fail_views)
        f.rd = [[T['idx'][x] for x in rd[n]] for n in names]
        f.wd = [[T['idx'][x] for x in wd[n]] for n in names]
        return None
    except Exception as e:
        if T.get('raw'):
            f.rd = [list(v['rdeps']) for v in T['raw']['views']]
            f.wd = [list(v['wdeps']) for v in T['raw']['views']]
        else:
            f.rd = [[] for _ in names]
            f.wd = [[] for _ in names]
        return f'{type(e).__name__}: {e}'


# ----------------------------------------------------------------------------- one case on the implementation

def ents_stripped(bsp, f):
    """Has the parsed entity view lost `model` keys of brush entities?"""
    B = U.impl()
    vmf = bsp._parsed_lumps.get(B.BSP_LUMPS.ENTITIES)
    if vmf is None or not f.brush_ents:
        return None
    ents = [vmf.spawn] + list(vmf.entities)
    return any('model' not in ents[i] for i in f.brush_ents if i < len(ents))


def first_diff(a, b, path=''):
    if type(a) != type(b):
        return f'{path}: {a!r} != {b!r}'[:300]
    if isinstance(a, dict):
        for k in sorted(set(a) | set(b), key=str):
            if k not in a or k not in b:
                return f'{path}.{k}: present only on one side'
            d = first_diff(a[k], b[k], f'{path}.{k}')
            if d:
                return d
        return None
    if isinstance(a, list):
        if len(a) != len(b):
            return f'{path}: length {len(a)} != {len(b)}'
        for i, (x, y) in enumerate(zip(a, b)):
            d = first_diff(x, y, f'{path}[{i}]')
            if d:
                return d
        return None
    return None if a == b else f'{path}: {a!r} != {b!r}'[:300]


def compare_saved(f, out1, T, any_read):
    """The direct oracle: the saved file `out1` must read back as file `f` (header, view-less lumps byte for byte,
    all lumps if nothing was read, equal canonical dump of every view).  -> [(key, what)]"""
    problems = []
    hdr0, raw0, graw0, dump0 = f.base
    gids = T['game_ids']
    try:
        with U.quiet():
            hdr1, raw1, graw1, dump1 = U.file_summary(out1)
    except Exception as e:
        problems.append((f'unreadable:{type(e).__name__}', f'the saved file cannot be read back: {type(e).__name__}: {e}'))
        return problems
    if hdr1 != hdr0:
        problems.append(('header', 'header differs after save: ' + str(first_diff(hdr0, hdr1, 'hdr'))))
    for l in sorted(raw0):
        if not T['owned'][l] and l != 35 and raw1.get(l) != raw0[l]:
            problems.append((f'raw:{T["lump_names"].get(l, l)}', f'lump {T["lump_names"].get(l, l)} has no parsed view but its bytes changed ({len(raw0[l])} -> {len(raw1.get(l, b""))} bytes)'))
    for g in graw0:
        if g.decode('latin-1') not in gids and graw1.get(g) != graw0[g]:
            problems.append((f'raw:game:{g.decode("latin-1")}', f'game lump {g!r} has no parsed view but its bytes changed'))
    if not any_read:
        for l in sorted(raw0):
            if l != 35 and raw1.get(l) != raw0[l]:
                problems.append((f'raw-noaccess:{T["lump_names"].get(l, l)}', f'no view was read, but lump {T["lump_names"].get(l, l)} changed'))
        for g in graw0:
            if graw1.get(g) != graw0[g]:
                problems.append((f'raw-noaccess:game:{g.decode("latin-1")}', f'no view was read, but game lump {g!r} changed'))
    for view in dump0:
        if dump1.get(view) != dump0[view]:
            problems.append((f'content:{view}', f'parsed content of `{view}` differs after save: ' + str(first_diff(dump0[view], dump1.get(view), view))))
    return problems


# ----------------------------------------------------------------------------- argument forms
# Forms the code accepts TODAY (established on the unchanged tree): the file name as str / pathlib.Path / any
# os.PathLike for BSP(...) and save(...); save() / save(None) / save(same path) in place, save(other path),
# positional or filename=; views read with getattr(...) or attribute syntax; a view re-assigned to itself
# (bsp.x = bsp.x) after it was read; the pakfile ZipFile used for reading (namelist / read).
# Rejected today, outside the domain: a bytes path (TypeError from open()); `with bsp.pakfile as z:` followed by
# save() (ZipFile.close() drops its fp -> ValueError 'Zipfile has no buffer?', nothing is written).
# Every accepted form must behave exactly like the canonical one: the model ignores the form.

class _PathLike:
    def __init__(self, p):
        self.p = p

    def __fspath__(self):
        return self.p


CANONICAL_FORMS = {'open': 'str', 'read': 'getattr', 'selfassign': False, 'save': 'other-str', 'pakuse': False}


def path_form(kind, p):
    return {'str': lambda: p, 'Path': lambda: pathlib.Path(p), 'PathLike': lambda: _PathLike(p)}[kind]()


def gen_forms(rng):
    if rng.random() < 0.4:
        return dict(CANONICAL_FORMS)
    return {'open': rng.choice(['str', 'Path', 'PathLike']), 'read': rng.choice(['getattr', 'attr']),
            'selfassign': rng.random() < 0.3, 'pakuse': rng.random() < 0.5,
            'save': rng.choice(['other-str', 'other-Path', 'other-PathLike', 'other-kw', 'inplace-noarg', 'inplace-None',
                                'inplace-same-str', 'inplace-same-Path'])}


def read_view(b, name, forms):
    if forms['read'] == 'attr':
        val = eval('b.' + name, {'b': b})
    else:
        val = getattr(b, name)
    if forms['pakuse'] and name == 'pakfile':
        for n in val.namelist():
            val.read(n)
    if forms['selfassign']:
        setattr(b, name, val)          # bsp.x = bsp.x must change nothing
    return val


def do_save(b, forms, src, out):
    """save in the given form; returns the path the file was written to."""
    k = forms['save']
    if k == 'other-str':
        b.save(out)
    elif k == 'other-Path':
        b.save(pathlib.Path(out))
    elif k == 'other-PathLike':
        b.save(_PathLike(out))
    elif k == 'other-kw':
        b.save(filename=out)
    elif k == 'inplace-noarg':
        b.save(); return src
    elif k == 'inplace-None':
        b.save(None); return src
    elif k == 'inplace-same-str':
        b.save(src); return src
    elif k == 'inplace-same-Path':
        b.save(pathlib.Path(src)); return src
    return out


def impl_case(f, seq, T, tmp, tag='c', forms=None):
    """Runs (open; read the views of `seq`; save; re-read; save again) on the implementation.
    Returns (steps, problems): steps = one observation per read plus one after save;
    problems = [(key, what)] for every way the PROPERTY fails on this case."""
    B = U.impl()
    names, gids = T['names'], T['game_ids']
    problems = []
    steps = []
    forms = forms or CANONICAL_FORMS
    out1 = os.path.join(tmp, f'{tag}_1.bsp')
    out2 = os.path.join(tmp, f'{tag}_2.bsp')
    hdr0, raw0, graw0, dump0 = f.base
    src = f.path
    if forms['save'].startswith('inplace'):
        src = os.path.join(tmp, f'{tag}_src.bsp')       # saving in place: work on a copy of the input
        shutil.copyfile(f.path, src)
    try:
        with U.quiet():
            b = B.BSP(path_form(forms['open'], src))
            orig = U.raw_snapshot(b, gids)
            for v in seq:
                raised = None
                try:
                    read_view(b, names[v], forms)
                except Exception as e:
                    if names[v] not in f.fail_views:
                        raise
                    raised = type(e).__name__      # the caller catches the parse error and goes on
                empty, parsed = U.observe(b, gids)
                steps.append({'empty': empty, 'parsed': parsed, 'raw': U.raw_snapshot(b, gids), 'stripped': ents_stripped(b, f),
                              'raised': raised})
            out1 = do_save(b, forms, src, out1)
            empty, parsed = U.observe(b, gids)
            steps.append({'empty': empty, 'parsed': parsed, 'raw': U.raw_snapshot(b, gids), 'stripped': ents_stripped(b, f),
                          'raised': None})
    except Exception as e:
        problems.append((f'exception:{type(e).__name__}', f'{type(e).__name__}: {e} while reading views / saving'))
        return steps, problems, None
    # ---- the property, on the saved file
    probs = compare_saved(f, out1, T, bool(seq))
    problems += probs
    if any(k.startswith('unreadable') for k, _ in probs):
        return steps, problems, orig
    # ---- saving the result again changes nothing
    try:
        with U.quiet():
            b2 = B.BSP(out1)
            for v in seq:
                try:
                    getattr(b2, names[v])
                except Exception:
                    if names[v] not in f.fail_views:
                        raise
            b2.save(out2)
        if pathlib.Path(out1).read_bytes() != pathlib.Path(out2).read_bytes():
            problems.append(('idempotent', 'reading the saved file the same way and saving again gives different bytes'))
    except Exception as e:
        problems.append((f'exception2:{type(e).__name__}', f'{type(e).__name__}: {e} on the second save'))
    return steps, problems, orig


INITIAL_OBS = {'parsed': [], 'raw': None, 'pending': [], 'stuck': False}


def model_ops(f, seq, T):
    """ops for the driver: reads whose parser raises on this file (before it touches another view) leave the object
    unchanged and are not sent."""
    return [v for v in seq if T['names'][v] not in f.fail_views] + [-1]


def compare_with_model(ctx, f, seq, steps, orig, reply, T):
    """model observation vs implementation observation, step by step."""
    case = {'file': f.label, 'seq': [T['names'][v] for v in seq]}
    msteps = reply.get('steps')
    n_ok = len([v for v in seq if T['names'][v] not in f.fail_views]) + 1
    if msteps is None or len(msteps) != n_ok or len(steps) != len(seq) + 1:
        ctx.disagree(case, f'{len(steps)} steps', reply, 'driver reply')
        return
    main_of = T['main']
    mi = -1
    for i, si in enumerate(steps):
        where = f'after reading {T["names"][seq[i]]}' if i < len(seq) else 'after save'
        if i == len(seq) or not si.get('raised'):
            mi += 1
        else:
            where += f' (parser raised {si["raised"]}, caught)'
        sm = msteps[mi] if mi >= 0 else INITIAL_OBS
        m_parsed = sorted(main_of[v] for v, q in sm['parsed'])
        if m_parsed != si['parsed']:
            ctx.disagree(case, {'parsed': si['parsed']}, {'parsed': m_parsed}, f'_parsed_lumps keys {where}')
            return
        for l, data in si['raw'].items():
            code = 1 if sm['raw'] is None else dict(map(tuple, sm['raw'])).get(l)
            if code == 0 and data != b'':
                ctx.disagree(case, f'lump {l} has {len(data)} bytes', 'emptied', f'lump data {where}')
                return
            if code == 1 and data != orig[l]:
                ctx.disagree(case, f'lump {l} changed', 'untouched', f'lump data {where}')
                return
        if si['stripped'] is not None:
            m_str = any(p[1] == T['idx']['ents'] for p in sm['pending'])
            if m_str != si['stripped']:
                ctx.disagree(case, {'model keys removed': si['stripped']}, {'pending': sm['pending']}, f'entity model keys {where}')
                return
        if sm.get('stuck'):
            ctx.disagree(case, 'no RecursionError', 'stuck', where)
            return
    ctx.traces_vs_impl += 1


# ----------------------------------------------------------------------------- sequences

def sequences(ctx, nviews, rng, mode):
    """(kind, seq) pairs. mode: 'full' (all 2-subsets), 'light', 'sample' (the big sample file: 1.4 s per case)."""
    yield 'none', []
    singles = list(range(nviews))
    if mode == 'sample' and not ctx.thorough:
        singles = sorted(set([1, 6] + rng.sample(range(nviews), 4)))     # ents, bmodels + 4 others
    for v in singles:
        yield 'single', [v]
    pairs = list(itertools.combinations(range(nviews), 2))
    if mode != 'full':
        pairs = rng.sample(pairs, {'light': ctx.budget(12, 60), 'sample': ctx.budget(2, 30)}[mode])
    for a, b in pairs:
        yield 'pair', ([a, b] if rng.random() < 0.5 else [b, a])
    for _ in range({'full': ctx.budget(12, 150), 'light': ctx.budget(4, 40), 'sample': ctx.budget(1, 10)}[mode]):
        k = rng.randrange(3, nviews + 1)
        s = rng.sample(range(nviews), k)
        if rng.random() < 0.2:       # repeated reads hit the cache
            s += rng.sample(s, min(3, len(s)))
        yield 'random', s
    allv = list(range(nviews))
    yield 'all', allv
    if mode != 'sample' or ctx.thorough:
        yield 'all-reversed', allv[::-1]


def load_tables(drv):
    t = drv.batch([{'op': 'tables'}])[0]
    names = [v['name'] for v in t['views']]
    T = {
        'raw': t, 'names': names, 'idx': {n: i for i, n in enumerate(names)},
        'main': [v['main'] for v in t['views']], 'game_ids': t['gameLumpIds'],
        'lump_names': {int(i): n for i, n in t['lumpNames']},
    }
    owned = {}
    for i, _ in t['lumpNames']:
        owned[int(i)] = any(int(i) in v['clears'] for v in t['views'])
    T['owned'] = owned
    return T


def static_tables_fallback():
    """The few facts the DIRECT search needs (view names, main lump / to_clear of each view, game-lump ids), taken
    from the implementation's own ParsedLump descriptors at run time — no translator, no driver: the property
    oracle must keep working when the source shape is no longer understood by tools/gen_bsp.py."""
    B = U.impl()
    descs = [(k, v) for k, v in vars(B.BSP).items() if isinstance(v, B.ParsedLump)]
    game_ids = []
    for _, d in descs:
        for l in d.to_clear:
            if isinstance(l, bytes) and l.decode('latin-1') not in game_ids:
                game_ids.append(l.decode('latin-1'))

    def lid(l):
        return 64 + game_ids.index(l.decode('latin-1')) if isinstance(l, bytes) else l.value
    names = [k for k, _ in descs]
    clears = [[lid(l) for l in d.to_clear] for _, d in descs]
    used = set(range(64)) | {64 + i for i in range(len(game_ids))}
    lump_names = {m.value: m.name for m in B.BSP_LUMPS}
    for i, g in enumerate(game_ids):
        lump_names[64 + i] = g
    T = {'raw': None, 'names': names, 'idx': {n: i for i, n in enumerate(names)}, 'main': [lid(d.lump) for _, d in descs],
         'game_ids': game_ids, 'lump_names': lump_names}
    T['owned'] = {i: any(i in c for c in clears) for i in used}
    return T


# ----------------------------------------------------------------------------- byte layer tie

def _bsp_state(b):
    """The implementation's BSP object as the byte-layer model's `Bsp` value."""
    B = U.impl()
    lumps = []
    for i in range(64):
        l = b.lumps[B.BSP_LUMPS(i)]
        lumps.append([l.version & 0xFFFFFFFF, list(l.data), bool(l.is_compressed)])
    game = [[int.from_bytes(g.id[::-1], 'little'), g.flags, g.version, list(g.data)] for g in b.game_lumps.values()]
    ver = b.version.value if isinstance(b.version, B.VERSIONS) else b.version
    magic = b'FART' if b.is_vitamin else b'VBSP'
    return {'magic': int.from_bytes(magic, 'little'), 'version': ver & 0xFFFFFFFF, 'revision': b.map_revision & 0xFFFFFFFF,
            'lumps': lumps, 'game': game}


def _lzma_table(state, compress):
    pairs, seen = [], set()
    for i, (ver, data, comp) in enumerate(state['lumps']):
        if comp and i != 40 and bytes(data) not in seen:
            seen.add(bytes(data)); pairs.append([data, list(compress(bytes(data)))])
    for gid, flags, ver, data in state['game']:
        if flags & 1 and bytes(data) not in seen:
            seen.add(bytes(data)); pairs.append([data, list(compress(bytes(data)))])
    return pairs


def layout_tie(ctx, drv, files, tmp):
    """Model `readFile` vs BSP.read on the synthesised originals; model `writeFile` vs the bytes BSP.save writes
    (after no reads and after reading every view)."""
    B = U.impl()
    from srctools.binformat import compress_lzma
    names = U.view_names()
    reqs, meta = [], []
    for f in files:
        raw = pathlib.Path(f.path).read_bytes()
        if len(raw) > 200000 and not ctx.thorough:
            continue
        try:
            with U.quiet():
                b = B.BSP(f.path)
                st = _bsp_state(b)
                l4d2 = b.game_ver is B.GameVersion.L4D2
                comp = synth.source_lzma if f.variant is not None else compress_lzma
                reqs.append({'op': 'readfile', 'l4d2': l4d2, 'file': list(raw), 'lzma': _lzma_table(st, comp)})
                meta.append(('read', f, st, l4d2))
                for mode in ('none', 'all'):
                    b = B.BSP(f.path)
                    if mode == 'all':
                        for n in names:
                            getattr(b, n)
                    out = os.path.join(tmp, 'layout_out.bsp')
                    b.save(out)
                    st2 = _bsp_state(b)
                    reqs.append({'op': 'layout', 'l4d2': b.game_ver is B.GameVersion.L4D2, 'bsp': st2,
                                 'lzma': _lzma_table(st2, compress_lzma)})
                    meta.append(('write:' + mode, f, pathlib.Path(out).read_bytes(), None))
        except Exception as e:
            ctx.notes.append(f'layout tie skipped for {f.label}: {type(e).__name__}: {e}')
    if not reqs:
        return
    for (kind, f, want, l4d2), rep in zip(meta, drv.batch(reqs)):
        case = {'file': f.label, 'layout': kind}
        ctx.case(case, nontrivial=True, sample_every=29)
        ctx.count('layout:' + kind.split(':')[0])
        if kind == 'read':
            got = rep.get('bsp')
            if got != want:
                ctx.disagree(case, 'BSP.read state', first_diff(want, got, 'bsp'), 'byte layer: readFile vs BSP.read')
                continue
            if want['version'] == 21 and rep.get('looksL4D2') != l4d2:
                ctx.disagree(case, {'l4d2': l4d2}, {'looksL4D2': rep.get('looksL4D2')}, 'byte layer: L4D2 detection')
                continue
        else:
            got = bytes(rep.get('file', []))
            if got != want:
                i = next((k for k in range(min(len(got), len(want))) if got[k] != want[k]), min(len(got), len(want)))
                ctx.disagree(case, f'{len(want)} bytes', f'{len(got)} bytes, first difference at offset {i}', 'byte layer: writeFile vs the bytes BSP.save wrote')
                continue
        ctx.traces_vs_impl += 1


# ----------------------------------------------------------------------------- sessions: several BSP objects alive at once

def gen_session(rng, files, nviews):
    """2-3 objects; ops [obj, kind, arg]: 'open' (arg = path form), 'read' (view id), 'save' (arg = None: to a scratch
    file, 'own': in place onto the file the object was read from, ['slot', k]: onto the file ANOTHER object was / will
    be read from).  Objects normally sit on different files; with probability 1/3 two of them share the SAME file
    (one is saved while the other still holds lazily unparsed lumps).  Opens are interleaved with the other
    objects' reads and saves."""
    k = rng.choice([2, 2, 3])
    fs = rng.sample(range(len(files)), k)
    slots = list(range(k))
    if rng.random() < 1 / 3:
        slots[1] = 0
        fs[1] = fs[0]
    nslots = len(set(slots))

    def target():
        r = rng.random()
        if r < 0.5:
            return None
        if r < 0.8:
            return 'own'
        return ['slot', rng.choice(sorted(set(slots)))]
    ops = []
    for o in range(k):
        body = [[o, 'read', rng.randrange(nviews)] for _ in range(rng.randrange(0, 4))]
        body.append([o, 'save', target()])
        if rng.random() < 0.5:
            body += [[o, 'read', rng.randrange(nviews)] for _ in range(rng.randrange(1, 3))] + [[o, 'save', target()]]
        ops.append([[o, 'open', rng.choice(['str', 'Path', 'PathLike'])]] + body)
    merged = []
    idx = [0] * k
    while any(idx[o] < len(ops[o]) for o in range(k)):
        live = [o for o in range(k) if idx[o] < len(ops[o])]
        w = [3.0 if ops[o][idx[o]][1] == 'open' else 1.0 for o in live]
        o = rng.choices(live, weights=w)[0]
        merged.append(ops[o][idx[o]]); idx[o] += 1
    return {'files': [files[i].label for i in fs], 'slots': slots, 'ops': merged}


def run_session(sess, fmap, T, tmp, tag='sess'):
    """Runs a session on the implementation. Returns (records, problems, labels): records = for every step and every
    live object (step, obj, number of own read/save ops so far, observation, the object's own bytes at open);
    problems = oracle failures [(key, what)]; labels[obj] = the file whose content the object was opened on."""
    B = U.impl()
    names, gids = T['names'], T['game_ids']
    slots = sess.get('slots') or list(range(len(sess['files'])))
    # every slot is a private copy of a synthesised file; `content` = which file's content it holds now
    spath, content = {}, {}
    for o, sl in enumerate(slots):
        if sl not in spath:
            spath[sl] = os.path.join(tmp, f'{tag}_slot{sl}.bsp')
            shutil.copyfile(fmap[sess['files'][o]].path, spath[sl])
            content[sl] = sess['files'][o]
    objs, origs, counts, anyread, labels = {}, {}, {}, {}, {}
    records, problems = [], []
    for step, (o, kind, arg) in enumerate(sess['ops']):
        try:
            with U.quiet():
                if kind == 'open':
                    labels[o] = content[slots[o]]
                    objs[o] = B.BSP(path_form(arg or 'str', spath[slots[o]]))
                    origs[o] = U.raw_snapshot(objs[o], gids)
                    counts[o] = 0
                    anyread[o] = False
                elif o not in objs:
                    continue          # (shrunk sessions) op on an object that is not open
                elif kind == 'read':
                    f = fmap[labels[o]]
                    if names[arg] in f.fail_views:
                        try:
                            getattr(objs[o], names[arg])
                        except Exception:
                            pass           # the caller catches the parse error; the object must be unchanged
                    else:
                        getattr(objs[o], names[arg])
                        counts[o] += 1
                    anyread[o] = True
                elif kind == 'save':
                    f = fmap[labels[o]]
                    if arg is None:
                        out = os.path.join(tmp, f'{tag}_{o}.bsp')
                        objs[o].save(out)
                    elif arg == 'own':
                        out = spath[slots[o]]
                        objs[o].save()
                        content[slots[o]] = labels[o]
                    else:
                        sl = arg[1] if arg[1] in spath else slots[o]
                        out = spath[sl]
                        objs[o].save(pathlib.Path(out))
                        content[sl] = labels[o]
                    counts[o] += 1
                    for key, what in compare_saved(f, out, T, anyread[o]):
                        problems.append((key, f'step {step} (save of object {o} = {f.label}, target {arg}): {what}'))
        except Exception as e:
            problems.append((f'exception:{type(e).__name__}', f'step {step} {kind} on object {o}: {type(e).__name__}: {e}'))
            break
        for j, b in objs.items():
            empty, parsed = U.observe(b, gids)
            records.append((step, j, counts[j], {'empty': empty, 'parsed': parsed, 'raw': U.raw_snapshot(b, gids)}, origs[j]))
    return records, problems, labels


def session_model_ops(sess, o, T, f):
    """the object's own reads and saves after its (last) open; where it saves to does not matter to the model."""
    ops, opened = [], False
    for (oo, kind, arg) in sess['ops']:
        if oo != o:
            continue
        if kind == 'open':
            ops, opened = [], True
        elif opened and kind == 'save':
            ops.append(-1)
        elif opened and kind == 'read' and T['names'][arg] not in f.fail_views:
            ops.append(arg)
    return ops


def compare_session(ctx, sess, records, replies, T):
    """Each object against the single-object model run on its own file, after EVERY step of the session (an object must
    not change while another one is operated)."""
    case = {'session': sess}
    main_of = T['main']
    for (step, j, cnt, obs, orig) in records:
        if cnt == 0:
            m_parsed, raw_codes = [], None
        else:
            sm = replies[j]['steps'][cnt - 1]
            m_parsed = sorted(main_of[v] for v, q in sm['parsed'])
            raw_codes = sm['raw']
        where = f'object {j} ({sess["files"][j]}) after step {step} {sess["ops"][step]}'
        if m_parsed != obs['parsed']:
            ctx.disagree(case, {'parsed': obs['parsed']}, {'parsed': m_parsed}, '_parsed_lumps keys of ' + where)
            return False
        for l, data in obs['raw'].items():
            code = 1 if raw_codes is None else dict(map(tuple, raw_codes)).get(l, 1)
            if code == 0 and data != b'':
                ctx.disagree(case, f'lump {l} has {len(data)} bytes', 'emptied', 'lump data of ' + where)
                return False
            if code == 1 and data != orig.get(l):
                ctx.disagree(case, f'lump {l} is not the data this object read from its file', 'untouched', 'lump data of ' + where)
                return False
    return True


def sessions(ctx, drv, files, T, tmp, t_end):
    cand = [f for f in files if f.variant is not None and f.base is not None and f.rd is not None]
    if len(cand) < 3:
        return
    fmap = {f.label: f for f in files}
    rng = random.Random(f'C10-sessions:{ctx.seed}')
    pend, reqs = [], []
    for n in range(ctx.budget(40, 300)):
        if time.time() > t_end:
            ctx.count('skipped:time-budget(sessions)')
            break
        pool = [f for f in cand if not f.variant.lzma] if rng.random() < 0.8 else cand
        sess = gen_session(rng, pool, len(T['names']))
        records, problems, labels = run_session(sess, fmap, T, tmp)
        if len(set(sess['slots'])) < len(sess['slots']):
            ctx.count('session:two-objects-on-one-file')
        ctx.case({'session': sess}, nontrivial=True, sample_every=17)
        ctx.count('session:%d-objects' % len(sess['files']))
        for key, what in problems:
            ctx.witness('session:' + key.split(':')[0], f'[session over {sess["files"]}] {what}', {'session': sess, 'seed': ctx.seed})
        if drv is not None:
            for o in range(len(sess['files'])):
                f = fmap[labels.get(o, sess['files'][o])]
                reqs.append({'op': 'run', 'rd': f.rd, 'wd': f.wd, 'ops': session_model_ops(sess, o, T, f)})
            pend.append((sess, records))
    if drv is not None and reqs:
        replies = drv.batch(reqs)
        i = 0
        for sess, records in pend:
            k = len(sess['files'])
            if compare_session(ctx, sess, records, replies[i:i + k], T):
                ctx.traces_vs_impl += 1
            i += k


# ----------------------------------------------------------------------------- the check

def _run_all(ctx, drv, T):
    tmp = tempfile.mkdtemp(prefix='c10_')
    t_end = time.time() + ctx.budget(75, 600)
    try:
        files = make_files(ctx, tmp)
        # tie of the static tables: the views found by the translator are the ParsedLump attributes of the class
        impl_names = U.view_names()
        if sorted(impl_names) != sorted(T['names']):
            ctx.disagree({'what': 'view names'}, sorted(impl_names), sorted(T['names']), 'Gen.Bsp views vs ParsedLump attributes')
        if drv is not None:
            layout_tie(ctx, drv, files, tmp)
        reqs, pend = [], []
        # the variants on which readers and writers fetch different views first (they must not fall to the time budget)
        order = sorted(range(len(files)), key=lambda i: 0 if (files[i].variant is not None and files[i].variant.empty) else 1)
        for fi in order:
            f = files[fi]
            try:
                with U.quiet():
                    err = prepare(ctx, f, T, tmp)
                if err:
                    ctx.witness('exception-all-views', f'[{f.label}] reading every view and saving raises {err}',
                                {'file': f.label, 'variant': f.variant.describe() if f.variant else None, 'seq': list(T['names']), 'seed': ctx.seed})
            except Exception as e:
                ctx.witness(f'unreadable:{type(e).__name__}', f'file {f.label} cannot be read / traced: {type(e).__name__}: {e}',
                            {'file': f.label, 'variant': f.variant.describe() if f.variant else None, 'seq': []})
                continue
            if T['raw'] is not None:
                # dynamic dependencies must be within the static ones
                for v, name in enumerate(T['names']):
                    sv = T['raw']['views'][v]
                    extra_r = [x for x in f.rd[v] if x not in sv['rdeps']]
                    extra_w = [x for x in f.wd[v] if x not in sv['wdeps']]
                    if extra_r or extra_w:
                        ctx.disagree({'file': f.label, 'view': name}, {'reader uses': extra_r, 'writer uses': extra_w},
                                     {'rdeps': sv['rdeps'], 'wdeps': sv['wdeps']}, 'traced view dependencies not in the extracted tables')
                # the theorems are applied to the tables the model is run with (static tables restricted to the traced
                # dependencies): the same decidable predicates must hold for them (evaluated by the compiled model)
                tt = drv.batch([{'op': 'tables', 'rd': f.rd, 'wd': f.wd}])[0] if drv is not None else None
                if tt is not None:
                    bad = [k for k in ('WF', 'WritesAll', 'Topo', 'RAcyclic', 'Frame', 'BorrowOK', 'LiveLoop') if not tt.get(k)]
                    if bad and all(T['raw'][k] for k in ('WF', 'WritesAll', 'Topo', 'RAcyclic', 'Frame', 'BorrowOK', 'LiveLoop')):
                        ctx.disagree({'file': f.label}, 'traced dependencies', {'false predicates': bad, 'topoViolations': tt.get('topoViolations')},
                                     'TablesOK holds for the extracted tables but not for their restriction to the traced dependencies')
                    ctx.count('files:TablesOK(traced)' if not bad else 'files:not TablesOK(traced)')
                if all(sorted(f.rd[v]) == sorted(T['raw']['views'][v]['rdeps']) and sorted(f.wd[v]) == sorted(T['raw']['views'][v]['wdeps'])
                       for v in range(len(T['names']))):
                    ctx.count('files:traced-deps==static')
                else:
                    ctx.count('files:traced-deps<static')
            rng = random.Random(f'C10:{ctx.seed}:{f.label}')
            if f.variant is None:
                mode = 'sample'
            elif ctx.thorough or f.variant.empty or (not f.variant.lzma and fi % 2 == ctx.seed % 2):
                mode = 'full'
            else:
                mode = 'light'
            ctx.count(f'mode:{mode}')
            for kind, seq in sequences(ctx, len(T['names']), rng, mode):
                if time.time() > t_end and kind in ('pair', 'random'):
                    ctx.count('skipped:time-budget')
                    continue
                forms = gen_forms(rng)
                steps, problems, orig = impl_case(f, seq, T, tmp, forms=forms)
                if forms != CANONICAL_FORMS:
                    ctx.count('forms:non-canonical')
                    ctx.count('form:open=' + forms['open']); ctx.count('form:save=' + forms['save'])
                    ctx.count('form:read=' + forms['read'] + ('+selfassign' if forms['selfassign'] else ''))
                case = {'file': f.label, 'seq': [T['names'][v] for v in seq]}
                ctx.case(case, nontrivial=bool(seq), sample_every=97)
                ctx.count(f'seq:{kind}')
                ctx.count(f'file:{f.label}')
                if any(st.get('raised') for st in steps):
                    ctx.count('seq:with-caught-parse-error')
                for key, what in problems:
                    ctx.witness(key, f'[{f.label}; read {case["seq"]}] {what}',
                                {'file': f.label, 'variant': f.variant.describe() if f.variant else None, 'seq': case['seq'], 'seed': ctx.seed,
                                 'forms': forms})
                if drv is not None and orig is not None:
                    reqs.append({'op': 'run', 'rd': f.rd, 'wd': f.wd, 'ops': model_ops(f, seq, T)})
                    pend.append((f, seq, steps, orig))
        sessions(ctx, drv, files, T, tmp, time.time() + ctx.budget(25, 240))
        if drv is not None and reqs:
            replies = drv.batch(reqs)
            for (f, seq, steps, orig), rep in zip(pend, replies):
                compare_with_model(ctx, f, seq, steps, orig, rep, T)
                # the model's own verdict: a lump rebuilt from a value parsed out of emptied data
                last = rep.get('steps', [{}])[-1]
                if any(code == 3 for _, code in last.get('raw', [])) or last.get('parsed'):
                    ctx.count('model-predicts-loss')
    finally:
        shutil.rmtree(tmp, ignore_errors=True)


def correspond(ctx, drivers):
    drv = drivers['drv_c10']
    try:
        T = load_tables(drv)
        if sorted(T['names']) != sorted(U.view_names()):
            raise common.InternalError('views of the driver tables differ from the ParsedLump attributes')
    except Exception as e:
        # the driver has no usable tables (stale / failed extraction): no model comparison, the direct search still runs
        ctx.broken.append(f'correspond: driver tables unusable ({type(e).__name__}: {e}); model comparison skipped')
        ctx.exhaustive = False
        _run_all(ctx, None, static_tables_fallback())
        return
    t = T['raw']
    for pred in ('WF', 'WritesAll', 'Topo', 'RAcyclic', 'Frame', 'BorrowOK', 'LiveLoop'):
        ctx.extra.setdefault('table_predicates', {})[pred] = t[pred]
    if t['topoViolations']:
        ctx.notes.append('Topo violations in the extracted tables (writer of A reaches B which is not later in LUMP_REBUILD_ORDER): '
                         + ', '.join(f'{T["names"][a]}->{T["names"][b]}' for a, b in t['topoViolations']))
    ctx.exhaustive = False
    ctx.extra["exhaustive_part"] = "none + every single view on every file; all 2-subsets of the 21 views on the variants with empty overlays / FACES_HDR / faces and on half of the other uncompressed synthesised variants (quick) / on every synthesised variant (thorough)"
    _run_all(ctx, drv, T)


def search(ctx):
    """The property itself was evaluated on every case of `correspond` (impl_case). Without a driver run it alone;
    then shrink the first failing sequence."""
    if ctx.evaluations == 0:
        _run_all(ctx, None, static_tables_fallback())
    new = [w for w in ctx.witnesses]
    if not new:
        return
    # shrink the read sequence of the first witness of each key
    seen = set()
    tmp = tempfile.mkdtemp(prefix='c10s_')
    try:
        T = static_tables_fallback()
        for w in new:
            if w['key'] not in seen and 'session' in w['input'] and len(seen) <= 4:
                seen.add(w['key'])
                sess = w['input']['session']
                fmap = _session_fmap(sess, w['input'].get('seed', ctx.seed), tmp, ctx, T)
                kind = w['key'].split(':', 1)[1]

                def sfails(ops):
                    _, probs, _ = run_session({'files': sess['files'], 'slots': sess.get('slots'), 'ops': list(ops)}, fmap, T, tmp, tag='s')
                    return any(k.split(':')[0] == kind for k, _ in probs)
                if sfails(sess['ops']):
                    small = common.ddmin(sess['ops'], sfails, budget=80)
                    w['input']['shrunk_session'] = {'files': sess['files'], 'slots': sess.get('slots'), 'ops': small}
                    w['what'] += ' (shrunk to ' + '; '.join(f"{sess['files'][o]}#{o}.{k}" + (f"({T['names'][a]})" if k == 'read' else '' if a is None else f'({a})') for o, k, a in small) + ')'
                continue
            if w['key'] in seen or not w['input'].get('seq'):
                continue
            seen.add(w['key'])
            if len(seen) > 4:
                break
            f = _file_for(w['input'], tmp, ctx)
            if f is None:
                continue
            with U.quiet():
                prepare(ctx, f, T, tmp)
            seq = [T['idx'][n] for n in w['input']['seq']]

            def fails(s):
                _, probs, _ = impl_case(f, list(s), T, tmp, tag='s', forms=w['input'].get('forms'))
                return any(k == w['key'] for k, _ in probs)
            if len(seq) > 1 and fails(seq):
                small = common.ddmin(seq, fails, budget=60)
                w['input']['shrunk_seq'] = [T['names'][v] for v in small]
                w['what'] += f' (shrunk to reads {w["input"]["shrunk_seq"]})'
    finally:
        shutil.rmtree(tmp, ignore_errors=True)


def _file_for(inp, tmp, ctx):
    if inp.get('variant'):
        v = synth.VARIANT_BY_NAME.get(inp['variant']['name'])
        if v is None:
            return None
        seed = inp.get('seed', ctx.seed)
        data, lumps, game, info = synth.build(v, random.Random(f'C10-files:{seed}:{v.name}'))
        p = pathlib.Path(tmp) / f'{v.name}.bsp'
        p.write_bytes(data)
        f = FileInfo(v.name, p, v, info)
        return f
    if SAMPLE.exists():
        p = pathlib.Path(tmp) / 'sample_rot_main.bsp'
        shutil.copyfile(SAMPLE, p)
        return FileInfo('sample', p)
    return None


def _session_fmap(sess, seed, tmp, ctx, T):
    fmap = {}
    for label in sess['files']:
        f = _file_for({'variant': {'name': label}, 'seed': seed}, tmp, ctx)
        with U.quiet():
            prepare(ctx, f, T, tmp)
        fmap[label] = f
    return fmap


def replay(ctx, payload):
    inp = payload.get('input') or {}
    if 'session' in inp:
        tmp = tempfile.mkdtemp(prefix='c10r_')
        try:
            T = static_tables_fallback()
            sess = inp.get('shrunk_session') or inp['session']
            fmap = _session_fmap(sess, inp.get('seed', ctx.seed), tmp, ctx, T)
            _, problems, _ = run_session(sess, fmap, T, tmp, tag='r')
            print('session over', sess['files'])
            for op in sess['ops']:
                print('   ', op[0], op[1], T['names'][op[2]] if op[1] == 'read' else ('' if op[2] is None else op[2]))
            for k, what in problems:
                print('  FAIL', k, '-', what)
            return not problems
        finally:
            shutil.rmtree(tmp, ignore_errors=True)
    if 'seq' not in inp:
        print('replay file names a broken obligation/correspondence, no input to replay:', payload.get('broken_obligations'),
              payload.get('disagreements', [])[:1])
        return False
    tmp = tempfile.mkdtemp(prefix='c10r_')
    try:
        T = static_tables_fallback()
        f = _file_for(inp, tmp, ctx)
        with U.quiet():
            prepare(ctx, f, T, tmp)
        seq = [T['idx'][n] for n in (inp.get('shrunk_seq') or inp['seq'])]
        steps, problems, _ = impl_case(f, seq, T, tmp, tag='r', forms=inp.get('forms'))
        print('forms', inp.get('forms') or CANONICAL_FORMS)
        print('file', f.label, 'reads', [T['names'][v] for v in seq])
        for k, what in problems:
            print('  FAIL', k, '-', what)
        return not problems
    finally:
        shutil.rmtree(tmp, ignore_errors=True)


def replay_known(ctx, finding):
    """Does the open finding still reproduce?  Keys `spice:<name>`: any failure of the property on that
    out-of-domain file; other keys: that exact failure kind."""
    tmp = tempfile.mkdtemp(prefix='c10k_')
    try:
        T = static_tables_fallback()
        f = _file_for(finding['witness'], tmp, ctx)
        with U.quiet():
            prepare(ctx, f, T, tmp)
        seq = [T['idx'][n] for n in finding['witness']['seq']]
        _, problems, _ = impl_case(f, seq, T, tmp, tag='k')
        if finding['key'].startswith('spice:'):
            return bool(problems)
        return any(k == finding['key'] for k, _ in problems)
    finally:
        shutil.rmtree(tmp, ignore_errors=True)


LEVEL_TEXT = ("Theorems C10_flush / C10_content / C10_idem / C10_idem_bytes / C10_borrow / C10_noaccess are proved in Lean for every access sequence, for any "
              "tables satisfying decidable predicates (Topo: whatever a writer can reach comes later in LUMP_REBUILD_ORDER; "
              "WritesAll; Frame; RAcyclic; BorrowOK; LiveLoop: save pops from the live cache while walking the order); C10_gen_* re-check those predicates by `decide` on the tables regenerated "
              "from bsp.py on every run. C10_layout proves readFile(writeFile x) = x for the header / lump table / game-lump "
              "directory byte layer. The ParsedLump/save mechanism is tied by a step-by-step differential run on the sample BSP "
              "and on synthesised BSPs of every layout.")
LEVEL_NOTE = ("Trusted: Lean kernel + propext/Classical.choice/Quot.sound; tools/gen_bsp.py; the harness (synthesiser, tracer, "
              "canonical dump). The 21 lump codecs are abstract in the proof (round-trip hypothesis) and only exercised; lzma/zipfile "
              "are assumed inverse pairs.")
TECHNIQUE = "Lean 4 proof (invariants over the access/save state machine, generic in the extracted dependency tables) + ast translator + differential correspondence on synthesised BSPs"
DESIGN_REF = "DESIGN.md section 6, C10"
