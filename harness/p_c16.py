"""C16 — FGD definitions survive text export, binary database, and lazy loading."""
import io, json, random, contextlib, warnings, time
from common import codes, uncodes, ddmin
import tokutil
import c16_fgd as G

PID = 'C16'
GENS = ['tok', 'fgdw']
DRIVERS = ['drv_c16']
PROPS = 'Srctools.Props.C16'
RULE = ("(1) long strings: strings written through _write_longstring in both escape modes: structured boundary cases "
        "(a run of 994..1003 (+1000k) non-space characters followed by each of quote, backslash, tab, newline and pairs of "
        "them; early/late spaces and \\n escapes around the 128/1000 thresholds; empty string) and random strings of length "
        "0..3000 over letters + the tokenizer-special characters; model output text, its tokens and the _read_colon_list "
        "result are compared with the implementation; non-trivial = needs at least one '+' split or contains an escaped "
        "character. (2) colon lists: random token soups over strings, ':', '+', newlines, brackets. (3) BinStrDict and "
        "ent_serialise/ent_unserialise on random dictionaries and entity records (incl. flags, readonly, tagged resources, "
        "error cases). (4) lazy database: synthetic EngineDB objects with random block layouts, alias chains and cycles "
        "across blocks, and the block layout of the shipped database, queried in random / adversarial orders, state "
        "(ent_map, unparsed) compared after EVERY get_ent; then get_fgd. (5) keyvalue / input / output lines: generated KVDef / IODef "
        "records (every value type, choices / spawnflags blocks, tags, readonly/report, empty / long / nasty strings, both custom_syntax and "
        "label_spawnflags settings): model text compared CHARACTER FOR CHARACTER with KVDef.export / IODef.export; entity bodies assembled from "
        "implementation-written lines, and copies damaged by 1-2 random edits, parsed by the model (parseBody over the model tokenizer) and by the "
        "implementation: same records or both reject. (6) whole entities / files: generated FGDs and the shipped entities (quick: 250, thorough: all 1638): "
        "model text of exportFile compared character for character with FGD.export / EntityDef.export; generated files and damaged copies parsed by the "
        "model (parseFile) and the implementation. Search = the property itself on the implementation: "
        "generated FGDs (every value type, empty display name/default/description, 1-3k character strings, tagged "
        "duplicates, aliases, helpers, resources) and all shipped entities through export->parse->export (custom_syntax x "
        "label_spawnflags), serialise->unserialise, and engine_def-style single lookups on fresh databases vs the full load; "
        "HISTORIES on a fresh process-wide database: engine_def(name) / engine_dbase() interleaved with in-place edits of previously returned "
        "objects (defaults, types, deleting keyvalues/inputs/outputs, renaming, appending to val_list/resources/kv_order, editing a base, "
        "collapse_bases, deleting entities): after every lookup the result is compared (deep, bases included) with a PRISTINE independently "
        "unserialised reference and id-walked so that no mutable object is shared with any earlier result or with the database's cache; "
        "failing histories are shrunk (ddmin) and replayable. ARGUMENT FORMS: every form the entry points accept today (path as str with/without "
        "extension vs File object, with/without filesystem, keywords; export to str vs into a stream at position 0 / non-zero; BytesIO at position 0 / 5; "
        "tuple-valued entity fields; one KVDef/IODef object installed in several places; engine_def in any letter case) gives the result of the canonical "
        "form, repeated calls agree, and arguments are unchanged afterwards.")
TRUSTED = ["models: lean/Srctools/Model/C16.lean (_fgd_escape, _write_longstring, _read_colon_list over Tok.run), "
           "C16KV.lean (KVDef.export/_parse, IODef.export/_parse, entity body loop, read_tags, _parse_colon_array; str.casefold/upper as "
           "per-character tables, str.strip for ASCII blanks), C16Bin.lean (BinStrDict, kv/io/resource/entity records as byte lists), C16Lazy.lean (EngineDB.get_ent/_parse_block/get_fgd); "
           "shape constants regenerated from fgd.py/_engine_db.py/const.py by tools/gen_fgdw.py",
           "lzma, struct and utf-8 coding of the string tables are not modelled (the dictionary is a list of strings)",
           "the normal form after a text round trip (I/O type decay, boolean default, spawnflags display name, newline->space in "
           "choice/flag names, quote -> '' without custom syntax) is computed by harness/c16_fgd.py:norm_text"]
NOT_MODELLED = ['snippets, @include, @mapsize, @AutoVisgroup, @MaterialExclusion, autovis(...) and @ExtendClass merging: covered by the round-trip search '
                'only (whole entity definitions - header, helpers as generic name(args), body, @resources - and files of entities ARE modelled: '
                'Model/C16KV.lean, Model/C16Ent.lean); typed helpers of _fgd_helpers.py are kept as (name, exported arguments): that exported arguments '
                'are a fixed point of their parse/export is checked by the search on every run',
                'a base class name missing from the lazy database (KeyError inside _parse_block)',
                'custom (unknown) value types; without custom syntax only the weaker law C16_longstring_plain is claimed (text is read back as the '
                'tokenizer reads the unsplit _fgd_escape image; text ending in a dangling backslash is excluded); the keyvalue-line theorems are for custom_syntax=True',
                'serialise(): block building heuristics (build_blocks); only its result is checked by round trip']
ASSUMPTIONS = ['class names are unique within one database and every base named in the binary database exists (hypothesis WF of C16_lazy_*)',
               'serialise() asserts len(base_strings) == SHARED_STRINGS: the dictionary law is proved under exactly that hypothesis']

LEVEL_TEXT = ("Lean theorems over executable models: C16_longstring (for EVERY string: the text _write_longstring emits tokenizes, "
              "with plus_operator, to STRING/PLUS/NEWLINE tokens whose concatenation is the original string, every piece is at most "
              "LIMIT characters, and _read_colon_list reads it back as that one string; the negation is proved for the code before the "
              "fix; C16_longstring_plain: the weaker law without custom syntax), C16_kvdef_roundtrip / C16_iodef_roundtrip / C16_entity_body_partial "
              "(parseKV (tokens (exportKV k)) = ok (norm k) for keyvalue lines incl. tags, flags, colon list, choices / spawnflags blocks; I/O lines; "
              "the entity body as a list of lines; the open spawnflags-default-desc class excluded with its negation witness), C16_entity_roundtrip / "
              "C16_fgd_roundtrip_partial (whole entity definitions: @Kind, base/aliasof, helpers, classname, description, body, @resources; files of entities in sorted order; "
              "three shipped entities checked as instances), C16_strdict / C16_kv / C16_ent (string-index and record round trips of the binary format), C16_lazy_* (for every "
              "query list on a fresh database the queried entities equal those of the full load; idempotence; order independence; "
              "C16_lazy_history: also for histories in which callers arbitrarily edit earlier results). "
              "Model tied to the current source by the translator (shape of _write_longstring, tokenizer options, index tables) and by a "
              "differential run after every step; the complete export/parse/serialise code is exercised by a round-trip search over "
              "generated FGDs and all shipped entities.")
LEVEL_NOTE = ("Proved for the models; EntityDef/KVDef export+parse as a whole (helpers, resources, header syntax) is covered by the "
              "round-trip search on explored inputs only. Trusted: Lean kernel, translator, harness, lzma/struct/utf-8.")
TECHNIQUE = "Lean 4 proofs (induction over strings / query lists, DFS invariant) + translator + stepwise differential correspondence + round-trip search"
DESIGN_REF = "DESIGN.md section 6, C16"

FGD_OPTS = None      # tokenizer options of FGD.parse_file, in tokutil order


def _fgd_opts():
    return [False, True, True, False, False, True, True]


# ----------------------------------------------------------------------------------------- long strings

def boundary_strings():
    out = ['', 'a', '"', '\\', '\n', ' ', 'a b', '\\n', 'a\\', '\\"']
    for k in (0, 1):
        for pre in range(994, 1004):
            for sp in ['"', '\\', '\t', '\n', '\\\\', '""', '\\"', '"\\', '\\\\\\', '\\n', 'x', ' ']:
                out.append('a' * (pre + 1000 * k) + sp + 'b' * 300)
    # runs of backslashes / quotes ending at various parities around the cut (each escapes to two characters)
    for n in range(495, 506):
        out.append('\\' * n + 'c' * 600)
        out.append('x' + '"' * n + 'c' * 600)
        out.append('ab' + '\\' * n)
    # the \n rule: last escaped newline before / after the 128 threshold, and near the limit
    for pos in (0, 100, 125, 126, 127, 128, 129, 130, 500, 996, 997, 998, 999, 1000):
        out.append('a' * pos + '\n' + 'b' * 1500)
        out.append('a' * pos + '\\n' + 'b' * 1500)            # literal backslash-n: escapes to \\n
        out.append('a' * pos + ' ' + 'b' * 1500)
        out.append('a' * pos + '\n' + 'b' * 300 + ' ' + 'c' * 1200)
    out.append(' ' * 2500)
    out.append('\n' * 1200)
    out.append(('word ' * 700).strip())
    return out


def random_long(rng, n):
    alpha = ['a', 'b', 'Z', '9', ' ', '"', '\\', '\n', '\t', "'", 'n', '+', ':', '?', '/', '\r', 'é', '\U0001F600']
    res = []
    for _ in range(n):
        L = rng.choice([rng.randrange(0, 50), rng.randrange(900, 1100), rng.randrange(1000, 3200)])
        w = [rng.choice([50, 5, 1])] * 4 + [rng.choice([0, 1, 8]), rng.choice([0, 3]), rng.choice([0, 3]), rng.choice([0, 1])] + [1] * 10
        res.append(''.join(rng.choices(alpha, weights=w, k=L)))
    return res


_RC_MSGS = [(1, 'Too many strings'), (2, '"+" without a string'), (3, 'Expected '), (5, '@snippet')]


def impl_read_colon(text, had_colon):
    """_read_colon_list on the tokens of `text` with FGD.parse_file's tokenizer options."""
    from srctools.tokenizer import Tokenizer, TokenSyntaxError, Token
    from srctools import fgd as F
    tok = Tokenizer(text, None, F.FGDParseError, string_bracket=False, colon_operator=True, plus_operator=True)
    try:
        strings = F._read_colon_list(tok, had_colon)
    except TokenSyntaxError as e:
        for c, pat in _RC_MSGS:
            if e.mess.startswith(pat) or pat in e.mess[:40]:
                return {'rerr': [c, 0]}
        if e.mess.startswith('Unexpected') or e.mess.startswith('File ended'):
            return {'rerr': [4, 0]}
        return {'tokerr': e.mess}
    n = 0
    try:
        while True:
            n += 1
            k, _ = tok()
            if k is Token.EOF:
                break
            if n > len(text) + 5:
                return {'exc': 'no EOF'}
    except TokenSyntaxError as e:
        return {'tokerr': e.mess}
    return {'strings': [codes(s) for s in strings], 'rest': n}


def _norm_read(m):
    if 'rerr' in m:
        c = m['rerr'][0]
        return {'rerr': [4 if c == 6 else c, 0]}
    return m


def inside_pair(text):
    """Does `text` end between a backslash and the character it escapes (model: C16.KV.insidePair)?"""
    i = 0
    while i < len(text):
        if text[i] == '\\':
            if i + 1 >= len(text):
                return True
            i += 2
        else:
            i += 1
    return False


def plain_ok(s):
    """Domain of the weaker law without custom syntax (model: C16.KV.plainOK)."""
    return not inside_pair(s.replace('\n', '\\n').replace('"', "''"))


def plain_readback(s):
    """What the tokenizer reads from the UNSPLIT "_fgd_escape(False, s)" (model: decodeUnits (plainEscape s));
    for text without backslash / CR this is s with every double quote replaced by two single quotes."""
    return G.plain_readback(s)


class _Hang(Exception):
    pass


def gexp(fn):
    """Call an exporting function of the implementation under the CPU-time watchdog; once the writer has hung three
    times in this run every further call fails at once (the run already has its witness)."""
    if G.HANGS[0] >= 3:
        raise G.Hang('the writer hung repeatedly earlier in this run')
    return G.cpu_guarded(fn, cpu=2.0)


def limit_memory(gib=16):
    """Backstop: a writer loop that never advances allocates without bound; cap the address space of this process
    (and of the drivers it starts) so that a runaway becomes a MemoryError instead of taking the machine down."""
    import resource
    try:
        soft, hard = resource.getrlimit(resource.RLIMIT_AS)
        cap = gib << 30
        if soft == resource.RLIM_INFINITY or soft > cap:
            resource.setrlimit(resource.RLIMIT_AS, (cap, hard))
    except Exception:
        pass


def impl_long(s, ext, indent):
    """_write_longstring under a CPU-time watchdog (1 s of process CPU, one retry with 4 s; a split position of 0
    makes its loop spin forever). None = does not terminate."""
    from srctools import fgd as F
    def call():
        f = io.StringIO()
        F._write_longstring(f, ext, s, indent=indent)
        return f.getvalue()
    try:
        return G.cpu_guarded(call, cpu=1.0)
    except G.Hang:
        return None


def check_long_property(ctx, s, ext, out, read):
    """The property for one string: reading the written text gives the string back (in its documented form)."""
    case = {'kind': 'longstring', 's': codes(s), 'ext': ext}
    if out is None:
        ctx.witness('longstring-hangs', f'_write_longstring(extended={ext}) does not terminate on a string of length {len(s)}', case)
        return
    want = s if ext else plain_readback(s)
    if not ext and not plain_ok(s):
        return      # ends in a dangling backslash: excluded class of C16_longstring_plain
    if read.get('strings') != [codes(want)]:
        got = read if 'strings' not in read else [uncodes(x)[:40] + '…' for x in read['strings']]
        first = out.split('" +\n')[0]
        ctx.witness('longstring-' + ('ext' if ext else 'plain'),
                    f'_write_longstring(extended={ext}) output is not read back as the original string (len {len(s)}); first piece ends {first[-12:]!r}; reader: {str(got)[:120]}', case)
    for piece in out.split(' +\n'):
        if len(piece.strip()) > 1002:
            ctx.witness('longstring-limit', f'a written piece has {len(piece.strip())} characters (> 1000 + quotes)', case)


def corr_long(ctx, drv):
    from srctools.tokenizer import Tokenizer, TokenSyntaxError
    strs = boundary_strings() + random_long(ctx.rng, ctx.budget(250, 3000))
    reqs, meta = [], []
    for s in strs:
        for ext in (True, False):
            indent = ctx.rng.choice(['\t', '\t\t'])
            out = impl_long(s, ext, indent)
            if out is None:
                check_long_property(ctx, s, ext, out, {})
                ctx.count('long:hangs')
                if ctx.hist.get('long:hangs', 0) > 5:
                    ctx.notes.append('long strings: implementation keeps hanging, part abandoned')
                    return
                continue
            r = tokutil.impl_run(Tokenizer, TokenSyntaxError, out + '\n', _fgd_opts(), max_calls=len(out) + 8)
            rd = impl_read_colon(out + '\n', True)
            check_long_property(ctx, s, ext, out, rd)
            reqs.append({'op': 'long', 'ext': ext, 'indent': codes(indent), 's': codes(s), 'cfg': None})
            meta.append((s, ext, indent, out, r, rd))
            nsec = out.count('" +\n') + 1
            ctx.case({'long': codes(s[:30]), 'len': len(s), 'ext': ext}, nontrivial=(nsec > 1 or out != '"' + s + '"'), sample_every=401)
            ctx.count('long:sections=%s' % (nsec if nsec < 4 else '4+'))
            ctx.count('long:ext' if ext else 'long:plain')
    replies = drv.batch(reqs)
    for (s, ext, indent, out, r, rd), m in zip(meta, replies):
        case = {'kind': 'longstring', 's': codes(s), 'ext': ext, 'indent': indent}
        ctx.traces_vs_impl += 1
        if m.get('out') != codes(out):
            ctx.disagree(case, out[:80] + '…', uncodes(m.get('out', []))[:80] + '…', '_write_longstring text')
            continue
        if tokutil.strip_exc(r) != m['run'] or r.get('exc'):
            ctx.disagree(case, str(r)[:200], str(m['run'])[:200], 'tokens of the written text')
            continue
        if r['err'] is None and _norm_read(m['read']) != rd:
            ctx.disagree(case, str(rd)[:200], str(m['read'])[:200], '_read_colon_list of the written text')


def gen_soup(rng):
    parts = []
    for _ in range(rng.randrange(0, 12)):
        r = rng.random()
        if r < 0.3:
            parts.append('"' + ''.join(rng.choice('ab c\\n') if rng.random() < 0.9 else '\\"' for _ in range(rng.randrange(0, 6))).replace('\\n', 'n') + '"')
        elif r < 0.4:
            parts.append(rng.choice(['word', '12', 'x.y', '-5']))
        elif r < 0.6:
            parts.append(':')
        elif r < 0.75:
            parts.append('+')
        elif r < 0.9:
            parts.append('\n')
        else:
            parts.append(rng.choice(['[', ']', '=', '(args)', ',', '{', '}', '\r\n', '// c\n']))
    return ' '.join(parts) if rng.random() < 0.7 else ''.join(p + rng.choice(['', ' ', '\t']) for p in parts)


def corr_colon(ctx, drv):
    from srctools.tokenizer import Tokenizer, TokenSyntaxError
    reqs, meta = [], []
    fixed = [': "a" : : "b" +\n "c"\n x', '"a" +\n\n\n"b"\n+ "c"\n', '+ "a"', ': +', '"a" "b"', ': "a" +', ': "a" + :', '"a"\n+', ':', '', '\n', ': : :\n', '"a" : \n "b"\n', '"a" [']
    for i in range(len(fixed) + ctx.budget(1500, 20000)):
        s = fixed[i] if i < len(fixed) else gen_soup(ctx.rng)
        had = ctx.rng.random() < 0.5
        r = tokutil.impl_run(Tokenizer, TokenSyntaxError, s, _fgd_opts(), max_calls=len(s) + 8)
        rd = impl_read_colon(s, had) if r['err'] is None else None
        reqs.append({'op': 'colon', 's': codes(s), 'had': had})
        meta.append((s, had, r, rd))
        ctx.case({'colon': s, 'had': had}, nontrivial=('+' in s or ':' in s), sample_every=997)
        ctx.count('colon:' + ('tokerr' if rd is None else 'err%d' % rd['rerr'][0] if 'rerr' in rd else 'ok%d' % min(len(rd.get('strings', [])), 4)))
    for (s, had, r, rd), m in zip(meta, drv.batch(reqs)):
        ctx.traces_vs_impl += 1
        case = {'kind': 'colon', 's': s, 'had': had}
        if tokutil.strip_exc(r) != m['run'] or r.get('exc'):
            ctx.disagree(case, str(r)[:200], str(m['run'])[:200], 'tokens (FGD options)')
        elif rd is not None and _norm_read(m['read']) != rd:
            ctx.disagree(case, rd, m['read'], '_read_colon_list')


# ----------------------------------------------------------------------------------------- binary records

def _rand_words(rng, n, tag=''):
    out = set()
    while len(out) < n:
        out.add(tag + ''.join(rng.choice('abcdefgXYZ_0123 é') for _ in range(rng.randrange(0, 9))))
    return out


def corr_dict(ctx, drv):
    from srctools import _engine_db as edb
    reqs, meta = [], []
    for i in range(ctx.budget(40, 400)):
        rng = ctx.rng
        nbase = edb.SHARED_STRINGS if rng.random() < 0.75 else rng.choice([0, 1, 5, 511, 513, 600])
        base_set = _rand_words(rng, nbase, 'b')
        own_set = _rand_words(rng, rng.choice([0, 1, 3, 40, 700]), rng.choice(['o', 'b', '']))
        base = edb.BinStrDict(base_set, None)
        is_base = rng.random() < 0.2
        d = base if is_base else edb.BinStrDict(own_set, base)
        base_list = sorted(base_set)
        own_list = sorted(base_set if is_base else own_set)
        pool = sorted(base_set | own_set)
        qs = [rng.choice(pool) for _ in range(20) if pool] + ['not-there', '']
        f = io.BytesIO()
        d.serialise(f)
        impl = []
        for q in qs:
            try:
                impl.append(d(q))
            except KeyError:
                impl.append(None)
        for b in impl:
            if b is not None:
                f.write(b)
        f.seek(0)
        _, lookup = edb.BinStrDict.unserialise(f, [] if is_base else base_list)
        back = []
        for b in impl:
            if b is None:
                back.append(None)
                continue
            try:
                back.append(lookup())
            except IndexError:
                back.append('<IndexError>')
        reqs.append({'op': 'dict', 'shared': edb.SHARED_STRINGS, 'base': [codes(x) for x in base_list],
                     'own': [codes(x) for x in own_list], 'isBase': is_base, 'q': [codes(q) for q in qs]})
        meta.append((qs, impl, back, nbase, is_base))
        ctx.case({'dict': [nbase, len(own_list), is_base]}, nontrivial=True, sample_every=97)
        ctx.count('dict:base=%s' % ('512' if nbase == edb.SHARED_STRINGS else 'other'))
        # the property: a string that is in the dictionary is read back (only claimed for a full base table)
        if is_base or nbase == edb.SHARED_STRINGS:
            for q, b, s in zip(qs, impl, back):
                if b is not None and s != q:
                    ctx.witness('strdict', f'BinStrDict: {q!r} is written as {list(b)} and read back as {s!r}', {'kind': 'dict', 'q': q, 'nbase': nbase})
    for (qs, impl, back, nbase, is_base), m in zip(meta, drv.batch(reqs)):
        ctx.traces_vs_impl += 1
        for q, b, s, r in zip(qs, impl, back, m['r']):
            mi = None if r is None else r[0]
            ms = None if r is None else (None if r[1] is None else uncodes(r[1]))
            if (None if b is None else list(b)) != mi or (s if s != '<IndexError>' else None) != ms:
                ctx.disagree({'kind': 'dict', 'q': q, 'nbase': nbase, 'isBase': is_base}, [None if b is None else list(b), s], r, 'BinStrDict index / lookup')
                break


def _ent_json(ent, edb):
    """EntityDef -> the E record of the driver (only untagged members)."""
    def tix(t):
        return edb.VALUE_TYPE_INDEX[t]
    kvs = []
    for name, m in ent.keyvalues.items():
        kv = m[frozenset()]
        flags = [[v[0], codes(v[1]), bool(v[2]), bool(v[3])] for v in (kv.val_list or [])] if kv.type.name == 'SPAWNFLAGS' else []
        kvs.append([codes(kv.name), codes(kv.disp_name), tix(kv.type), bool(kv.readonly), codes(kv.default or ''), flags, codes(kv.desc), bool(kv.reportable)])
    ios = []
    for coll in (ent.inputs, ent.outputs):
        ios.append([[codes(v[frozenset()].name), tix(v[frozenset()].type), codes(v[frozenset()].desc)] for v in coll.values()])
    res = [[codes(r.filename), edb.FILE_TYPE_INDEX[r.type], [codes(t) for t in r.tags]] for r in ent.resources]
    bases = [codes(b if isinstance(b, str) else b.classname) for b in ent.bases]
    return [edb.ENTITY_TYPE_2_FLAG[ent.type].value, bool(ent.is_alias), bases, kvs, ios[0], ios[1], res]


def _ent_from_json(ej, edb):
    """Inverse of _ent_json (for replays)."""
    from srctools.fgd import EntityDef, KVDef, IODef, Resource
    kind = next(k for k, f in edb.ENTITY_TYPE_2_FLAG.items() if f.value == ej[0])
    ent = EntityDef(kind, 'replayed')
    ent.is_alias = ej[1]
    ent.bases = [uncodes(b) for b in ej[2]]
    for kv in ej[3]:
        t = edb.VALUE_TYPE_ORDER[kv[2]]
        vals = [(f[0], uncodes(f[1]), f[2], frozenset(['X']) if f[3] else frozenset()) for f in kv[5]] if t.name == 'SPAWNFLAGS' else \
            ([('0', 'x', frozenset())] if t.name == 'CHOICES' else None)
        ent.keyvalues[uncodes(kv[0]).casefold()] = {frozenset(): KVDef(uncodes(kv[0]), t, uncodes(kv[1]), uncodes(kv[4]), uncodes(kv[6]), vals, kv[3], kv[7])}
    for coll, js in ((ent.inputs, ej[4]), (ent.outputs, ej[5])):
        for io_ in js:
            coll[uncodes(io_[0]).casefold()] = {frozenset(): IODef(uncodes(io_[0]), edb.VALUE_TYPE_ORDER[io_[1]], uncodes(io_[2]))}
    ent.resources = [Resource(uncodes(r[0]), edb.FILE_TYPE_ORDER[r[1]], frozenset(uncodes(t) for t in r[2])) for r in ej[6]]
    return ent


def record_roundtrip_ok(ej):
    """ent_unserialise(ent_serialise(e)) == strip(e) for the record `ej` with a dictionary holding exactly its strings."""
    from srctools import _engine_db as edb
    ent = _ent_from_json(ej, edb)
    strings = set()
    edb.ent_serialise(ent, io.BytesIO(), lambda s_: (strings.add(s_), b'\0\0')[1])
    base_set = set(sorted(strings)[:edb.SHARED_STRINGS])
    i = 0
    while len(base_set) < edb.SHARED_STRINGS:
        base_set.add(f'\x01pad{i}'); i += 1
    base = edb.BinStrDict(base_set, None)
    d = edb.BinStrDict(strings - base_set, base)
    f = io.BytesIO()
    d.serialise(f)
    edb.ent_serialise(ent, f, d)
    f.seek(0)
    _, lookup = edb.BinStrDict.unserialise(f, sorted(base_set))
    e2 = edb.ent_unserialise(f, ent.classname, lookup)
    a = G.norm_binary(G.canon_ent(ent)); b = G.norm_binary_loaded(G.canon_ent(e2))
    a['bases'] = [['name', x[1]] for x in a['bases']] if ent.bases else []
    return G.first_diff(a, b)


def gen_record_ent(rng, words):
    from srctools.fgd import EntityDef, EntityTypes, KVDef, IODef, ValueTypes, Resource
    from srctools.const import FileType
    w = lambda: rng.choice(words)
    ent = EntityDef(rng.choice(list(EntityTypes)), w())
    ent.is_alias = rng.random() < 0.2
    ent.bases = [w() for _ in range(rng.choice([0, 0, 1, 2]))]
    types = list(ValueTypes)
    for _ in range(rng.randrange(0, 5)):
        t = rng.choice(types) if rng.random() < 0.8 else ValueTypes.SPAWNFLAGS
        if t is ValueTypes.CHOICES and rng.random() < 0.8:
            t = ValueTypes.STRING
        nm = w()
        vals = None
        if t is ValueTypes.SPAWNFLAGS:
            vals = [(1 << p if rng.random() < 0.95 else rng.choice([3, 5, 6, 0, 1 << 130]), w(), rng.random() < 0.5,
                     frozenset(['X']) if rng.random() < 0.03 else frozenset())
                    for p in rng.sample(range(0, 40), rng.randrange(0, 5))]
        elif t is ValueTypes.CHOICES:
            vals = [('0', w(), frozenset())]
        ent.keyvalues[nm.casefold()] = {frozenset(): KVDef(nm, t, w(), '' if rng.random() < 0.3 else w(), w(), vals, rng.random() < 0.3, rng.random() < 0.3)}
    for coll in (ent.inputs, ent.outputs):
        for _ in range(rng.randrange(0, 4)):
            nm = w()
            coll[nm.casefold()] = {frozenset(): IODef(nm, rng.choice(types), w())}
    if rng.random() < 0.5:
        ent.resources = [Resource(w(), rng.choice(list(FileType)), frozenset(rng.sample(['A', 'B', '!C', '+D'], rng.randrange(0, 3))) if rng.random() < 0.4 else frozenset())
                         for _ in range(rng.randrange(0, 4))]
    return ent


def corr_records(ctx, drv):
    from srctools import _engine_db as edb
    reqs, meta = [], []
    for i in range(ctx.budget(300, 4000)):
        rng = ctx.rng
        base_set = _rand_words(rng, edb.SHARED_STRINGS - 1, 'b') | {''}
        own_set = _rand_words(rng, rng.choice([0, 5, 60]), 'o')
        base = edb.BinStrDict(base_set, None)
        d = edb.BinStrDict(own_set, base)
        words = sorted(base_set)[:15] + sorted(own_set)[:15]
        if rng.random() < 0.04:
            words = words + ['missing-word']
        ent = gen_record_ent(rng, words)
        ej = _ent_json(ent, edb)
        f = io.BytesIO()
        try:
            with warnings.catch_warnings():
                warnings.simplefilter('ignore')
                edb.ent_serialise(ent, f, d)
            data = f.getvalue()
        except Exception as e:
            data = None
            err = type(e).__name__
        back = None
        if data is not None:
            f2 = io.BytesIO()
            d.serialise(f2)
            hdr = len(f2.getvalue())
            f2.write(data)
            f2.seek(0)
            _, lookup = edb.BinStrDict.unserialise(f2, sorted(base_set))
            try:
                e2 = edb.ent_unserialise(f2, ent.classname, lookup)
                back = _ent_json(e2, edb) if f2.tell() == hdr + len(data) else 'short-read'
            except Exception as e:
                back = 'raises ' + type(e).__name__
        reqs.append({'op': 'ent', 'shared': edb.SHARED_STRINGS, 'base': [codes(x) for x in sorted(base_set)],
                     'own': [codes(x) for x in sorted(own_set)], 'isBase': False, 'ent': ej})
        meta.append((ej, data, back))
        ctx.case({'ent': ej}, nontrivial=bool(ej[3] or ej[6]), sample_every=499)
        ctx.count('record:' + ('ok' if data is not None else 'raises'))
        if data is not None:
            # property: what is read back is the stripped record
            want = json.loads(json.dumps(ej))
            for kv in want[3]:
                kv[6] = []; kv[7] = False
                if kv[2] == edb.VALUE_TYPE_INDEX[_vt('SPAWNFLAGS')]:
                    kv[4] = []
                    kv[5] = [[fl[0], fl[1], fl[2], False] for fl in kv[5]]
            for coll in (want[4], want[5]):
                for io_ in coll:
                    io_[2] = []
            for r in want[6]:
                r[2] = sorted(r[2])
            got = back
            if isinstance(got, list):
                got = json.loads(json.dumps(got))
                for r in got[6]:
                    r[2] = sorted(r[2])
            pow2 = all(fl[0] > 0 and fl[0] & (fl[0] - 1) == 0 for kv in ej[3] for fl in kv[5])
            if pow2 and got != want:
                ctx.witness('record-roundtrip', f'ent_unserialise(ent_serialise(e)) != strip(e): {G.first_diff(want, got)}', {'kind': 'record', 'ent': ej})
    for (ej, data, back), m in zip(meta, drv.batch(reqs)):
        ctx.traces_vs_impl += 1
        mb = m.get('bytes')
        if (None if data is None else list(data)) != mb:
            ctx.disagree({'kind': 'record', 'ent': ej}, None if data is None else list(data)[:60], mb if mb is None else mb[:60], 'ent_serialise bytes')
            continue
        if data is not None:
            b2 = back
            mback = m.get('back')
            if isinstance(b2, list) and isinstance(mback, list):
                b2 = json.loads(json.dumps(b2)); mback = json.loads(json.dumps(mback))
                for r in b2[6]: r[2] = sorted(r[2])
                for r in mback[6]: r[2] = sorted(r[2])
            if b2 != mback:
                ctx.disagree({'kind': 'record', 'ent': ej}, b2, mback, 'ent_unserialise of the serialised bytes: ' + str(G.first_diff(b2, mback) if isinstance(b2, list) and isinstance(mback, list) else ''))


def _vt(name):
    from srctools.fgd import ValueTypes
    return ValueTypes[name]


# ----------------------------------------------------------------------------------------- keyvalue / IO lines

def _vt_index(t):
    from srctools.fgd import ValueTypes
    return list(ValueTypes).index(t)


def kv_json(kv):
    """KVDef -> the K record of the driver."""
    tn = kv.type.name
    vals = None
    if tn == 'CHOICES':
        vals = [0, [[codes(v[0]), codes(v[1]), [codes(t) for t in sorted(v[2])]] for v in (kv.val_list or [])]]
    elif tn == 'SPAWNFLAGS':
        vals = [1, [[v[0], codes(v[1]), bool(v[2]), [codes(t) for t in sorted(v[3])]] for v in (kv.val_list or [])]]
    return [codes(kv.name), _vt_index(kv.type), codes(kv.disp_name), codes(kv.default), codes(kv.desc), vals,
            bool(kv.readonly), bool(kv.reportable)]


def io_json(io_):
    return [codes(io_.name), _vt_index(io_.type), codes(io_.desc)]


def case_tables(text):
    fold, up = [], []
    for c in sorted(set(text) | set(text.casefold()) | set(text.upper())):
        if c.casefold() != c:
            fold.append([ord(c), codes(c.casefold())])
        if c.upper() != c:
            up.append([ord(c), codes(c.upper())])
    return fold, up


def impl_body_items(text):
    """Parse `text` (keyvalue / input / output lines closed by `]`) as the body of an entity with the implementation."""
    full = '@PointClass = e\n\t[\n' + text
    try:
        fgd = G.parse_text(full)
    except Exception as e:
        return {'err': type(e).__name__}
    ent = fgd.entities.get('e')
    if ent is None or len(fgd.entities) != 1:
        return {'err': 'no-entity'}
    items = []
    for name in ent.keyvalues:
        for tags, kv in ent.keyvalues[name].items():
            items.append(['kv', sorted(codes(t) for t in tags), kv_json(kv)])
    for key, coll in (('in', ent.inputs), ('out', ent.outputs)):
        for name in coll:
            for tags, io_ in coll[name].items():
                items.append([key, sorted(codes(t) for t in tags), io_json(io_)])
    return {'items': items, 'res': ent.resources != ()}


def _model_items(m):
    """Model reply -> same shape (keyvalues first, then inputs, outputs; later duplicates override)."""
    if 'perr' in m or m['run']['err'] is not None:
        return {'err': 'model'}
    seen = {}
    for it in m['items']:
        kind, tags, rec = it
        if kind == 'kv' and rec[5] is not None:
            for v in rec[5][1]:
                v[-1] = sorted(v[-1])
        key = (kind, uncodes(rec[0]).casefold(), tuple(sorted(map(tuple, tags))))
        if key in seen:
            seen[key][2] = rec
        else:
            seen[key] = [kind, sorted(tags), rec]
    order = {'kv': 0, 'in': 1, 'out': 2}
    # the implementation groups variants of one name together (dict of dicts)
    first = {}
    for i, (k, v) in enumerate(seen.items()):
        first.setdefault((k[0], k[1]), i)
    items = sorted(seen.items(), key=lambda kv_: (order[kv_[0][0]], first[(kv_[0][0], kv_[0][1])]))
    return {'items': [v for _, v in items]}


MUT_CHARS = ':+"[]=() \n,'


def corr_kv(ctx, drv):
    from srctools.fgd import IODef, ValueTypes
    rng = ctx.rng
    reqs, meta = [], []
    bodies = []
    for i in range(ctx.budget(250, 3000)):
        cs = rng.random() < 0.7
        ls = rng.random() < 0.5
        G.PLAIN_MODE[0] = not cs
        opts = {'tags': rng.random() < 0.5, 'long_p': rng.choice([0.0, 0.1]), 'empty_choice_names': True}
        lines = []
        names = set()
        for _ in range(rng.randrange(1, 5)):
            nm = G.ident(rng)
            if nm.casefold() in names or nm.casefold() in ('input', 'output'):
                continue
            names.add(nm.casefold())
            o2 = dict(opts)
            if rng.random() < 0.35:
                o2['force_type'] = rng.choice([ValueTypes.CHOICES, ValueTypes.SPAWNFLAGS, ValueTypes.BOOL])
            kv = G.gen_kv(rng, nm, o2)
            tags = G.gen_tags(rng, 0.4)
            f = io.StringIO()
            gexp(lambda: kv.export(f, tags, ls, cs))
            text = f.getvalue()
            reqs.append({'op': 'kvexport', 'ext': cs, 'label': ls, 'tags': [codes(t) for t in sorted(tags)], 'kv': kv_json(kv)})
            meta.append(('kvexport', text, kv.type.name))
            lines.append(('kv', text))
            ctx.case({'kvline': text[:60], 'cs': cs, 'ls': ls}, nontrivial=True, sample_every=577)
            ctx.count('kvline:' + ('list' if kv.type.has_list else 'plain'))
        ionames = set()
        for kind in ('input', 'output'):
            for _ in range(rng.randrange(0, 3)):
                nm = G.ident(rng)
                if (kind, nm.casefold()) in ionames:
                    continue
                ionames.add((kind, nm.casefold()))
                d = '' if rng.random() < 0.4 else (G.long_text(rng) if rng.random() < 0.1 else G.free_text(rng, rng.randrange(1, 40)))
                iod = IODef(nm, rng.choice(list(ValueTypes)), d)
                tags = G.gen_tags(rng, 0.3)
                f = io.StringIO()
                gexp(lambda: iod.export(f, kind, tags, cs))
                text = f.getvalue()
                reqs.append({'op': 'ioexport', 'ext': cs, 'label': ls, 'kw': codes(kind), 'tags': [codes(t) for t in sorted(tags)], 'io': io_json(iod)})
                meta.append(('ioexport', text, kind))
                lines.append((kind, text))
                ctx.count('ioline')
        body = ''.join(t for k, t in lines if k == 'kv')
        ins = [t for k, t in lines if k == 'input']
        outs = [t for k, t in lines if k == 'output']
        if ins:
            body += '\n\t// Inputs\n' + ''.join(ins)
        if outs:
            body += '\n\t// Outputs\n' + ''.join(outs)
        body += '\t]\n'
        bodies.append(body)
        # a damaged copy: the parsers must still agree (same record, or both reject)
        if rng.random() < 0.7 and len(body) < 4000:
            b = list(body)
            for _ in range(rng.randrange(1, 3)):
                k = rng.randrange(len(b))
                r = rng.random()
                if r < 0.35:
                    del b[k]
                elif r < 0.7:
                    b.insert(k, rng.choice(MUT_CHARS))
                elif r < 0.85 and k + 1 < len(b):
                    b[k], b[k + 1] = b[k + 1], b[k]
                else:
                    b.insert(k, b[k])
                if not b:
                    b = [']']
            bodies.append(''.join(b))
    # deterministic sweep (cheap, every run): each edge text in every position the writer treats specially
    from srctools.fgd import KVDef, UnknownHelper, EntityDef, EntityTypes
    for t in G.edge_texts():
        for cs in (True, False):
            if not cs and ('\\' in t or '\r' in t):
                continue
            kvs = [KVDef('k', ValueTypes.STRING, t, t, t), KVDef('i', ValueTypes.INT, 'd', t, ''),
                   KVDef('c', ValueTypes.CHOICES, 'd', t, '', [(t, t, frozenset()), ('x' + t, 'n', frozenset())]),
                   KVDef('b', ValueTypes.BOOL, 'd', t, t)]
            if '\n' not in t:
                kvs.append(KVDef('f', ValueTypes.SPAWNFLAGS, 'f', '', '', [(4, t, True, frozenset())]))
            body = ''
            for kv in kvs:
                f = io.StringIO()
                gexp(lambda: kv.export(f, frozenset(), True, cs))
                text = f.getvalue()
                reqs.append({'op': 'kvexport', 'ext': cs, 'label': True, 'tags': [], 'kv': kv_json(kv)})
                meta.append(('kvexport', text, 'edge:' + kv.type.name))
                body += text
                ctx.case({'edge-kv': codes(t), 'type': kv.type.name, 'cs': cs}, nontrivial=True, sample_every=997)
                ctx.count('kvline:edge-text')
            f = io.StringIO()
            iod = IODef('Inp', ValueTypes.VOID, t)
            gexp(lambda: iod.export(f, 'input', frozenset(), cs))
            reqs.append({'op': 'ioexport', 'ext': cs, 'label': True, 'kw': codes('input'), 'tags': [], 'io': io_json(iod)})
            meta.append(('ioexport', f.getvalue(), 'input'))
            body += '\n\t// Inputs\n' + f.getvalue() + '\t]\n'
            bodies.append(body)
    for body in bodies:
        fold, up = case_tables(body)
        reqs.append({'op': 'bodyparse', 's': codes(body), 'fold': fold, 'up': up})
        meta.append(('bodyparse', body, impl_body_items(body)))
    for (kind, text, extra), m in zip(meta, drv.batch(reqs)):
        ctx.traces_vs_impl += 1
        if kind in ('kvexport', 'ioexport'):
            if m.get('text') != codes(text):
                mt = uncodes(m.get('text', []))
                k = next((i for i, (a, b) in enumerate(zip(text, mt)) if a != b), min(len(text), len(mt)))
                ctx.disagree({'kind': kind, 'type': extra}, text[max(0, k - 30):k + 30], mt[max(0, k - 30):k + 30], f'{kind} text at offset {k}')
        else:
            impl = extra
            ctx.count('bodyparse:' + ('err' if 'err' in impl else 'ok'))
            if impl.get('res'):
                continue
            if 'perr' not in m and m['run']['err'] is None and m.get('rest', 0) > 2:
                ctx.count('bodyparse:closed-early')      # a damaged copy whose `]` comes early: what follows is not body syntax
                continue
            mi = _model_items(m)
            if ('err' in impl) != ('err' in mi):
                ctx.disagree({'kind': 'bodyparse', 'text': text[:300]}, impl if 'err' in impl else 'ok', m.get('perr', m['run']['err']) if 'err' in mi else 'ok', 'body parse: accept/reject')
            elif 'err' not in impl and impl['items'] != mi['items']:
                ctx.disagree({'kind': 'bodyparse', 'text': text[:300]}, None, None, 'body parse: ' + str(G.first_diff(impl['items'], mi['items'])))


# ----------------------------------------------------------------------------------------- whole entities / files

def helper_json(h):
    from srctools.fgd import UnknownHelper
    name = h.name if isinstance(h, UnknownHelper) else h.TYPE.value
    return [codes(name), [codes(a) for a in h.export()]]


def ent_rec_json(ent):
    """EntityDef -> the E record of the driver (op entexport)."""
    from srctools.fgd import EntityTypes, EntityDef
    from srctools.const import FileType
    groups = [[codes(key), [[[codes(t) for t in sorted(tags)], kv_json(kv)] for tags, kv in m.items()]] for key, m in ent.keyvalues.items()]
    def ios(coll):
        return [[[codes(t) for t in sorted(tags)], io_json(v)] for m in coll.values() for tags, v in m.items()]
    res = None if (isinstance(ent.resources, tuple) and ent.resources == ()) else \
        [[codes(r.filename), list(FileType).index(r.type), [codes(t) for t in sorted(r.tags)]] for r in ent.resources]
    return [list(EntityTypes).index(ent.type), codes(ent.classname),
            [codes(b.classname if isinstance(b, EntityDef) else b) for b in ent.bases], bool(ent.is_alias),
            [helper_json(h) for h in ent.helpers], codes(ent.desc), groups, [codes(k) for k in ent.kv_order],
            ios(ent.inputs), ios(ent.outputs), res]


def parsed_ent_json(ent):
    """EntityDef (as parsed by the implementation) -> the PE record of the driver (op fileparse)."""
    from srctools.fgd import EntityTypes, EntityDef
    from srctools.const import FileType
    items = []
    for name in ent.keyvalues:
        for tags, kv in ent.keyvalues[name].items():
            items.append(['kv', sorted(codes(t) for t in tags), kv_json(kv)])
    for key, coll in (('in', ent.inputs), ('out', ent.outputs)):
        for name in coll:
            for tags, io_ in coll[name].items():
                items.append([key, sorted(codes(t) for t in tags), io_json(io_)])
    res = None if (isinstance(ent.resources, tuple) and ent.resources == ()) else \
        [[codes(r.filename), list(FileType).index(r.type), sorted(codes(t) for t in r.tags)] for r in ent.resources]
    return [list(EntityTypes).index(ent.type), codes(ent.classname),
            [codes(b.classname if isinstance(b, EntityDef) else b) for b in ent.bases], bool(ent.is_alias),
            [helper_json(h) for h in ent.helpers], codes(ent.desc), items, res]


def _model_parsed(m):
    if 'perr' in m or m['run']['err'] is not None:
        return {'err': 'model'}
    out = []
    for e in m['ents']:
        mi = _model_items({'run': {'err': None}, 'items': e[6]})['items']
        res = None if e[7] is None else [[r[0], r[1], sorted(r[2])] for r in e[7]]
        out.append([e[0], e[1], e[2], e[3], e[4], e[5], mi, res])
    return {'ents': out}


def impl_parse_file(text):
    try:
        fgd = G.parse_text(text)
    except Exception as e:
        if 'Invalid helper arguments' in str(e) or 'requires' in str(e):
            return {'skip': True}      # a typed helper of _fgd_helpers.py rejected its (damaged) arguments: outside the generic helper model
        return {'err': type(e).__name__}
    if fgd.auto_visgroups or fgd.map_size_min != fgd.map_size_max or fgd.mat_exclusions or fgd.tagged_mat_exclusions:
        return {'skip': True}
    return {'ents': [parsed_ent_json(e) for e in fgd.entities.values()]}


def plain_file(fgd):
    return not (fgd.auto_visgroups or fgd.map_size_min != fgd.map_size_max or fgd.mat_exclusions or fgd.tagged_mat_exclusions)


def corr_ent(ctx, drv):
    rng = ctx.rng
    reqs, meta = [], []
    texts = []
    for i in range(ctx.budget(120, 1500)):
        cs = rng.random() < 0.75
        ls = rng.random() < 0.5
        fgd = G.gen_fgd(random.Random(rng.getrandbits(48)), {'tags': rng.random() < 0.4, 'long_p': rng.choice([0.0, 0.1]), 'plain': not cs,
                                                            'empty_choice_names': True})
        fgd.map_size_min = fgd.map_size_max = 0
        try:
            text = G.export_guarded(fgd, custom_syntax=cs, label_spawnflags=ls)
            ents = list(fgd.sorted_ents())
        except Exception:
            continue
        fold, up = case_tables(text)
        reqs.append({'op': 'entexport', 'ext': cs, 'label': ls, 'fold': fold, 'up': up, 'ents': [ent_rec_json(e) for e in ents]})
        meta.append(('entexport', text, len(ents)))
        ctx.case({'entfile': len(ents), 'cs': cs, 'ls': ls, 'len': len(text)}, nontrivial=True, sample_every=211)
        ctx.count('entfile:generated')
        ctx.count('entfile:entities', len(ents))
        texts.append((text, False))
        if rng.random() < 0.6 and len(text) < 6000:
            b = list(text)
            for _ in range(rng.randrange(1, 3)):
                k = rng.randrange(len(b))
                r = rng.random()
                if r < 0.35:
                    del b[k]
                elif r < 0.7:
                    b.insert(k, rng.choice(MUT_CHARS))
                elif r < 0.85 and k + 1 < len(b):
                    b[k], b[k + 1] = b[k + 1], b[k]
                else:
                    b.insert(k, b[k])
            texts.append((''.join(b), True))
    # deterministic sweep: edge texts as helper arguments, tags, class description (cheap, every run)
    from srctools.fgd import FGD as _FGD, EntityDef as _ED, EntityTypes as _ET, KVDef as _KV, ValueTypes as _VT, UnknownHelper as _UH, IODef as _IO
    for t in G.edge_texts():
        fgd = _FGD()
        e = _ED(_ET.POINT, 'edge_ent')
        e.helpers = [_UH('uh', [t]), _UH('uh2', ['a', t, 'b'])]
        e.desc = t
        tag = frozenset({'T' + t}) if t and not (set(t) & set('[],')) else frozenset({'TAG'})
        e.keyvalues['k'] = {tag: _KV('k', _VT.STRING, 'd', '', '')}
        e.kv_order = ['k']
        e.inputs['i'] = {tag: _IO('i', _VT.VOID, '')}
        fgd.entities['edge_ent'] = e
        try:
            text = G.export_guarded(fgd)
        except Exception:
            continue
        fold, up = case_tables(text)
        reqs.append({'op': 'entexport', 'ext': True, 'label': True, 'fold': fold, 'up': up, 'ents': [ent_rec_json(e)]})
        meta.append(('entexport', text, 1))
        texts.append((text, True))
        ctx.count('entfile:edge-text')
    # the shipped entities, one by one (quick: a sample; thorough: all)
    full = _STATE.get('full')
    if full is None:
        from srctools.fgd import FGD
        full = _STATE['full'] = FGD.engine_dbase()
    ships = list(full.sorted_ents())
    if not ctx.thorough:
        ships = rng.sample(ships, 250)
    for k in range(0, len(ships), 50):
        chunk = ships[k:k + 50]
        text = ''
        for e in chunk:
            f = io.StringIO()
            gexp(lambda: e.export(f))
            text += '\n' + f.getvalue()
        fold, up = case_tables(text[:20000])
        reqs.append({'op': 'entexport', 'ext': True, 'label': True, 'fold': fold, 'up': up, 'ents': [ent_rec_json(e) for e in chunk]})
        meta.append(('entexport', text, len(chunk)))
        ctx.count('entfile:shipped-entities', len(chunk))
        ctx.count('entfile:shipped-good', sum(1 for e in chunk if ent_good(e)))
    for text, damaged in texts:
        fold, up = case_tables(text)
        reqs.append({'op': 'fileparse', 's': codes(text), 'fold': fold, 'up': up})
        meta.append(('fileparse-damaged' if damaged else 'fileparse', text, impl_parse_file(text)))
    for (kind, text, extra), m in zip(meta, drv.batch(reqs, timeout=1800)):
        ctx.traces_vs_impl += 1
        if kind == 'entexport':
            if m.get('text') != codes(text):
                mt = uncodes(m.get('text', []))
                k = next((i for i, (a, b) in enumerate(zip(text, mt)) if a != b), min(len(text), len(mt)))
                ctx.disagree({'kind': kind, 'ents': extra}, text[max(0, k - 40):k + 40], mt[max(0, k - 40):k + 40], f'entity text at offset {k}')
        else:
            impl = extra
            if impl.get('skip'):
                continue
            ctx.count('fileparse:' + ('err' if 'err' in impl else 'ok'))
            mi = _model_parsed(m)
            if ('err' in impl) != ('err' in mi):
                ctx.disagree({'kind': 'fileparse', 'text': text[:400]}, impl if 'err' in impl else 'ok', m.get('perr', m['run']['err']) if 'err' in mi else 'ok', 'file parse: accept/reject')
            elif 'err' not in impl:
                a, b = json.loads(json.dumps(impl['ents'])), json.loads(json.dumps(mi['ents']))
                if len(a) == len(b) and kind == 'fileparse-damaged':
                    from srctools.fgd import HelperTypes
                    known = {codes_t for codes_t in (tuple(codes(h.value)) for h in HelperTypes)}
                    for ea, eb in zip(a, b):
                        # typed helpers re-normalise their arguments (Vec formatting, defaults): compare their names only
                        for hl in (ea[4], eb[4]):
                            for h in hl:
                                if tuple(h[0]) in known:
                                    h[1] = 'typed'
                if a != b:
                    ctx.disagree({'kind': 'fileparse', 'text': text[:400]}, None, None, 'file parse: ' + str(G.first_diff(a, b)))


_BARE_BAD = set('\t\n\r "\'(),;=[]{}:+')


def _bare_ok(s):
    return bool(s) and s[0] not in '/#' and not (set(s) & _BARE_BAD) and '\ufeff' not in s


def ent_good(ent):
    """Python mirror of the decidable hypotheses of C16_entity_roundtrip (EntGood): identifier-shaped names, helper
    arguments without comma / parenthesis / surrounding blanks, keyvalues as in KvGood."""
    from srctools.fgd import EntityDef, ValueTypes, RESTYPE_TO_NAME
    if not _bare_ok(ent.classname) or ent.type.name == 'EXTEND':
        return False
    for b in ent.bases:
        n = b.classname if isinstance(b, EntityDef) else b
        if not n or set(n) & set(',()') or n != n.strip():
            return False
    for h in ent.helpers:
        hj = helper_json(h)
        name = uncodes(hj[0])
        if not _bare_ok(name) or name in ('base', 'aliasof', 'autovis'):
            return False
        args = [uncodes(a) for a in hj[1]]
        if args == [''] or any(set(a) & set(',()') or a != a.strip() for a in args):
            return False
    for m in ent.keyvalues.values():
        for tags, kv in m.items():
            if not _bare_ok(kv.name) or kv.name.casefold() in ('input', 'output', '@resources') or kv.custom_type is not None:
                return False
            if kv.type is ValueTypes.SPAWNFLAGS and (kv.default or kv.desc):
                return False
            if kv.type is ValueTypes.SPAWNFLAGS and any(v[0] <= 0 or v[0] & (v[0] - 1) for v in (kv.val_list or [])):
                return False
            if kv.type is ValueTypes.CHOICES and any(not plain_ok(v[1].replace('\n', ' ')) for v in (kv.val_list or [])):
                return False
    for coll in (ent.inputs, ent.outputs):
        for m in coll.values():
            for tags, v in m.items():
                if not _bare_ok(v.name) or v.custom_type is not None:
                    return False
    if ent.resources != ():
        if any(r.type not in RESTYPE_TO_NAME for r in ent.resources):
            return False
    return True


# ----------------------------------------------------------------------------------------- lazy database

def build_engine_db(layout, cbase_payload=7):
    """An EngineDB with the given block layout: layout = [[(name, [base names], payload), …], …]; built with the
    implementation's own BinStrDict / ent_serialise (as serialise() does per block)."""
    from srctools import _engine_db as edb
    from srctools.fgd import EntityDef, EntityTypes, KVDef, ValueTypes
    def mk(name, bases, payload):
        e = EntityDef(EntityTypes.POINT, name)
        e.bases = list(bases)
        e.is_alias = bool(bases)
        e.keyvalues['pl'] = {frozenset(): KVDef('pl', ValueTypes.INT, 'Payload', str(payload), '')}
        return e
    cb = mk('_CBaseEntity_', [], cbase_payload)
    base_set = {'pl', 'Payload', str(cbase_payload)}
    i = 0
    while len(base_set) < edb.SHARED_STRINGS:
        base_set.add(f'shared{i}'); i += 1
    base_dict = edb.BinStrDict(base_set, None)
    ent_map = {}
    unparsed = []
    for bi, block in enumerate(layout):
        strings = set()
        ents = []
        for name, bases, payload in block:
            e = mk(name, bases, payload)
            ents.append(e)
            strings |= {str(payload)} | set(bases)
        strings -= base_set
        d = edb.BinStrDict(strings, base_dict)
        f = io.BytesIO()
        d.serialise(f)
        for e in ents:
            edb.ent_serialise(e, f, d)
        unparsed.append(([e.classname for e in ents], f.getvalue()))
        for e in ents:
            ent_map[e.classname.casefold()] = bi
    ent_map['_cbaseentity_'] = cb
    return edb.EngineDB(ent_map, sorted(base_set), unparsed)


def observe_db(db, names, ids):
    """[[parsed…],[slot…]] in the driver's format; ids: casefolded name -> number."""
    from srctools.fgd import EntityDef
    parsed = [u == ((), b'') for u in db.unparsed]
    slots = []
    for n in names:
        v = db.ent_map.get(n)
        if v is None:
            slots.append(None)
        elif isinstance(v, int):
            slots.append([0, v])
        else:
            pl = int(v.keyvalues['pl'][frozenset()].default) if 'pl' in v.keyvalues else -1
            kinds = {isinstance(b, EntityDef) for b in v.bases}
            if kinds == {True} or not v.bases:
                ok = all(db.ent_map.get(b.classname.casefold()) is b for b in v.bases)
                slots.append([1, pl, 1, [ids[b.classname.casefold()] for b in v.bases]] if ok else ['base-object-is-not-the-map-entry'])
            elif kinds == {False}:
                slots.append([1, pl, 0, [ids[b.casefold()] for b in v.bases]])
            else:
                slots.append(['mixed-bases'])
    return [parsed, slots]


def gen_layout(rng):
    nblocks = rng.randrange(1, 7)
    names = [f'ent{i}' if rng.random() < 0.8 else f'Ent_{i}X' for i in range(rng.randrange(1, 14))]
    rng.shuffle(names)
    layout = [[] for _ in range(nblocks)]
    for i, n in enumerate(names):
        r = rng.random()
        bases = []
        if len(names) > 1 and r < 0.5:
            k = 1 if r < 0.4 else 2
            bases = rng.sample([m for m in names if m != n] or [n], min(k, len(names) - 1)) if rng.random() < 0.9 else [n]
        if rng.random() < 0.1:
            bases = [b.upper() if rng.random() < 0.5 else b for b in bases]
        layout[rng.randrange(nblocks)].append((n, bases, 100 + i))
    return layout


def corr_lazy(ctx, drv, real_layouts):
    reqs, meta = [], []
    jobs = []
    for i in range(ctx.budget(250, 3000)):
        layout = gen_layout(ctx.rng)
        names = [n for b in layout for (n, _, _) in b]
        qs = [ctx.rng.choice(names + ['nope', '_CBaseEntity_']) for _ in range(ctx.rng.randrange(0, 8))]
        if ctx.rng.random() < 0.3:
            qs = qs + qs[::-1]
        jobs.append((layout, qs, 7))
    jobs += real_layouts
    for layout, qs, cpl in jobs:
        ids = {'_cbaseentity_': 0}
        for b in layout:
            for (n, _, _) in b:
                ids.setdefault(n.casefold(), len(ids))
        ids.setdefault('nope', len(ids))
        names = sorted(ids, key=ids.get)
        if len(names) > 400:   # the shipped layout: observe the queried classes, their block mates and bases
            keep = {'_cbaseentity_', 'nope'}
            qset = {q.casefold() for q in qs}
            for b in layout:
                if any(n.casefold() in qset for (n, _, _) in b):
                    for (n, bs, _) in b:
                        keep.add(n.casefold()); keep |= {x.casefold() for x in bs}
            names = [n for n in names if n in keep]
        db = build_engine_db(layout, cpl)
        steps = [observe_db(db, names, ids)]
        for q in qs:
            try:
                e = db.get_ent(q)
                if db.ent_map[q.casefold()] is not e:
                    steps.append(['returned-object-is-not-the-map-entry'])
                    continue
            except KeyError:
                pass
            steps.append(observe_db(db, names, ids))
        with contextlib.redirect_stdout(io.StringIO()):
            db.get_fgd()
        all_ = observe_db(db, names, ids)
        db0 = build_engine_db(layout, cpl)
        db0.get_fgd()
        all0 = observe_db(db0, names, ids)
        reqs.append({'op': 'lazy', 'blocks': [[[ids[n.casefold()], [ids[x.casefold()] for x in bs], pl] for (n, bs, pl) in b] for b in layout],
                     'cbase': 0, 'cpayload': cpl, 'qs': [ids.get(q.casefold(), ids['nope']) for q in qs], 'names': [ids[n] for n in names]})
        meta.append((layout if len(layout) < 20 else f'<{len(layout)} blocks>', qs, steps, all_, all0))
        ctx.case({'lazy': [[n for (n, _, _) in b] for b in layout] if len(layout) < 20 else len(layout), 'qs': qs},
                 nontrivial=len(layout) > 1 and any(bs for b in layout for (_, bs, _) in b), sample_every=301)
        ctx.count('lazy:blocks=%s' % (len(layout) if len(layout) < 7 else 'shipped'))
        ctx.count('lazy:queries', len(qs))
        # the property on this database: queried entities equal the full load
        fin = steps[-1]
        if isinstance(fin, list) and len(fin) == 2:
            for q in qs:
                k = q.casefold()
                if k in ids and k in names:
                    j = names.index(k)
                    if fin[1][j] != all0[1][j]:
                        ctx.witness('lazy-differs', f'after queries {qs} get_ent({q!r}) state {fin[1][j]} differs from the full load {all0[1][j]}', {'kind': 'lazy', 'layout': layout if len(layout) < 20 else 'shipped', 'qs': qs})
    for (layout, qs, steps, all_, all0), m in zip(meta, drv.batch(reqs)):
        ctx.traces_vs_impl += len(steps)
        if m.get('steps') != steps:
            k = next((i for i, (a, b) in enumerate(zip(m.get('steps', []), steps)) if a != b), -1)
            ctx.disagree({'kind': 'lazy', 'layout': layout, 'qs': qs}, steps[k] if k >= 0 else steps, (m.get('steps') or [None])[k] if k >= 0 else m.get('steps'), f'state after step {k}')
        elif m.get('all') != all_ or m.get('all0') != all0:
            ctx.disagree({'kind': 'lazy', 'layout': layout, 'qs': qs}, [all_, all0], [m.get('all'), m.get('all0')], 'state after get_fgd')


def shipped_bytes():
    import srctools, importlib_resources
    return (importlib_resources.files(srctools) / 'fgd.lzma').read_bytes()


def shipped_layout(full, data):
    """Block layout of the shipped database in the form of gen_layout (payload = running number)."""
    from srctools import _engine_db as edb
    db = edb.unserialise(io.BytesIO(data))
    layout = []
    k = 1000
    for classes, _ in db.unparsed:
        blk = []
        for c in classes:
            e = full.entities[c.casefold()]
            bases = [b.classname for b in e.bases if b.classname.casefold() != '_cbaseentity_']
            blk.append((c, bases, k)); k += 1
        layout.append(blk)
    return layout


# ----------------------------------------------------------------------------------------- correspond / search

_STATE = {}


def guard(ctx, name, fn, *args):
    """Run one part of the check. An exception raised INSIDE the implementation (innermost frame under
    srctools/) on inputs of the property's domain is a failing input, not an internal error."""
    import traceback
    try:
        return fn(*args)
    except G.Hang as e:
        ctx.witness('export-hangs', f'{name}: an export call of the implementation does not terminate ({e})', {'kind': 'part', 'part': name})
        return None
    except MemoryError:
        ctx.witness('export-hangs', f'{name}: the implementation exhausted the memory cap', {'kind': 'part', 'part': name})
        return None
    except Exception as e:
        tb = traceback.extract_tb(e.__traceback__)
        inner = tb[-1].filename if tb else ''
        if '/srctools/' in inner.replace('\\', '/'):
            ctx.witness('impl-raises', f'{name}: the implementation raised {G.exc_str(e)} at {inner.split("/")[-1]}:{tb[-1].lineno}', {'kind': 'part', 'part': name})
            return None
        raise


def correspond(ctx, drivers):
    limit_memory()
    drv = drivers['drv_c16']
    guard(ctx, 'long strings', corr_long, ctx, drv)
    guard(ctx, 'colon lists', corr_colon, ctx, drv)
    guard(ctx, 'string dictionary', corr_dict, ctx, drv)
    guard(ctx, 'records', corr_records, ctx, drv)
    if G.HANGS[0] < 3:
        guard(ctx, 'keyvalue / IO lines', corr_kv, ctx, drv)
        guard(ctx, 'whole entities / files', corr_ent, ctx, drv)
    guard(ctx, 'lazy database', _corr_lazy_all, ctx, drv)
    ctx.exhaustive = False


def _corr_lazy_all(ctx, drv):
    from srctools.fgd import FGD
    data = shipped_bytes()
    full = FGD.engine_dbase()
    _STATE['full'] = full
    _STATE['data'] = data
    lay = shipped_layout(full, data)
    allnames = [n for b in lay for (n, _, _) in b]
    aliases = [n for b in lay for (n, bs, _) in b if bs]
    real = []
    for j in range(ctx.budget(3, 12)):
        qs = [ctx.rng.choice(allnames) for _ in range(6)] + ctx.rng.sample(aliases, 3)
        ctx.rng.shuffle(qs)
        real.append((lay, qs, 7))
    real.append((lay, aliases + [bs[0] for b in lay for (n, bs, _) in b if bs], 7))
    corr_lazy(ctx, drv, real)


def edge_roundtrip(t, cs):
    """Text round trip of one entity carrying the text `t` in every string position of keyvalues / IO / description."""
    from srctools.fgd import FGD, EntityDef, EntityTypes, KVDef, IODef, ValueTypes
    fgd = FGD()
    e = EntityDef(EntityTypes.POINT, 'edge_ent')
    e.desc = t
    # choice names are always written without custom syntax: no backslash / CR there (documented limitation)
    cn = t if not ('\\' in t or '\r' in t) else 'n'
    kvs = [KVDef('k', ValueTypes.STRING, t, t, t), KVDef('i', ValueTypes.INT, 'd', t, ''),
           KVDef('c', ValueTypes.CHOICES, 'd', t, t, [(t, cn, frozenset()), ('x' + t, 'n', frozenset()), (t + 'x', cn, frozenset())]),
           KVDef('m', ValueTypes.STR_MODEL, '', t, '')]
    for kv in kvs:
        e.keyvalues[kv.name] = {frozenset(): kv}
    e.kv_order = [kv.name for kv in kvs]
    e.inputs['inp'] = {frozenset(): IODef('Inp', ValueTypes.VOID, t)}
    e.outputs['out'] = {frozenset(): IODef('Out', ValueTypes.INT, t)}
    fgd.entities['edge_ent'] = e
    return G.text_roundtrip(fgd, cs, True, field_equality=True)[0]


def search_generated(ctx):
    n = ctx.budget(120, 1500)
    for i in range(n):
        if G.HANGS[0] >= 3:
            ctx.notes.append('generated FGDs: export keeps hanging, part abandoned')
            return
        seed = ctx.rng.getrandbits(48)
        opts = {'tags': ctx.rng.random() < 0.4, 'long_p': ctx.rng.choice([0.0, 0.05, 0.3]), 'empty_choice_names': ctx.rng.random() < 0.5}
        for cs in (True, False):
            for ls in (True, False):
                o = dict(opts, plain=not cs)
                fgd = G.gen_fgd(random.Random(seed), o)
                probs, info = G.text_roundtrip(fgd, cs, ls, field_equality=(cs or not opts['tags']))
                ctx.case({'gen': seed, 'opts': o, 'cs': cs, 'ls': ls}, nontrivial=True, sample_every=211)
                ctx.count('text:generated')
                ctx.count('text:plus-splits', info.get('plus', 0))
                for key, what in probs:
                    ctx.witness('text-' + key, f'generated FGD (seed {seed}, custom_syntax={cs}, label_spawnflags={ls}): {what}',
                                {'kind': 'gen-text', 'seed': seed, 'opts': o, 'cs': cs, 'ls': ls})
    # deterministic sweep: every edge text (numeric-looking / identifier / empty with one blank or control character
    # before, after or inside) in every string position of a keyvalue / IO definition / entity description
    for t in G.edge_texts():
        for cs in (True, False):
            if not cs and ('\\' in t or '\r' in t):
                continue
            probs = edge_roundtrip(t, cs)
            ctx.case({'edge': codes(t), 'cs': cs}, nontrivial=True, sample_every=97)
            ctx.count('text:edge-text')
            for key, what in probs:
                ctx.witness('text-' + key, f'edge text {t!r} (custom_syntax={cs}): {what}', {'kind': 'edge-text', 't': codes(t), 'cs': cs})
                break
    # binary round trip of generated engine-form FGDs
    for i in range(ctx.budget(6, 40)):
        seed = ctx.rng.getrandbits(48)
        fgd = G.engine_pad(random.Random(seed), G.gen_fgd(random.Random(seed), {'engine': True, 'n_ents': ctx.rng.randrange(2, 30), 'long_p': 0.0}))
        probs, _ = G.binary_roundtrip(fgd)
        ctx.case({'genbin': seed}, nontrivial=True, sample_every=7)
        ctx.count('binary:generated')
        for key, what in probs:
            ctx.witness(key, f'generated engine FGD (seed {seed}): {what}', {'kind': 'gen-bin', 'seed': seed})


def search_shipped(ctx):
    from srctools.fgd import FGD
    full = _STATE.get('full') or FGD.engine_dbase()
    data = _STATE.get('data') or shipped_bytes()
    combos = [(True, True), (False, True)] + ([(True, False), (False, False)] if ctx.thorough else [])
    for cs, ls in combos:
        if G.HANGS[0] >= 4:
            break
        probs, info = G.text_roundtrip(full, cs, ls, field_equality=True)
        ctx.count('text:shipped-entities', len(full.entities))
        ctx.case({'shipped-text': [cs, ls], 'len': info.get('len')}, nontrivial=True)
        for key, what in probs:
            ctx.witness('text-' + key, f'shipped database ({len(full.entities)} entities, custom_syntax={cs}, label_spawnflags={ls}): {what}',
                        {'kind': 'shipped-text', 'cs': cs, 'ls': ls})
    probs, _ = G.binary_roundtrip(full)
    ctx.count('binary:shipped-entities', len(full.entities))
    ctx.case({'shipped-binary': len(full.entities)}, nontrivial=True)
    for key, what in probs:
        ctx.witness(key, f'shipped database: {what}', {'kind': 'shipped-bin'})
    search_lazy_shipped(ctx, full, data)


def search_lazy_shipped(ctx, full, data):
    """engine_def()-style single lookups on FRESH databases, any order, vs the full load (deep comparison,
    bases included)."""
    from srctools import _engine_db as edb
    want = {k: G.canon_ent(e, deep_bases=True) for k, e in full.entities.items()}
    names = sorted(full.entities)
    aliases = [k for k in names if full.entities[k].is_alias]
    orders = []
    # every class alone on a fresh database
    for k in names:
        orders.append([k])
    rng = ctx.rng
    for _ in range(ctx.budget(20, 200)):
        orders.append([rng.choice(names) for _ in range(rng.randrange(2, 40))])
    orders.append(aliases + [full.entities[a].bases[0].classname for a in aliases])
    orders.append([full.entities[a].bases[0].classname.upper() for a in aliases] + [a.upper() for a in aliases])
    orders.append(names[::-1][:300] + names[:300])
    orders.append([n for n in names[::7]] * 2)
    for qs in orders:
        db = edb.unserialise(io.BytesIO(data))
        ctx.count('lazy:fresh-databases')
        ctx.count('lazy:lookups', len(qs))
        seen = {}
        for q in qs:
            try:
                e = db.get_ent(q)
            except Exception as ex:
                ctx.witness('lazy-raises', f'get_ent({q!r}) after {qs[:qs.index(q)][-3:]} raised {G.exc_str(ex)}', {'kind': 'lazy-shipped', 'qs': qs[:qs.index(q) + 1]})
                break
            k = q.casefold()
            if k in seen and seen[k] is not e:
                ctx.witness('lazy-not-idempotent', f'get_ent({q!r}) returned a different object the second time', {'kind': 'lazy-shipped', 'qs': qs})
            seen[k] = e
        # compare at the end (later queries must not have disturbed earlier results) — deep, bases included
        for k, e in seen.items():
            d = G.first_diff(want[k], G.canon_ent(e, deep_bases=True), k)
            if d:
                ctx.witness('lazy-differs', f'single lookups {qs[:5]}… on a fresh database: {d}', {'kind': 'lazy-shipped', 'qs': qs})
                break
    # EntityDef.engine_def / engine_classes through the public API (shared, already loaded database)
    from srctools.fgd import EntityDef
    for k in rng.sample(names, ctx.budget(60, 600)):
        e = EntityDef.engine_def(k.upper() if rng.random() < 0.3 else k)
        d = G.first_diff(want[k], G.canon_ent(e, deep_bases=True), k)
        ctx.count('lazy:engine_def')
        if d:
            ctx.witness('lazy-differs', f'EntityDef.engine_def({k!r}): {d}', {'kind': 'engine_def', 'name': k})
    if set(EntityDef.engine_classes()) != set(names):
        ctx.witness('lazy-classes', 'engine_classes() differs from the entity set of engine_dbase()', {'kind': 'engine_classes'})


# ----------------------------------------------------------------------------------------- histories with edits

def fresh_engine():
    """Forget the process-wide engine database so that the next lookup starts from the file again."""
    import srctools.fgd as F
    if hasattr(F, '_ENGINE_DB'):
        F._ENGINE_DB = None
    else:                        # refactored away: a fresh import is the next best thing to a fresh process
        import common
        common.import_impl()


def mutable_ids(ent, out=None, path='', seen=None, hold=None):
    """id -> path of every MUTABLE object reachable from an EntityDef (following resolved bases).
    `hold` (a list) receives the objects themselves: ids are only meaningful while the objects are alive, and
    an in-place edit may drop them from the result."""
    from srctools.fgd import EntityDef
    out = {} if out is None else out
    seen = set() if seen is None else seen
    hold = [] if hold is None else hold
    def put(o, pth):
        out[id(o)] = pth
        hold.append(o)
    if id(ent) in seen:
        return out
    seen.add(id(ent))
    put(ent, path + ent.classname)
    for attr in ('keyvalues', 'inputs', 'outputs'):
        d = getattr(ent, attr)
        put(d, f'{path}{ent.classname}.{attr}')
        for name, tagmap in d.items():
            put(tagmap, f'{path}{ent.classname}.{attr}[{name}]')
            for tags, val in tagmap.items():
                put(val, f'{path}{ent.classname}.{attr}[{name}][{sorted(tags)}]')
                vl = getattr(val, 'val_list', None)
                if isinstance(vl, list):
                    put(vl, f'{path}{ent.classname}.{attr}[{name}].val_list')
    for attr in ('kv_order', 'bases', 'helpers', 'resources'):
        v = getattr(ent, attr)
        if isinstance(v, list):
            put(v, f'{path}{ent.classname}.{attr}')
    for h in ent.helpers:
        put(h, f'{path}{ent.classname}.helper')
    for b in ent.bases:
        if isinstance(b, EntityDef):
            mutable_ids(b, out, path + ent.classname + '>', seen, hold)
    return out


def db_cache_ids(names):
    """Mutable objects of the engine database's own cache for the given class names (private state; {} if unknown)."""
    import srctools.fgd as F
    from srctools.fgd import EntityDef
    out = {}
    for db in (getattr(F, '_ENGINE_DB', None) or []):
        em = getattr(db, 'ent_map', None)
        if not isinstance(em, dict):
            continue
        for n in names:
            e = em.get(n.casefold())
            if isinstance(e, EntityDef):
                mutable_ids(e, out, 'cache:')
        cached = getattr(db, 'fgd', None)
        if cached is not None:
            for n in names:
                e = cached.entities.get(n.casefold())
                if e is not None:
                    mutable_ids(e, out, 'cache.fgd:')
    return out


EDIT_KINDS = ['kv-default', 'kv-disp', 'kv-type', 'del-kv', 'add-kv', 'del-input', 'del-output', 'rename', 'vals-append',
              'resources-append', 'clear-bases', 'base-kv', 'kv-order', 'alias-flag']


def apply_edit(ent, kind, rng):
    """Edit an EntityDef a caller was handed, IN PLACE. Returns a short description (None = nothing to edit)."""
    from srctools.fgd import KVDef, ValueTypes, Resource, EntityDef
    def some_kv():
        ks = [k for k in ent.keyvalues if ent.keyvalues[k]]
        if not ks:
            return None
        k = ks[rng.randrange(len(ks))]
        return k, next(iter(ent.keyvalues[k].values()))
    if kind in ('kv-default', 'kv-disp', 'kv-type', 'vals-append'):
        r = some_kv()
        if r is None:
            return None
        k, kv = r
        if kind == 'kv-default':
            kv.default = 'EDITED'
        elif kind == 'kv-disp':
            kv.disp_name = 'EDITED'
        elif kind == 'kv-type':
            kv.type = ValueTypes.STR_SOUND if kv.type is not ValueTypes.STR_SOUND else ValueTypes.INT
        else:
            if kv.val_list is None:
                return None
            kv.val_list.append((1 << 30, 'EDITED', True, frozenset()) if kv.type is ValueTypes.SPAWNFLAGS else ('e', 'EDITED', frozenset()))
        return f'{kind} {k}'
    if kind == 'del-kv':
        r = some_kv()
        if r is None:
            return None
        del ent.keyvalues[r[0]]
        return f'del-kv {r[0]}'
    if kind == 'add-kv':
        ent.keyvalues['edited_key'] = {frozenset(): KVDef('edited_key', ValueTypes.STRING, 'Edited', 'x', '')}
        return 'add-kv'
    if kind in ('del-input', 'del-output'):
        d = ent.inputs if kind == 'del-input' else ent.outputs
        if not d:
            return None
        k = list(d)[rng.randrange(len(d))]
        del d[k]
        return f'{kind} {k}'
    if kind == 'rename':
        ent.classname = ent.classname + '_edited'
        return 'rename'
    if kind == 'resources-append':
        if not isinstance(ent.resources, list):
            return None
        ent.resources.append(Resource('edited/file.mdl'))
        return 'resources-append'
    if kind == 'clear-bases':
        if not ent.bases:
            return None
        ent.bases.clear()
        return 'clear-bases'
    if kind == 'base-kv':
        bs = [b for b in ent.bases if isinstance(b, EntityDef) and b.keyvalues]
        if not bs:
            return None
        b = bs[0]
        k = list(b.keyvalues)[rng.randrange(len(b.keyvalues))]
        next(iter(b.keyvalues[k].values())).default = 'EDITED-BASE'
        return f'base-kv {b.classname}.{k}'
    if kind == 'kv-order':
        ent.kv_order.append('edited')
        return 'kv-order'
    if kind == 'alias-flag':
        ent.is_alias = not ent.is_alias
        return 'alias-flag'
    return None


def run_history(ops, want, stop_at_first=True):
    """Run a history on a FRESH engine database. ops: {'op':'def','name'} | {'op':'dbase','sample':[names]} |
    {'op':'edit','on':'def'|'dbase','name','kind','seed'} | {'op':'collapse'} (collapse_bases on the last FGD handed out).
    After every lookup the result is compared with the pristine reference `want` and id-walked against every
    earlier result and the database's own cache. Returns a list of problems (strings)."""
    from srctools.fgd import EntityDef, FGD
    fresh_engine()
    held_def = {}        # name -> last EntityDef handed out
    held_fgd = []        # FGDs handed out
    owners = {}          # id -> (who, path) of mutable objects of results handed out so far (results stay alive in `keep`)
    keep = []
    probs = []

    def check(ent, key, who, step):
        d = G.first_diff(want[key], G.canon_ent(ent, deep_bases=True), key)
        if d:
            probs.append(f'{who}: definition differs from the database file: {d}')
        ids = mutable_ids(ent, hold=keep)
        for i, pth in ids.items():
            if i in owners and owners[i][0] != step:      # sharing inside ONE result (one FGD) is fine
                probs.append(f'{who}: {pth} is the same object as {owners[i][1]} handed out at step {owners[i][0]}')
                break
        cache = db_cache_ids([key])
        for i, pth in ids.items():
            if i in cache:
                probs.append(f'{who}: {pth} is the database\'s own object {cache[i]}')
                break
        for i, pth in ids.items():
            owners.setdefault(i, (step, pth))

    for n, op in enumerate(ops):
        try:
            if op['op'] == 'def':
                e = EntityDef.engine_def(op['name'])
                keep.append(e)
                check(e, op['name'].casefold(), f'step {n} engine_def({op["name"]!r})', n)
                held_def[op['name'].casefold()] = e
            elif op['op'] == 'dbase':
                f = FGD.engine_dbase()
                keep.append(f)
                if set(f.entities) != set(want):
                    probs.append(f'step {n} engine_dbase(): entity set differs from the database file: {sorted(set(f.entities) ^ set(want))[:4]}')
                for nm in op['sample']:
                    e = f.entities.get(nm.casefold())
                    if e is None:
                        probs.append(f'step {n} engine_dbase(): {nm} missing')
                    else:
                        check(e, nm.casefold(), f'step {n} engine_dbase()[{nm!r}]', n)
                held_fgd.append(f)
            elif op['op'] == 'edit':
                tgt = held_def.get(op['name'].casefold()) if op['on'] == 'def' else (held_fgd[-1].entities.get(op['name'].casefold()) if held_fgd else None)
                if tgt is not None:
                    apply_edit(tgt, op['kind'], random.Random(op['seed']))
            elif op['op'] == 'collapse':
                if held_fgd:
                    held_fgd[-1].collapse_bases()
            elif op['op'] == 'del-ent':
                if held_fgd:
                    held_fgd[-1].entities.pop(op['name'].casefold(), None)
        except Exception as ex:
            probs.append(f'step {n} {op["op"]}: raised {G.exc_str(ex)}')
        if probs and stop_at_first:
            break
    fresh_engine()
    return probs


def gen_history(rng, names, aliases):
    pool = [rng.choice(names) for _ in range(3)] + ([rng.choice(aliases)] if aliases and rng.random() < 0.4 else [])
    ops = []
    n_dbase = 0
    for _ in range(rng.randrange(3, 9)):
        r = rng.random()
        nm = rng.choice(pool)
        if r < 0.4:
            ops.append({'op': 'def', 'name': nm.upper() if rng.random() < 0.1 else nm})
        elif r < 0.52 and n_dbase < 2:
            n_dbase += 1
            ops.append({'op': 'dbase', 'sample': sorted(set(pool + [rng.choice(names) for _ in range(4)]))})
        elif r < 0.9:
            ops.append({'op': 'edit', 'on': rng.choice(['def', 'dbase']), 'name': nm, 'kind': rng.choice(EDIT_KINDS), 'seed': rng.randrange(1 << 30)})
        elif r < 0.95:
            ops.append({'op': 'collapse'})
        else:
            ops.append({'op': 'del-ent', 'name': nm})
    # always end by looking again at everything that may have been touched
    for nm in sorted(set(pool)):
        ops.append({'op': 'def', 'name': nm})
    return ops


def search_histories(ctx):
    """Histories of lookups interleaved with IN-PLACE edits of what earlier lookups returned: a result handed out
    belongs to the caller, so every later lookup must still give the definitions of the database file."""
    from srctools import _engine_db as edb
    want = _STATE.get('want')
    if want is None:
        pristine = edb.unserialise(io.BytesIO(shipped_bytes())).get_fgd()      # never handed to anything that edits
        want = _STATE['want'] = {k: G.canon_ent(e, deep_bases=True) for k, e in pristine.entities.items()}
        _STATE['aliases'] = sorted(k for k, e in pristine.entities.items() if e.is_alias)
    names = sorted(want)
    aliases = _STATE['aliases']
    rng = ctx.rng
    x, y = names[len(names) // 3], names[len(names) // 2]
    fixed = [
        [{'op': 'dbase', 'sample': [x]}, {'op': 'collapse'}, {'op': 'def', 'name': x}, {'op': 'dbase', 'sample': [x, y]}],
        [{'op': 'dbase', 'sample': [x]}, {'op': 'edit', 'on': 'dbase', 'name': x, 'kind': 'kv-default', 'seed': 1}, {'op': 'def', 'name': x}],
        [{'op': 'def', 'name': x}, {'op': 'edit', 'on': 'def', 'name': x, 'kind': 'del-input', 'seed': 2}, {'op': 'def', 'name': x}],
        [{'op': 'dbase', 'sample': [x]}, {'op': 'dbase', 'sample': [x]}],
        [{'op': 'def', 'name': x}, {'op': 'edit', 'on': 'def', 'name': x, 'kind': 'base-kv', 'seed': 3}, {'op': 'def', 'name': y}],
        [{'op': 'def', 'name': 'prop_dynamic'}, {'op': 'edit', 'on': 'def', 'name': 'prop_dynamic', 'kind': 'resources-append', 'seed': 4}, {'op': 'def', 'name': 'prop_dynamic'}],
        [{'op': 'def', 'name': x}, {'op': 'dbase', 'sample': [x]}, {'op': 'edit', 'on': 'dbase', 'name': x, 'kind': 'rename', 'seed': 5}, {'op': 'del-ent', 'name': y}, {'op': 'dbase', 'sample': [x, y]}],
    ]
    hist = fixed + [gen_history(rng, names, aliases) for _ in range(ctx.budget(14, 150))]
    for ops in hist:
        probs = run_history(ops, want)
        ctx.case({'history': [o['op'] for o in ops]}, nontrivial=any(o['op'] in ('edit', 'collapse', 'del-ent') for o in ops), sample_every=17)
        ctx.count('history:runs')
        for o in ops:
            ctx.count('history:op:' + o['op'])
        if probs:
            small = ddmin(ops, lambda sub: bool(run_history(sub, want)), budget=40) if len(ops) > 2 else ops
            p2 = run_history(small, want) or probs
            ctx.witness('history-' + ('shared' if 'same object' in p2[0] or 'own object' in p2[0] else 'differs'),
                        f'history {[(o["op"], o.get("name", ""), o.get("kind", "")) for o in small]}: {p2[0]}', {'kind': 'history', 'ops': small})
            if ctx.hist.get('witnesses', 0) >= 6:
                break


# ----------------------------------------------------------------------------------------- argument forms / aliasing
# Accepted forms AS CODED (established by experiment on the unchanged tree):
#   FGD.parse: (File) | (File, fs) | keywords | (str path with or without ".fgd", fs).   Rejected: str without filesystem
#     (TypeError), pathlib paths (AttributeError), missing file (FileNotFoundError).
#   FGD.export: () | (None) | (file=None) -> str;  (file object at any position) -> None, text written at the current position;
#     label_spawnflags / custom_syntax keyword-only.   EntityDef.export(file, label_spawnflags, custom_syntax) positional or keyword.
#   serialise(fgd, BytesIO at any position) / unserialise(file object positioned where serialise started; file= keyword).
#     Rejected: bytes / bytearray / memoryview instead of a file object (AttributeError).
#   EntityDef fields: bases / helpers / resources / kv_order and KVDef.val_list as tuples are accepted by export and
#     ent_serialise (NOT by copy / deepcopy: `.copy()`); one-shot generators are outside the domain (a second export differs).
#   EntityDef.engine_def(name): any letter case, positional or classname= keyword.

def _snapshot(fgd):
    return json.dumps(G.canon_fgd(fgd), sort_keys=True, default=str)


def search_argforms(ctx):
    """Every accepted argument form gives the result of the canonical form, and arguments are unchanged afterwards."""
    if G.HANGS[0] >= 3:
        ctx.notes.append('argument forms: skipped, the writer hangs')
        return
    from srctools.fgd import FGD, EntityDef, EntityTypes, KVDef, IODef, ValueTypes, Resource, UnknownHelper
    from srctools.filesys import VirtualFileSystem
    from srctools import _engine_db as edb
    rng = ctx.rng

    def bad(key, what, inp):
        ctx.witness('argform-' + key, what, dict(inp, kind='argform'))

    for it in range(ctx.budget(6, 40)):
        seed = rng.getrandbits(40)
        fgd = G.gen_fgd(random.Random(seed), {'tags': True, 'long_p': 0.05})
        fgd.map_size_min = fgd.map_size_max = 0
        inp = {'seed': seed}
        ctx.case({'argforms': seed}, nontrivial=True, sample_every=5)
        ctx.count('argform:fgds')
        # ---- export forms, repeated export, no mutation
        before = _snapshot(fgd)
        ref = gexp(lambda: fgd.export())
        forms = {'export(None)': fgd.export(None), 'export(file=None)': fgd.export(file=None),
                 'export(kw defaults)': fgd.export(label_spawnflags=True, custom_syntax=True), 'second export()': fgd.export()}
        for pos in (0, 7):
            f = io.StringIO()
            f.write('x' * pos)
            r = fgd.export(f)
            forms[f'export(StringIO at {pos})'] = f.getvalue()[pos:] if (r is None and f.getvalue()[:pos] == 'x' * pos) else f'returned {r!r} / prefix damaged'
        f = io.StringIO()
        fgd.export(file=f, custom_syntax=False, label_spawnflags=False)
        forms['export(file=, cs=False, ls=False) vs str'] = 'same' if f.getvalue() == fgd.export(custom_syntax=False, label_spawnflags=False) else 'differs'
        ref2 = dict.fromkeys(forms, ref)
        ref2['export(file=, cs=False, ls=False) vs str'] = 'same'
        for k, v in forms.items():
            ctx.count('argform:export-forms')
            if v != ref2[k]:
                bad('export', f'FGD.{k} differs from FGD.export() (generated FGD seed {seed})', inp)
        for ent in fgd:
            a, b, c = io.StringIO(), io.StringIO(), io.StringIO()
            ent.export(a); ent.export(b, True, True); ent.export(file=c, label_spawnflags=True, custom_syntax=True)
            if not (a.getvalue() == b.getvalue() == c.getvalue()):
                bad('export', f'EntityDef.export positional / keyword forms differ for {ent.classname} (seed {seed})', inp)
        if _snapshot(fgd) != before:
            bad('export-mutates', f'FGD.export() changed the FGD it exports: {G.first_diff(json.loads(before), json.loads(_snapshot(fgd)))} (seed {seed})', inp)
        # ---- parse forms; the same File object parsed twice
        fs = VirtualFileSystem({'a.fgd': ref, 'sub/b.fgd': ref})
        try:
            want = _snapshot(FGD.parse(fs['a.fgd']))
            pforms = {'parse(File, fs)': lambda: FGD.parse(fs['a.fgd'], fs), 'parse(file=, filesystem=)': lambda: FGD.parse(file=fs['a.fgd'], filesystem=fs),
                      "parse('a.fgd', fs)": lambda: FGD.parse('a.fgd', fs), "parse('a', fs)": lambda: FGD.parse('a', fs),
                      "parse('sub/b', fs)": lambda: FGD.parse('sub/b', fs), 'parse(same File again)': lambda: FGD.parse(fs['a.fgd'])}
            fobj = fs['a.fgd']
            pforms['parse(File object reused)'] = lambda: (FGD.parse(fobj), FGD.parse(fobj))[1]
            for k, fn in pforms.items():
                ctx.count('argform:parse-forms')
                got = _snapshot(fn())
                if got != want:
                    bad('parse', f'FGD.{k} differs from FGD.parse(File): {G.first_diff(json.loads(want), json.loads(got))} (seed {seed})', inp)
        except Exception as e:
            bad('parse', f'an accepted form of FGD.parse raised {G.exc_str(e)} (seed {seed})', inp)
        # ---- the SAME KVDef / IODef object under two tags and in two entities
        ents = [e for e in fgd if e.keyvalues]
        if ents:
            e1 = ents[0]
            name = next(iter(e1.keyvalues))
            kv = next(iter(e1.keyvalues[name].values()))
            shared, indep = G.gen_fgd(random.Random(seed), {'tags': True, 'long_p': 0.05}), G.gen_fgd(random.Random(seed), {'tags': True, 'long_p': 0.05})
            for tgt, mk in ((shared, lambda o: o), (indep, lambda o: o.copy())):
                te = [e for e in tgt if e.keyvalues][0]
                tkv = next(iter(te.keyvalues[name].values()))
                te.keyvalues[name][frozenset({'ALIASTAG'})] = mk(tkv)
                other = list(tgt)[-1]
                other.keyvalues.setdefault('zz_shared', {})[frozenset()] = mk(tkv)
                io_ = IODef('SharedIO', ValueTypes.INT, 'x') if tgt is shared else None
                te.inputs['sharedio'] = {frozenset(): io_ or IODef('SharedIO', ValueTypes.INT, 'x')}
                other.outputs['sharedio'] = {frozenset(): io_ or IODef('SharedIO', ValueTypes.INT, 'x')}
            ctx.count('argform:aliased-kv')
            try:
                t_sh, t_in = shared.export(), indep.export()
                if t_sh != t_in:
                    bad('alias', f'an FGD in which one KVDef/IODef object is installed in several places exports differently from one with independent copies (seed {seed})', inp)
                if shared.export() != t_sh:
                    bad('alias', f'second export of an FGD with shared KVDef objects differs (seed {seed})', inp)
            except Exception as e:
                bad('alias', f'export with a shared KVDef object raised {G.exc_str(e)} (seed {seed})', inp)
        # ---- tuples where lists are usual (export / ent_serialise only)
        e = EntityDef(EntityTypes.POINT, 'formtest')
        hs = [UnknownHelper('h', ['1', '2'])]
        rs = [Resource('m.mdl'), Resource('s.wav', tags=frozenset({'T'}))]
        vl = [('0', 'zero', frozenset()), ('1', 'one', frozenset())]
        def build(conv):
            x = EntityDef(EntityTypes.POINT, 'formtest', bases=conv(['pbase']), helpers=conv(hs), resources=conv(rs), kv_order=conv(['b', 'a']))
            x.keyvalues['a'] = {frozenset(): KVDef('a', ValueTypes.CHOICES, 'A', '1', '', conv(vl))}
            x.keyvalues['b'] = {frozenset(): KVDef('b', ValueTypes.INT, 'B', '2', '')}
            return x
        ctx.count('argform:tuple-fields')
        try:
            ta, tb, tc = io.StringIO(), io.StringIO(), io.StringIO()
            build(list).export(ta)
            tup = build(tuple)
            tup.export(tb)
            tup.export(tc)
            if not (ta.getvalue() == tb.getvalue() == tc.getvalue()):
                bad('tuple-fields', 'EntityDef with tuple-valued bases/helpers/resources/kv_order/val_list exports differently from the list form', inp)
        except Exception as ex:
            bad('tuple-fields', f'EntityDef with tuple-valued fields: export raised {G.exc_str(ex)} (accepted on the unchanged tree)', inp)
    # ---- binary: stream position, keyword, repeated calls, argument unchanged
    for it in range(ctx.budget(2, 8)):
        seed = rng.getrandbits(40)
        eng = G.engine_pad(random.Random(seed), G.gen_fgd(random.Random(seed), {'engine': True, 'n_ents': rng.randrange(2, 12), 'long_p': 0.0}))
        inp = {'seed': seed, 'engine': True}
        before = _snapshot(eng)
        outs = {}
        try:
            for pos in (0, 5):
                b = io.BytesIO()
                b.write(b'J' * pos)
                with contextlib.redirect_stdout(io.StringIO()), warnings.catch_warnings():
                    warnings.simplefilter('ignore')
                    if pos:
                        edb.serialise(fgd=eng, file=b)
                    else:
                        edb.serialise(eng, b)
                if b.getvalue()[:pos] != b'J' * pos:
                    bad('serialise', f'serialise overwrote data before the stream position (seed {seed})', inp)
                b.seek(pos)
                db = edb.unserialise(b) if pos == 0 else edb.unserialise(file=b)
                outs[pos] = json.dumps({k: G.canon_ent(e) for k, e in db.get_fgd().entities.items()}, sort_keys=True)
                b.seek(pos)
                again = edb.unserialise(b)
                if json.dumps({k: G.canon_ent(e) for k, e in again.get_fgd().entities.items()}, sort_keys=True) != outs[pos]:
                    bad('serialise', f'unserialise of the same stream twice differs (seed {seed})', inp)
            ctx.count('argform:serialise-forms', 2)
            if outs[0] != outs[5]:
                bad('serialise', f'serialise/unserialise at stream position 5 differs from position 0: {G.first_diff(json.loads(outs[0]), json.loads(outs[5]))} (seed {seed})', inp)
            if _snapshot(eng) != before:
                bad('serialise-mutates', f'serialise() changed the FGD it was given: {G.first_diff(json.loads(before), json.loads(_snapshot(eng)))} (seed {seed})', inp)
        except Exception as e:
            bad('serialise', f'an accepted form of serialise/unserialise raised {G.exc_str(e)} (seed {seed})', inp)
    # ---- engine_def: any letter case, keyword
    want = _STATE.get('want')
    names = sorted(want) if want else []
    for nm in rng.sample(names, min(len(names), ctx.budget(12, 80))):
        for form in (nm.upper(), nm.title(), ''.join(c.upper() if i % 2 else c for i, c in enumerate(nm))):
            ctx.count('argform:engine_def-case')
            try:
                e = EntityDef.engine_def(form) if rng.random() < 0.5 else EntityDef.engine_def(classname=form)
                d = G.first_diff(want[nm], G.canon_ent(e, deep_bases=True), nm)
            except Exception as ex:
                d = 'raised ' + G.exc_str(ex)
            if d:
                bad('engine_def-case', f'EntityDef.engine_def({form!r}) differs from the definition of {nm!r}: {d}', {'name': form})


HELPER_RAW = {
    'size': [['-8 -8 -8', '8 8 8'], ['16 16 16'], ['-8.0 -8 -8', '8 8 8']], 'bbox': [['-4 -4 0', '4 4 16']],
    'color': [['255 128 0'], ['255  128 0'], ['1.0 1 1']], 'sphere': [[], ['radius'], ['radius', '255 0 0']],
    'line': [['255 255 255', 'targetname', 'target'], ['255 255 255', 'a', 'b', 'c', 'd']],
    'frustum': [[], ['fov', 'near', 'far', 'color', '-1']], 'cylinder': [['255 255 255', 'a', 'b', 'r', 'c', 'd', 'r2']],
    'origin': [[], ['origin'], ['pt']], 'vecline': [['pt']], 'sidelist': [[], ['sides']], 'wirebox': [['mins', 'maxs']],
    'obb': [['mins', 'maxs']], 'iconsprite': [[], ['editor/x.vmt'], ['"editor/x.vmt"']], 'studio': [[], ['models/x.mdl']],
    'studioprop': [[], ['m.mdl']], 'lightprop': [['m.mdl']], 'lightcone': [[], ['a', 'b', 'c', '1.0']], 'keyframe': [[], ['x']],
    'appliesto': [['HL2', 'EP1'], ['hl2']], 'orderby': [['b', 'a']],
}


def search_helpers(ctx):
    """The typed helpers of _fgd_helpers.py re-normalise raw arguments (Vec formatting, defaults); the entity model
    keeps a helper as (name, exported arguments). What the model needs is that EXPORTED arguments are a fixed point:
    parse(h.export()).export() == h.export(), and that the exported arguments survive the generic split/strip."""
    from srctools.fgd import HelperTypes, HELPER_IMPL
    for ht in HelperTypes:
        if ht.value in ('base', 'autovis'):
            continue
        for raw in HELPER_RAW.get(ht.value, [[]]):
            try:
                out = HELPER_IMPL[ht].parse(list(raw)).export()
            except (ValueError, TypeError):
                ctx.count('helper:rejects-raw')
                continue
            ctx.count('helper:normalises' if out != list(raw) else 'helper:identity')
            ctx.case({'helper': ht.value, 'raw': raw}, nontrivial=True, sample_every=13)
            try:
                again = HELPER_IMPL[ht].parse(list(out)).export()
            except Exception as e:
                again = G.exc_str(e)
            text = ', '.join(out)
            split = [a.strip() for a in text.split(',')]
            if split == ['']:
                split = []
            if again != out or split != out:
                ctx.witness('helper-args', f'helper {ht.value}: exported arguments {out} are not a fixed point of parse/export (again {again}, split {split})',
                            {'kind': 'helper', 'type': ht.value, 'raw': raw})


def search(ctx):
    limit_memory()
    t0 = time.time()
    if ctx.evaluations == 0:      # driver missing: the long-string oracle still runs on the implementation
        for s in boundary_strings() + random_long(ctx.rng, 200):
            for ext in (True, False):
                out = impl_long(s, ext, '\t')
                check_long_property(ctx, s, ext, out, impl_read_colon(out + '\n', True) if out is not None else {})
    # neighbours of disagreeing long strings
    for d in ctx.disagreements[:10]:
        c = d['case']
        if c.get('kind') == 'longstring':
            s = uncodes(c['s'])
            for t in (s, s[1:], s[:-1], s + 'x', 'x' + s):
                for ext in (True, False):
                    out = impl_long(t, ext, '\t')
                    check_long_property(ctx, t, ext, out, impl_read_colon(out + '\n', True) if out is not None else {})
    if G.HANGS[0] >= 3:
        # the writer does not terminate (witnesses recorded): the remaining round trips would only be slow
        ctx.notes.append('writer hangs: generated / shipped / history searches skipped')
        shrink(ctx)
        return
    guard(ctx, 'generated FGDs', search_generated, ctx)
    guard(ctx, 'shipped database', search_shipped, ctx)
    guard(ctx, 'histories with in-place edits', search_histories, ctx)
    guard(ctx, 'typed helpers', search_helpers, ctx)
    guard(ctx, 'argument forms', search_argforms, ctx)
    shrink(ctx)
    ctx.notes.append(f'search wall {time.time() - t0:.1f}s')


def shrink(ctx):
    """Shrink the first long-string witness (drop characters while it still fails)."""
    for w in ctx.witnesses:
        if w['input'].get('kind') == 'longstring':
            s = uncodes(w['input']['s']); ext = w['input']['ext']
            def fails(chars):
                t = ''.join(chars)
                out = impl_long(t, ext, '\t')
                return out is None or impl_read_colon(out + '\n', True).get('strings') != [codes(t if ext else plain_readback(t))]
            if fails(list(s)):
                # shrink the runs, not single characters: compress to (char, count) units first
                small = ''.join(ddmin(list(s), fails, budget=120))
                w['input']['shrunk_len'] = len(small)
                w['what'] += f' (still fails at length {len(small)})'
            break


# ----------------------------------------------------------------------------------------- replay

def replay(ctx, payload):
    inp = payload.get('input') or {}
    kind = inp.get('kind')
    n0 = len(ctx.witnesses)
    if kind == 'longstring':
        s = uncodes(inp['s']); ext = inp['ext']
        out = impl_long(s, ext, '\t')
        rd = impl_read_colon(out + '\n', True) if out is not None else {}
        check_long_property(ctx, s, ext, out, rd)
        if out is not None:
            print('string of length', len(s), 'extended', ext, 'written as', out.count('" +\n') + 1, 'pieces; reader:', str(rd)[:200])
    elif kind == 'gen-text':
        fgd = G.gen_fgd(random.Random(inp['seed']), inp['opts'])
        probs, info = G.text_roundtrip(fgd, inp['cs'], inp['ls'], field_equality=(inp['cs'] or not inp['opts'].get('tags')))
        print(info, probs)
        for k, w in probs:
            ctx.witness('text-' + k, w, inp)
    elif kind == 'shipped-text':
        from srctools.fgd import FGD
        probs, info = G.text_roundtrip(FGD.engine_dbase(), inp['cs'], inp['ls'])
        print(info, probs)
        for k, w in probs:
            ctx.witness('text-' + k, w, inp)
    elif kind in ('shipped-bin', 'gen-bin'):
        from srctools.fgd import FGD
        fgd = FGD.engine_dbase() if kind == 'shipped-bin' else G.engine_pad(random.Random(inp['seed']), G.gen_fgd(random.Random(inp['seed']), {'engine': True, 'long_p': 0.0}))
        probs, _ = G.binary_roundtrip(fgd)
        print(probs)
        for k, w in probs:
            ctx.witness(k, w, inp)
    elif kind in ('lazy-shipped', 'engine_def', 'engine_classes') or (kind == 'lazy' and not isinstance(inp.get('layout'), list)):
        from srctools.fgd import FGD
        search_lazy_shipped(ctx, FGD.engine_dbase(), shipped_bytes())
    elif kind == 'record':
        d = record_roundtrip_ok(inp['ent'])
        print('record round trip difference:', d)
        if d:
            ctx.witness('record-roundtrip', d, inp)
    elif kind == 'lazy' and isinstance(inp.get('layout'), list):
        layout = [[tuple(e) for e in b] for b in inp['layout']]
        db = build_engine_db(layout); db0 = build_engine_db(layout)
        for q in inp['qs']:
            try: db.get_ent(q)
            except KeyError: pass
        with contextlib.redirect_stdout(io.StringIO()):
            db0.get_fgd()
        for q in inp['qs']:
            e = db.ent_map.get(q.casefold())
            if e is not None and not isinstance(e, int):
                d = G.first_diff(G.canon_ent(db0.ent_map[q.casefold()], deep_bases=True), G.canon_ent(e, deep_bases=True))
                print(q, d)
                if d:
                    ctx.witness('lazy-differs', d, inp)
    elif kind == 'history':
        search_histories_want = None
        from srctools import _engine_db as edb
        pristine = edb.unserialise(io.BytesIO(shipped_bytes())).get_fgd()
        want = {k: G.canon_ent(e, deep_bases=True) for k, e in pristine.entities.items()}
        probs = run_history(inp['ops'], want, stop_at_first=False)
        for o in inp['ops']:
            print('  ', o)
        for p_ in probs:
            print('  ->', p_)
        for p_ in probs:
            ctx.witness('history', p_, inp)
    elif kind == 'argform':
        ctx.tier = 'quick'
        if _STATE.get('want') is None:
            search_histories_seed = None
            from srctools import _engine_db as edb
            pristine = edb.unserialise(io.BytesIO(shipped_bytes())).get_fgd()
            _STATE['want'] = {k: G.canon_ent(e, deep_bases=True) for k, e in pristine.entities.items()}
        if 'seed' in inp:
            ctx.rng = random.Random(0)
            orig = ctx.rng.getrandbits
            ctx.rng.getrandbits = lambda n, _s=[inp['seed']]: _s[0]
        search_argforms(ctx)
    elif kind == 'helper':
        search_helpers(ctx)
    elif kind == 'edge-text':
        probs = edge_roundtrip(uncodes(inp['t']), inp['cs'])
        print(probs)
        for k, w in probs:
            ctx.witness('text-' + k, w, inp)
    elif kind == 'part':
        ctx.tier = 'quick'
        guard(ctx, 'generated FGDs', search_generated, ctx)
        guard(ctx, 'shipped database', search_shipped, ctx)
    else:
        print('replay file names a broken obligation/correspondence, no input to replay:', payload.get('broken_obligations'), str(payload.get('disagreements', [])[:1])[:500])
        return False
    return len(ctx.witnesses) == n0


def replay_known(ctx, finding):
    w = finding.get('witness') or {}
    if w.get('kind') == 'kv-spawnflags-desc':
        from srctools.fgd import FGD, EntityDef, EntityTypes, KVDef, ValueTypes
        fgd = FGD()
        e = EntityDef(EntityTypes.POINT, 'ent')
        e.keyvalues['spawnflags'] = {frozenset(): KVDef('spawnflags', ValueTypes.SPAWNFLAGS, 'spawnflags', '', w['desc'], [(1, 'a', True, frozenset())])}
        e.kv_order = ['spawnflags']
        fgd.entities['ent'] = e
        probs, _ = G.text_roundtrip(fgd, True, True)
        return bool(probs)
    return None
