"""Shim: srctools.fgd imports the third-party back-port; re-export the stdlib one."""
from importlib.resources import *  # noqa
from importlib.resources import files, as_file  # noqa
