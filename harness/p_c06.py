"""C06 — VMF export/parse round trip is a fixed point and loses no map content."""
import copy, json, os, pathlib, random, re, time
import common
import c06_gen as G
import c06_hist as H

PID = 'C06'
GENS = ['vmfKeys']
DRIVERS = ['drv_c06']
PROPS = 'Srctools.Props.C06'
RULE = ("maps are built through the public API by harness/c06_gen.py (entities with arbitrary keys/values over the "
        "17-symbol alphabet of C02 plus id/replace look-alikes, outputs with both separators and instance: forms, "
        "fixups with explicit and lowest-free indexes, hidden objects, brush entities, prisms and free faces, "
        "displacements of power 1-4 with random vertex data and multiblend, nested visgroups, groups, cameras, cordons, "
        "Strata viewports/point data, repeated and hash-colliding ids; BOUNDARY SHAPES: every per-vertex array and allowed_verts also all-zero / "
        "all-default / all-equal / single non-zero element first-last-middle, powers at both ends, scalars equal to the reader's defaults), plus every .vmf under /repo/tests; each map is "
        "checked under options (minimal, disp_multiblend) x preserve_ids; the parser is additionally fed key-dropped variants of exported trees "
        "(one node of a uniformly chosen kind removed, or every node removed with probability 3-30%). ARGUMENTS ARE VALUES: the Keyvalues tree is dumped before and after every VMF.parse, one tree object is parsed three times "
        "(preserve_ids T,F,T / F,T,F) and compared with parses of fresh trees, of a str path and of a pathlib.Path; the live map is dumped after every export and "
        "compared with afterExport; export to a str and into a file object (dest_file / positional), inc_version both ways, must agree. "
        "HISTORIES (harness/c06_hist.py): one live map is "
        "exported again and again with in-place edits through the public API in between (Solid/Side.translate, localise, Side.scale/offset setters, "
        "side.uaxis.<attr> = ..., plane/camera/cordon/displacement Vec +=, key/fixup/output edits, vertex edits, visgroup and hidden toggles, map settings, str()); "
        "after EVERY export the oracle compares the re-parsed text with a fresh dump of the live object, and the correspondence compares the text/tree with "
        "exportText/exportTree of that dump and the dump after the export with afterExport. A case = (map seed, profile, options[, variant | operation list]); "
        "non-trivial = the map has at least one entity or brush besides the bare worldspawn; distinct by the dump of the map.")
TRUSTED = ["models: C06.exportTree / parseTree / project (Model/C06.lean, KV-tree level) and C06.exportText (Model/C06Text.lean: the "
           "f-string writers of every class as a layout tree - indentation, unquoted block headers, which fields pass through "
           "escape_text and in which mode), the latter compared CHARACTER FOR CHARACTER with VMF.export(); the tokenizer and "
           "Keyvalues.parse models are those of C02/C03/C01 (their correspondence is run by those checks)",
           "numbers reach the model as canonical numeric strings produced by the implementation's own formatters "
           "(format_float, %g, str); their closeness to the original value is checked on the implementation only (search oracle)"]
NOT_MODELLED = [
    "float parsing: numbers are carried as tokens; that the implementation's formatter/parser pair is the identity on them and within "
    "5e-7 / six significant digits of the original value is checked on the implementation only (search oracle), formally it belongs to C05",
    "int() / float() corner forms (surrounding whitespace, '_' separators, non-ASCII digits) and str.casefold() outside ASCII",
    "node id (nodeid keyvalue) reallocation by the node_id manager: treated as an ordinary keyvalue",
    "the 5 x int64 form of allowed_verts (Strata Source)",
    "Python set iteration order (id sets are compared as sets; the exporter now writes them sorted)",
    "_tokenizer.pyx / _math.pyx (Cython twins, cannot be built here)",
]
ASSUMPTIONS = [
    "entity keys, output names and fixup variables are over characters on which str.casefold() is ASCII lower-casing; names contain no CR/LF "
    "(Keyvalues.parse rejects newlines in keys); keys are not 'id' and do not start with 'replace' (both are part of the format)",
    "fixup variables contain no blank and do not start with '$'",
    "output fields do not contain the separator in use (ESC, or ',' outside the parameter field when comma_sep) nor ';' in instance names; "
    "names without instance part do not start with 'instance:'",
    "coordinates in (-5e-7, 0) are not generated: format_float renders them '-0' (C05's finding, open: known finding negative-zero), which re-exports as '0'",
    "worldspawn is not hidden; format version is 100; Strata viewport lists have exactly four entries and no 2D coordinate equals +-65536",
]


# ------------------------------------------------------------------ intended projection (oracle)

def _sort_ent(e, world):
    e['keys'] = sorted(e['keys'], key=lambda kv: kv[0])
    e['fixup'] = sorted(e['fixup'], key=lambda f: f[2])
    e['groups'] = sorted(e['groups'])
    e['vis_ids'] = sorted(e['vis_ids'])
    for s in e['solids']:
        s['vis_ids'] = sorted(s['vis_ids'])
    for o in e['outputs']:
        if o['inst_out'] == []:
            o['inst_out'] = None
        if o['inst_in'] == []:
            o['inst_in'] = None


def _set_key(keys, k, v):
    kf = ''.join(map(chr, k)).casefold()
    for kv in keys:
        if ''.join(map(chr, kv[0])).casefold() == kf:
            kv[1] = v
            return
    keys.append([k, v])


def project(d, minimal, multiblend, inc_version):
    """What a re-parsed map is REQUIRED to look like, given the original's dump: everything is kept
    except what the options are documented to drop, worldspawn's visibility/logical-position fields
    (never written for worldspawn by design), group/visgroup membership of brushes inside brush
    entities (documented as not allowed there), and orderings that carry no meaning (keys are
    written sorted, fixups by index, id sets)."""
    d = copy.deepcopy(d)
    if inc_version:
        d['map_ver'] += 1
    if minimal:
        d.update(snap=True, grid=True, logic=False, spacing=64, grid3d=False, inst_vis=None, views=None,
                 active_cam=-1, cams=[], cordon_on=False, cordons=[])
    else:
        if not d['cams']:
            d['active_cam'] = -1
        if not d['cordons']:
            d['cordon_on'] = False
    if d['quickhide'] <= 0:
        d['quickhide'] = 0
    sp = d['spawn']
    _set_key(sp['keys'], G.codes('mapversion'), G.codes(str(d['map_ver'])))
    _set_key(sp['keys'], G.codes('classname'), G.codes('worldspawn'))
    sp.update(groups=[], vis_ids=[], vis_shown=True, vis_auto=True, logical_pos=G.codes(f'[0 {sp["id"]}]'))
    for e in [sp] + d['ents']:
        _sort_ent(e, e is sp)
        for s in e['solids']:
            if e is not sp:
                s['group'] = None
                s['vis_ids'] = []
            for side in s['sides']:
                dp = side['disp']
                if dp is not None:
                    # triangle tags exist per quad: the last row and column of vertexes carry none
                    size = 2 ** dp['power'] + 1
                    for i, v in enumerate(dp['verts']):
                        if i % size == size - 1 or i // size == size - 1:
                            v['tri_a'] = v['tri_b'] = 9
                    has = any(any(x[1] != 0 for x in v['blend']) if isinstance(v['blend'][0][0], str) else
                              any(x not in (G.codes('0'), G.codes('-0')) for x in v['blend']) for v in dp['verts'])
                    if not (multiblend and has):
                        zero = ['g', 0.0] if isinstance(dp['verts'][0]['blend'][0][0], str) else G.codes('0')
                        for v in dp['verts']:
                            v['blend'] = [zero] * 4
                            v['malpha'] = [zero] * 4
                            v['colors'] = None
                    else:
                        one = ['c', 1.0] if isinstance(dp['verts'][0]['blend'][0][0], str) else G.codes('1')
                        for v in dp['verts']:
                            if v['colors'] is None:
                                v['colors'] = [[one, one, one]] * 4
    # visible entities are read before hidden ones? No: file order is content.
    return d


def normalise(d):
    """Order-insensitive parts of a re-parsed dump."""
    d = copy.deepcopy(d)
    for e in [d['spawn']] + d['ents']:
        _sort_ent(e, False)
    return d


# ------------------------------------------------------------------------------- the oracle

def _ids_unique(d):
    """ids positive and unique per kind (then preserve_ids=False must not renumber anything)."""
    kinds = {'ent': [], 'solid': [], 'face': [], 'vis': [], 'group': [], 'node': []}

    def vis(v):
        kinds['vis'].append(v['id'])
        for c in v['children']:
            vis(c)
    for v in d['vis']:
        vis(v)
    for g in d['groups']:
        kinds['group'].append(g['id'])
    for e in [d['spawn']] + d['ents']:
        kinds['ent'].append(e['id'])
        for k, v in e['keys']:
            if ''.join(map(chr, k)).casefold() == 'nodeid':
                try:
                    kinds['node'].append(int(''.join(map(chr, v))))
                except ValueError:
                    pass
        for s in e['solids']:
            kinds['solid'].append(s['id'])
            for side in s['sides']:
                kinds['face'].append(side['id'])
    return all(len(set(v)) == len(v) and all(i > 0 for i in v) for v in kinds.values())


_IDX = re.compile(r'\[\d+\]')


def after_export(d, minimal, inc_version):
    """What `export` is allowed to change on the live object (= the model's `afterExport`): the version
    counter, worldspawn's classname / mapversion keys, active_cam without cameras. Everything else stays."""
    d = copy.deepcopy(d)
    if inc_version:
        d['map_ver'] += 1
    if not minimal and not d['cams']:
        d['active_cam'] = -1
    keys = d['spawn']['keys']
    _set_key(keys, G.codes('mapversion'), G.codes('0'))
    _set_key(keys, G.codes('classname'), G.codes('worldspawn'))
    d['spawn']['keys'] = [kv for kv in keys if ''.join(map(chr, kv[0])).casefold() != 'mapversion']
    return d


def _nomv(d):
    """without worldspawn's `mapversion` key (export removes it from the object; the references were dumped after an export)"""
    d = copy.deepcopy(d)
    d['spawn']['keys'] = [kv for kv in d['spawn']['keys'] if ''.join(map(chr, kv[0])).casefold() != 'mapversion']
    return d


def check_args(ctx, fail, t1, m2, d2m, d3n, opts, mode):
    """The arguments of the public API are VALUES: VMF.parse must not change the Keyvalues tree it is
    given (the same tree object parsed again, with either preserve_ids, gives what a fresh tree gives),
    every accepted argument form (tree / str path / pathlib.Path; export to a str / into a file object,
    inc_version both ways) must agree. d2m / d3n = dumps of parses of FRESH trees (preserve True / False)."""
    import io, os, tempfile, pathlib
    from srctools.vmf import VMF
    from srctools.keyvalues import Keyvalues
    ctx.count('argument checks')
    kv = Keyvalues.parse(t1)
    snap = G.kv_tree(kv)
    order = [False, True, False] if mode % 2 else [True, False, True]
    for i, preserve in enumerate(order):
        try:
            m = VMF.parse(kv, preserve_ids=preserve)
        except Exception as e:
            fail('parse-same-tree-raises', f'VMF.parse #{i + 1} (preserve_ids order {order}) of one and the same Keyvalues tree raised '
                 f'{type(e).__name__}: {str(e)[:200]}')
            return
        after = G.kv_tree(kv)
        if after != snap:
            fail('parse-mutates-argument', f'VMF.parse(tree, preserve_ids={preserve}) changed the Keyvalues tree it was given: {_tree_diff(snap, after)}')
            return
        df = G.diff(_nomv(d2m if preserve else d3n), _nomv(normalise(G.dump_map(m, raw=False))))
        if df:
            fail('parse-same-tree-differs', f'VMF.parse #{i + 1} of one and the same Keyvalues tree (preserve_ids order {order}) differs from the parse of a fresh tree at {df}')
            return
    # path forms (VMF.parse opens the file itself, cp1251, universal newlines)
    if '\r' not in t1 and ctx.hist.get('argument checks', 0) % 3 == 1:
        try:
            raw = t1.encode('cp1251')
        except UnicodeEncodeError:
            raw = None
        if raw is not None:
            fd, name = tempfile.mkstemp(suffix='.vmf', prefix='c06_')
            try:
                with os.fdopen(fd, 'wb') as f:
                    f.write(raw)
                ctx.count('argument checks: path forms')
                for arg, preserve, ref in ((name, True, d2m), (pathlib.Path(name), False, d3n)):
                    try:
                        m = VMF.parse(arg, preserve_ids=preserve)
                    except Exception as e:
                        fail('parse-path-raises', f'VMF.parse({type(arg).__name__} path) raised {type(e).__name__}: {str(e)[:200]}')
                        break
                    df = G.diff(_nomv(ref), _nomv(normalise(G.dump_map(m, raw=False))))
                    if df:
                        fail('parse-path-differs', f'VMF.parse({type(arg).__name__} path, preserve_ids={preserve}) differs from the parse of the tree at {df}')
                        break
            finally:
                os.unlink(name)
    # export forms, on the re-parsed map: str result vs file object, inc_version both ways
    try:
        a = m2.export(inc_version=True, **opts)
        buf = io.StringIO()
        r = m2.export(buf, inc_version=False, **opts)
        if r is not None or buf.getvalue() != a or buf.closed:
            fail('export-forms-differ', 'export(file, inc_version=False) after export(inc_version=True): the text written to the file object '
                 'differs from the returned str (or a value was returned / the file was closed)')
        buf = io.StringIO()
        m2.export(dest_file=buf, inc_version=True, **opts)
        b = m2.export(inc_version=False, **opts)
        if buf.getvalue() != b:
            fail('export-forms-differ', 'export(inc_version=False) after export(dest_file=file, inc_version=True): the returned str differs '
                 'from the text written to the file object')
    except Exception as e:
        fail('export-forms-raise', f'export to a file object / with inc_version raised {type(e).__name__}: {str(e)[:200]}')


def check_map(ctx, vmf, minimal, multiblend, inc_version, case, report=True, args=None):
    """The property itself on one map. Returns list of (key, what)."""
    from srctools.vmf import VMF
    from srctools.keyvalues import Keyvalues
    fails = []

    def fail(key, what):
        fails.append((key, what))
    opts = dict(minimal=minimal, disp_multiblend=multiblend)
    d0 = G.dump_map(vmf, raw=True)
    want = project(d0, minimal, multiblend, inc_version)
    try:
        t1 = vmf.export(inc_version=inc_version, **opts)
    except Exception as e:
        fail('export-raises', f'VMF.export raised {type(e).__name__}: {e}')
        return fails, None
    d_after = G.dump_map(vmf, raw=True)
    if d_after != after_export(d0, minimal, inc_version):
        df = G.diff(after_export(d0, minimal, inc_version), d_after) or 'order of keys / lists'
        fail('export-mutates-map', f'VMF.export changed the live map beyond map_ver / worldspawn classname+mapversion / active_cam: {df}')
    try:
        kv = Keyvalues.parse(t1)
    except Exception as e:
        fail('export-unparseable', f'the exported text is not parseable as keyvalues: {type(e).__name__}: {str(e)[:200]}')
        return fails, t1
    try:
        m2 = VMF.parse(kv, preserve_ids=True)
    except Exception as e:
        fail('reparse-raises', f'VMF.parse of the exported map raised {type(e).__name__}: {str(e)[:200]}')
        return fails, t1
    d2 = normalise(G.dump_map(m2, raw=True))
    df = G.diff(want, d2)
    if df:
        path = _IDX.sub('[]', df.split(':')[0])
        fail('field' + path, f'map content changed by export->parse at {df}')
    try:
        t2 = m2.export(inc_version=False, **opts)
    except Exception as e:
        fail('reexport-raises', f'export of the re-parsed map raised {type(e).__name__}: {e}')
        return fails, t1
    if t2 != t1:
        l1, l2 = t1.split('\n'), t2.split('\n')
        i = next((i for i, (a, b) in enumerate(zip(l1, l2)) if a != b), min(len(l1), len(l2)))
        fail('text-not-fixed-point', f'export(parse(export(m))) != export(m): first differing line {i + 1}: '
             f'{l1[i][:80] if i < len(l1) else "<eof>"!r} vs {l2[i][:80] if i < len(l2) else "<eof>"!r}')
    # preserve_ids=False: identical when ids are already unique, otherwise an injective renumbering
    try:
        m3 = VMF.parse(Keyvalues.parse(t1), preserve_ids=False)
        t3 = m3.export(inc_version=False, **opts)
        d3 = G.dump_map(m3, raw=False)
    except Exception as e:
        fail('reparse-renumber-raises', f'VMF.parse(preserve_ids=False) / export raised {type(e).__name__}: {str(e)[:200]}')
        return fails, t1
    d2m = normalise(G.dump_map(m2, raw=False))
    d3n = normalise(d3)
    if not _ids_unique(d3n):
        fail('renumber-not-injective', 'preserve_ids=False left repeated or non-positive ids')
    if _ids_unique(d2m):
        # nothing needs renumbering: only entity ids may move (the placeholder worldspawn made by
        # VMF() occupies entity id 1 while the file's entities are read); all references stay valid
        df = G.diff(_strip_ids(d2m, only_ent=True), _strip_ids(d3n, only_ent=True))
        if df:
            if G.diff(_strip_ids(d2m, only_ent=True, node=True), _strip_ids(d3n, only_ent=True, node=True)) is None:
                fail('renumber-nodeid', f'preserve_ids=False re-allocated node ids that were already unique (references from '
                     f'info_node_link are not updated) at {df}')
            else:
                fail('renumber-changes-unique-ids', f'preserve_ids=False changed a map whose ids were already unique at {df}')
    else:
        df = G.diff(_strip_ids(d2m), _strip_ids(d3n))
        if df:
            fail('renumber-changes-content', f'preserve_ids=False changed non-id content at {df}')
    if args is not None and not fails:
        check_args(ctx, fail, t1, m2, d2m, d3n, opts, args)
    return fails, t1


def _ids_unique_per_kind_after(d):
    # node ids are strings in keys; the other kinds are ints
    return _ids_unique(d)


def _strip_ids(d, only_ent=False, node=False):
    d = copy.deepcopy(d)
    if only_ent:
        for e in [d['spawn']] + d['ents']:
            e['id'] = 0
            e['logical_pos'] = []
            if node:
                e['keys'] = [kv for kv in e['keys'] if ''.join(map(chr, kv[0])).casefold() != 'nodeid']
        return d

    def vis(v):
        v['id'] = 0
        for c in v['children']:
            vis(c)
    for v in d['vis']:
        vis(v)
    for g in d['groups']:
        g['id'] = 0
    for e in [d['spawn']] + d['ents']:
        e['id'] = 0
        e['logical_pos'] = []
        e['groups'] = len(e['groups'])
        e['vis_ids'] = len(e['vis_ids'])
        e['keys'] = [kv for kv in e['keys'] if ''.join(map(chr, kv[0])).casefold() != 'nodeid']
        for s in e['solids']:
            s['id'] = 0
            s['group'] = s['group'] is not None
            s['vis_ids'] = len(s['vis_ids'])
            for side in s['sides']:
                side['id'] = 0
    return d


# ------------------------------------------------------------------------------- cases

OPTS = [(False, True), (False, False), (True, True), (True, False)]


def profiles(ctx):
    P = G.Profile
    return [
        ('default', P()),
        ('plain', P(p_weird_names=0.0, p_disp=0.0, p_strata=0.0, p_colliding_ids=0.0, p_int_floats=0.0, p_zero_view=0.0)),
        ('disp', P(p_disp=0.9, n_ents=(0, 2), n_brushes=(1, 2), p_weird_names=0.1)),
        ('ents', P(n_ents=(2, 8), n_keys=(1, 8), n_outputs=(1, 5), n_fixups=(1, 6), p_disp=0.05, n_brushes=(0, 1))),
        ('editor', P(n_vis=(1, 4), n_groups=(1, 4), n_cams=(1, 3), n_cordons=(1, 3), p_strata=0.9, p_disp=0.05, n_ents=(0, 3))),
        ('shapes', P(p_shapes=1.0, p_disp=0.9, n_ents=(0, 2), n_brushes=(1, 2), n_ent_solids=(0, 1), n_keys=(0, 2), n_outputs=(0, 1),
                     p_weird_names=0.1, max_power=4)),
    ]


def test_files():
    root = common.REPO / 'tests'
    return sorted(root.rglob('*.vmf'))


def cases(ctx, n):
    """Yield (case descriptor, builder) pairs; builder() -> a fresh VMF."""
    from srctools.vmf import VMF
    from srctools.keyvalues import Keyvalues
    for f in test_files():
        def build(f=f):
            with open(f, encoding='cp1251') as fh:
                return VMF.parse(Keyvalues.parse(fh), preserve_ids=True)
        yield {'file': str(f.relative_to(common.REPO))}, build
    profs = profiles(ctx)
    for i in range(n):
        name, prof = profs[i % len(profs)]
        seed = f'{ctx.pid}:{ctx.seed}:{name}:{i}'
        def build(seed=seed, prof=prof):
            return G.gen_map(random.Random(seed), prof)
        yield {'gen': seed, 'profile': name}, build


def build_case(case):
    from srctools.vmf import VMF
    from srctools.keyvalues import Keyvalues
    if 'file' in case:
        with open(common.REPO / case['file'], encoding='cp1251') as fh:
            return VMF.parse(Keyvalues.parse(fh), preserve_ids=True)
    profs = dict(profiles(None))
    profs['hist'] = H.hist_profile()
    if 'profile_kw' in case:
        prof = G.Profile(**case['profile_kw'])
    else:
        prof = profs[case['profile']]
    return G.gen_map(random.Random(case['gen']), prof)


def run_oracle(ctx, case, build):
    """All option combinations on one map; each on a fresh copy (export mutates the map)."""
    out = []
    ctx._c06_n = getattr(ctx, '_c06_n', 0) + 1
    for oi, (minimal, multiblend) in enumerate(OPTS):
        inc = ctx.rng.random() < 0.25
        vmf = build()
        # the argument-form checks on one option set per map (mode = parse order / path forms)
        args = ctx._c06_n % 6 if oi == ctx._c06_n % 4 else None
        fails, _ = check_map(ctx, vmf, minimal, multiblend, inc, case, args=args)
        for key, what in fails:
            c = dict(case, minimal=minimal, disp_multiblend=multiblend, inc_version=inc)
            if args is not None:
                c['args'] = args
            ctx.witness(key, what + f' [{json.dumps(c)}]', c)
            out.append(key)
        ctx.count(f'opts minimal={int(minimal)} multiblend={int(multiblend)}')
    return out


def canon_model(d):
    """Order-free view of id sets (a Python set on the implementation side, a list in the model)."""
    d = copy.deepcopy(d)
    for e in [d['spawn']] + d['ents']:
        e['groups'] = sorted(set(e['groups']))
        e['vis_ids'] = sorted(set(e['vis_ids']))
        for s in e['solids']:
            s['vis_ids'] = sorted(set(s['vis_ids']))
    return d


def _tree_diff(a, b, path='root'):
    """First differing node of two KV trees."""
    if len(a) != len(b):
        names = lambda t: [''.join(map(chr, n[1])) for n in t]
        return f'{path}: {len(a)} children {names(a)[:12]} vs {len(b)} children {names(b)[:12]}'
    for i, (x, y) in enumerate(zip(a, b)):
        nm = ''.join(map(chr, x[1]))
        if x[0] != y[0] or x[1] != y[1]:
            return f'{path}[{i}]: node {x[0]}:{nm!r} vs {y[0]}:{"".join(map(chr, y[1]))!r}'
        if x[0] == 0:
            if x[2] != y[2]:
                return f'{path}/{nm}: value {"".join(map(chr, x[2]))[:80]!r} vs {"".join(map(chr, y[2]))[:80]!r}'
        else:
            d = _tree_diff(x[2], y[2], f'{path}/{nm}[{i}]')
            if d:
                return d
    return None


def kv_from_tree(tree):
    """A Keyvalues root built directly from a KV tree (no text involved)."""
    from srctools.keyvalues import Keyvalues

    def node(n):
        name = ''.join(map(chr, n[1]))
        if n[0] == 0:
            return Keyvalues(name, ''.join(map(chr, n[2])))
        return Keyvalues(name, [node(c) for c in n[2]])
    return Keyvalues.root(*[node(n) for n in tree])


def drop_variant(rng, tree, p):
    """The tree with nodes removed at random (each node with probability p, recursively): documents
    in which optional keys are absent, as in files not written by this library."""
    out = []
    for n in tree:
        if rng.random() < p:
            continue
        if n[0] == 1:
            out.append([1, n[1], drop_variant(rng, n[2], p)])
        else:
            out.append(n)
    return out


def drop_one(rng, tree):
    """Remove exactly one node; the node is chosen by first picking a *kind* of node uniformly (the
    path of names from the root, digits removed: world/solid/side/lightmapscale, …) so that rare
    keys are dropped as often as the thousands of displacement rows."""
    kinds = {}

    def walk(t, path, sig):
        for i, n in enumerate(t):
            nm = re.sub(r'[0-9]+', '#', ''.join(map(chr, n[1])).casefold())
            sg = sig + (nm,)
            kinds.setdefault(sg, []).append(path + [i])
            if n[0] == 1:
                walk(n[2], path + [i], sg)
    walk(tree, [], ())
    if not kinds:
        return tree
    target = rng.choice(kinds[rng.choice(sorted(kinds))])
    t = copy.deepcopy(tree)
    cur = t
    for i in target[:-1]:
        cur = cur[i][2]
    del cur[target[-1]]
    return t


def hist_opts(i):
    return OPTS[i % 4]


def run_history(ctx, case, ops):
    """Build the map of `case`, check it, then apply the operations one by one and check the SAME live
    object after every one. Returns (step, [(key, what)]) of the first failing check, or None."""
    vmf = build_case(case)
    for step in range(len(ops) + 1):
        if step > 0:
            H.apply_op(vmf, ops[step - 1])
        minimal, multiblend = hist_opts(step)
        fails, _ = check_map(ctx, vmf, minimal, multiblend, step % 3 == 1, case, args=(step % 6 if step == len(ops) else None))
        if fails:
            return step, fails
    return None


def search_histories(ctx, n, n_ops):
    for i in range(n):
        seed = f'{ctx.pid}:{ctx.seed}:hist:{i}'
        case = {'gen': seed, 'profile': 'hist'}
        ops = H.gen_ops(random.Random(seed + ':ops'), n_ops)
        ctx.case(dict(case, ops=len(ops)), nontrivial=True, sample_every=53)
        ctx.count('histories')
        ctx.count('history operations', len(ops))
        for op in ops:
            ctx.count('history op ' + op[0])
        try:
            res = run_history(ctx, case, ops)
        except Exception as e:
            ctx.witness('history-raises', f'history raised {type(e).__name__}: {str(e)[:200]} [{json.dumps(case)}]', dict(case, ops=ops))
            continue
        if res is None:
            continue
        step, fails = res
        key0 = fails[0][0]

        def still(sub):
            try:
                r = run_history(ctx, case, sub)
            except Exception:
                return False
            return r is not None and any(k == key0 for k, _ in r[1])
        small = [] if still([]) else (common.ddmin(ops[:step], still, budget=60) if step > 1 else ops[:step])
        if not still(small):
            small = ops[:step]
        for key, what in fails[:2]:
            c = dict(case, ops=small)
            pre = f'after the in-place edits {json.dumps(small)} on a map that had been exported before: ' if small else 'first export of a history map: '
            ctx.witness('history:' + key, pre + what, c)


def correspond_histories(ctx, drv, n, n_ops):
    """Model vs implementation along histories: after every edit the text and tree exported by the
    live object must be the model's function of the live object's current value."""
    from srctools.keyvalues import Keyvalues
    reqs, meta = [], []
    for i in range(n):
        seed = f'{ctx.pid}:{ctx.seed}:chist:{i}'
        case = {'gen': seed, 'profile': 'hist'}
        ops = H.gen_ops(random.Random(seed + ':ops'), n_ops)
        try:
            vmf = build_case(case)
            for step in range(len(ops) + 1):
                if step > 0:
                    H.apply_op(vmf, ops[step - 1])
                minimal, multiblend = hist_opts(step)
                d = G.dump_map(vmf)
                inc = step % 3 == 1
                t = vmf.export(inc_version=inc, minimal=minimal, disp_multiblend=multiblend)
                tree = G.kv_tree(Keyvalues.parse(t))
                opts = {'minimal': minimal, 'multiblend': multiblend, 'inc': inc}
                reqs += [{'op': 'text', 'opts': opts, 'map': d}, {'op': 'export', 'opts': opts, 'map': d},
                         {'op': 'after', 'opts': opts, 'map': d}]
                meta.append((dict(case, ops=ops[:step], minimal=minimal, disp_multiblend=multiblend), t, tree, G.dump_map(vmf)))
        except Exception:
            ctx.count('correspond: history stopped by an exception (left to the search)')
            continue
    if not reqs:
        return
    it = iter(drv.batch(reqs))
    for c, t, tree, d_after in meta:
        r_txt, r_exp, r_aft = next(it), next(it), next(it)
        if len(c['ops']) % 3 == 1:
            ctx.count('correspond: history exports that change the live value (map_ver)')
        if 'map' not in r_aft or canon_model(r_aft['map']) != canon_model(d_after):
            df = G.diff(canon_model(d_after), canon_model(r_aft['map'])) if 'map' in r_aft else str(r_aft)
            ctx.disagree(c, 'live object after export', df or 'maps differ',
                         'history: value of the live map after export vs afterExport (impl vs model)')
        ctx.case(c, nontrivial=True, sample_every=97)
        ctx.count('correspond: history exports')
        ctx.traces_vs_impl += 1
        mt = ''.join(map(chr, r_txt.get('text', []))) if 'text' in r_txt else None
        if mt != t:
            i = next((i for i, (a, b) in enumerate(zip(mt or '', t)) if a != b), 0)
            ctx.disagree(c, t[max(0, i - 40):i + 40], (mt or str(r_txt))[max(0, i - 40):i + 40],
                         'history: text exported by the live map vs exportText of its current value (impl vs model)')
        elif 'tree' in r_exp:
            d = _tree_diff(tree, r_exp['tree'])
            if d:
                ctx.disagree(c, 'impl tree', d, 'history: exported tree vs exportTree of the current value (impl vs model)')


def correspond_dropped(ctx, drv, base):
    """Feed the PARSER documents where keys are absent and compare with the model (defaults as
    coded). `base` = list of (case, exported tree)."""
    from srctools.vmf import VMF
    rng = random.Random(f'{ctx.pid}:{ctx.seed}:drop')
    reqs, meta = [], []
    per = ctx.budget(8, 24)
    for case, tree in base:
        for j in range(per):
            if j % 2 == 0:
                var = drop_one(rng, tree)
                kind = 'one'
            else:
                var = drop_variant(rng, tree, rng.choice([0.03, 0.1, 0.3]))
                kind = 'many'
            preserve = (j % 4) < 2
            try:
                got = ('ok', G.dump_map(VMF.parse(kv_from_tree(var), preserve_ids=preserve)))
            except Exception as e:
                got = ('err', f'{type(e).__name__}: {str(e)[:100]}')
            reqs.append({'op': 'parse', 'preserve': preserve, 'tree': var})
            meta.append((dict(case, dropped=kind, variant=j, preserve=preserve), got, var))
    if not reqs:
        return
    for (c, got, var), r in zip(meta, drv.batch(reqs)):
        ctx.case(c, nontrivial=True, sample_every=211)
        ctx.count('correspond: key-dropped documents')
        ctx.count('correspond: key-dropped -> ' + ('parse error' if got[0] == 'err' else 'parsed'))
        ctx.traces_vs_impl += 1
        if got[0] == 'err' or 'ok' not in r:
            if not (got[0] == 'err' and 'err' in r):
                ctx.disagree(c, got[1] if got[0] == 'err' else 'ok', r.get('err', r.get('error', 'ok')),
                             'parseTree on a key-dropped document: error behaviour (impl vs model)')
            continue
        a, b = canon_model(got[1]), canon_model(r['ok'])
        if not c['preserve']:
            for dd in (a, b):
                for e in [dd['spawn']] + dd['ents']:
                    e['keys'] = [kv if ''.join(map(chr, kv[0])).casefold() != 'nodeid' else [kv[0], []] for kv in e['keys']]
        df = G.diff(a, b)
        if df:
            ctx.disagree(c, 'impl map', df, 'parseTree on a key-dropped document: VMF.parse vs model (impl vs model)')


def correspond(ctx, drivers):
    from srctools.vmf import VMF
    from srctools.keyvalues import Keyvalues
    drv = drivers['drv_c06']
    n = ctx.budget(60, 500)
    t0 = time.time()
    reqs, meta = [], []
    for ci, (case, build) in enumerate(cases(ctx, n)):
        optsel = OPTS if ('file' in case or ci % 5 == 0) else [OPTS[ci % 4], OPTS[(ci // 4 + 1) % 4]]
        for minimal, multiblend in dict.fromkeys(optsel):
            inc = (ci % 3 == 0)
            c = dict(case, minimal=minimal, disp_multiblend=multiblend, inc_version=inc)
            try:
                vmf = build()
                d0 = G.dump_map(vmf)
                t1 = vmf.export(inc_version=inc, minimal=minimal, disp_multiblend=multiblend)
                tree = G.kv_tree(Keyvalues.parse(t1))
            except Exception as e:
                # not a correspondence matter: the search oracle reports unexportable / unparseable maps
                ctx.count('correspond: export or keyvalues parse raised')
                continue
            # both parses take ONE Keyvalues object (alternating order): for the model the tree is a value, so a
            # parse that consumes / edits its argument shows as a disagreement of the later parse (and of the snapshot)
            res = {}
            kv_obj = Keyvalues.parse(t1)
            for preserve in ((True, False) if ci % 2 else (False, True)):
                try:
                    res[preserve] = ('ok', G.dump_map(VMF.parse(kv_obj, preserve_ids=preserve)))
                except Exception as e:
                    res[preserve] = ('err', f'{type(e).__name__}: {str(e)[:120]}')
                snap = G.kv_tree(kv_obj)
                if snap != tree:
                    ctx.disagree(c, _tree_diff(tree, snap), 'unchanged (parseTree is a function of the tree value)',
                                 f'the Keyvalues tree after VMF.parse(tree, preserve_ids={preserve}) vs before (impl vs model)')
                    break
            for preserve in (True, False):
                res.setdefault(preserve, ('err', 'not run'))
            opts = {'minimal': minimal, 'multiblend': multiblend, 'inc': inc}
            reqs += [{'op': 'text', 'opts': opts, 'map': d0},
                     {'op': 'export', 'opts': opts, 'map': d0},
                     {'op': 'parse', 'preserve': True, 'tree': tree},
                     {'op': 'parse', 'preserve': False, 'tree': tree},
                     {'op': 'project', 'opts': opts, 'map': d0},
                     {'op': 'roundtrip', 'opts': opts, 'map': d0}]
            meta.append((c, tree, res, t1))
            ctx.case(c, nontrivial=bool(d0['ents'] or d0['spawn']['solids']), sample_every=41)
            ctx.count('correspond: maps')
            ctx.count('correspond: tree nodes', t1.count('\n'))
        if time.time() - t0 > ctx.budget(32, 300):
            ctx.notes.append('correspondence stopped by time budget')
            break
    replies = drv.batch(reqs)
    it = iter(replies)
    correspond_dropped(ctx, drv, [(c, tree) for c, tree, _, _ in meta[:ctx.budget(60, 200)] if not c['minimal']])
    correspond_histories(ctx, drv, ctx.budget(16, 80), ctx.budget(6, 10))
    for c, tree, res, t1 in meta:
        r_txt, r_exp, r_pt, r_pf, r_proj, r_rt = next(it), next(it), next(it), next(it), next(it), next(it)
        ctx.traces_vs_impl += 1
        # the text itself, character for character
        mt = ''.join(map(chr, r_txt.get('text', []))) if 'text' in r_txt else None
        if mt != t1:
            if mt is None:
                where = str(r_txt)[:200]
            else:
                i = next((i for i, (a, b) in enumerate(zip(mt, t1)) if a != b), min(len(mt), len(t1)))
                where = f'char {i}: impl {t1[max(0, i - 30):i + 30]!r} vs model {mt[max(0, i - 30):i + 30]!r}'
            ctx.disagree(c, 'impl text', where, 'exportText: VMF.export() text vs model text (impl vs model)')
        ctx.count('correspond: text chars', len(t1))
        if 'tree' not in r_exp:
            ctx.disagree(c, 'tree', r_exp, 'driver error in export')
            continue
        d = _tree_diff(tree, r_exp['tree'])
        if d:
            ctx.disagree(c, 'impl tree', d, 'exportTree: Keyvalues.parse(VMF.export()) vs model tree (impl vs model)')
        for preserve, r in ((True, r_pt), (False, r_pf)):
            kind, val = res[preserve]
            if kind == 'err' or 'ok' not in r:
                if not (kind == 'err' and 'err' in r):
                    ctx.disagree(c, val if kind == 'err' else 'ok', r.get('err', r.get('error', 'ok')), f'parseTree preserve_ids={preserve}: error behaviour')
                continue
            a, b = canon_model(val), canon_model(r['ok'])
            if not preserve:
                # node ids (the `nodeid` keyvalue) are re-allocated by the node_id manager when they collide;
                # the model treats nodeid as an ordinary keyvalue (NOT_MODELLED), so its value is not compared here
                for dd in (a, b):
                    for e in [dd['spawn']] + dd['ents']:
                        e['keys'] = [kv if ''.join(map(chr, kv[0])).casefold() != 'nodeid' else [kv[0], []] for kv in e['keys']]
            df = G.diff(a, b)
            if df:
                ctx.disagree(c, 'impl map', df, f'parseTree preserve_ids={preserve}: VMF.parse vs model (impl vs model)')
        if 'ok' in r_rt and 'map' in r_proj:
            df = G.diff(r_proj['map'], r_rt['ok'])
            if df:
                ctx.disagree(c, 'project', df, 'model: parseTree true (exportTree o m) != project o m')
            if res[True][0] == 'ok':
                df = G.diff(canon_model(res[True][1]), canon_model(r_proj['map']))
                if df:
                    ctx.disagree(c, 'impl map', df, 'project o m vs VMF.parse(VMF.export(m)) (impl vs model)')
        else:
            ctx.disagree(c, 'ok', [r_rt.get('err'), r_proj.get('error')], 'model round trip fails')


def search(ctx):
    search_histories(ctx, ctx.budget(40, 300), ctx.budget(6, 10))
    t0 = time.time()
    n = ctx.budget(300, 2500)
    seen = {}
    for case, build in cases(ctx, n):
        try:
            vmf = build()
        except Exception as e:
            ctx.witness('build-raises', f'building the case raised {type(e).__name__}: {e} [{json.dumps(case)}]', case)
            continue
        d = G.dump_map(vmf)
        ctx.case(case, nontrivial=bool(d['ents'] or d['spawn']['solids']), sample_every=97)
        ctx.count('profile ' + case.get('profile', 'file'))
        ctx.count('entities', len(d['ents']))
        ctx.count('brushes', len(d['spawn']['solids']) + sum(len(e['solids']) for e in d['ents']))
        ctx.count('displacements', sum(1 for e in [d['spawn']] + d['ents'] for s in e['solids'] for sd in s['sides'] if sd['disp']))
        for e in [d['spawn']] + d['ents']:
            for sol in e['solids']:
                for sd in sol['sides']:
                    if sd['disp']:
                        ctx.count(f"displacement power {sd['disp']['power']}")
                        vs = sd['disp']['verts']
                        for arr in ('normal', 'dist', 'offset', 'offset_norm', 'alpha', 'tri_a', 'blend', 'malpha', 'colors'):
                            vals = [json.dumps(v[arr]) for v in vs]
                            def _zero(x):
                                if isinstance(x, list) and x and all(isinstance(c, int) for c in x):
                                    return float(''.join(map(chr, x))) == 0
                                if isinstance(x, list):
                                    return all(_zero(y) for y in x)
                                return x in (0, None)
                            zero = _zero(vs[0][arr])
                            if len(set(vals)) == 1:
                                ctx.count(f'displacement array {arr} constant ' + ('zero' if zero else 'non-zero'))
                            elif len(set(vals)) == 2 and min(vals.count(x) for x in set(vals)) == 1:
                                ctx.count(f'displacement array {arr} single distinct element')
        ctx.count('outputs', sum(len(e['outputs']) for e in d['ents']))
        del vmf
        for k in run_oracle(ctx, case, build):
            seen[k] = seen.get(k, 0) + 1
        if time.time() - t0 > ctx.budget(46, 600):
            ctx.notes.append('search stopped by time budget')
            break
    for k, v in sorted(seen.items()):
        ctx.count('witness ' + k, v)


def replay(ctx, payload):
    inp = payload.get('input') or {}
    if 'gen' not in inp and 'file' not in inp:
        print('replay file names a broken obligation/correspondence, no input to replay:',
              payload.get('broken_obligations'), payload.get('disagreements', [])[:1])
        return False
    if 'ops' in inp:
        res = run_history(ctx, inp, inp['ops'])
        if res is None:
            return True
        print('history fails at step', res[0], 'of', json.dumps(inp['ops']))
        for key, what in res[1]:
            print(key, ':', what)
        return False
    vmf = build_case(inp)
    fails, t1 = check_map(ctx, vmf, inp.get('minimal', False), inp.get('disp_multiblend', True), inp.get('inc_version', False), inp,
                          args=inp.get('args'))
    for key, what in fails:
        print(key, ':', what)
    return not fails


def replay_known(ctx, finding):
    """Does this open finding still reproduce? (witness = a case descriptor of this module)"""
    w = finding.get('witness')
    if isinstance(w, dict) and w.get('special') == 'newline-key':
        from srctools.vmf import VMF
        vmf = VMF()
        vmf.create_ent('info_target', **{''.join(map(chr, w['key'])): ''.join(map(chr, w['value']))})
        fails, _ = check_map(ctx, vmf, False, True, False, w)
        return any(k in ('export-unparseable', 'reparse-raises') or k.startswith('field') for k, _ in fails)
    if isinstance(w, dict) and w.get('special') == 'negative-zero':
        from srctools.vmf import VMF, Camera
        from srctools.math import Vec
        vmf = VMF()
        Camera(vmf, Vec(w['x'], 0, 0), Vec(0, 64, 0))
        fails, _ = check_map(ctx, vmf, False, True, False, w)
        return any(k == 'text-not-fixed-point' for k, _ in fails)
    if not isinstance(w, dict) or not ('gen' in w or 'file' in w):
        return None
    vmf = build_case(w)
    fails, _ = check_map(ctx, vmf, w.get('minimal', False), w.get('disp_multiblend', True), w.get('inc_version', False), w)
    return any(k == finding['key'] for k, _ in fails)


LEVEL_TEXT = ("Lean theorems about executable models of VMF.export (text and keyvalues tree) and VMF.parse (all classes, id managers, displacement and "
              "Strata data included): C06_text (VMF.parse(Keyvalues.parse(export text)) = project, via C06_text_tree: the exported text lexes and parses "
              "to exportTree, any chunking), C06_tree_roundtrip (parseTree true (exportTree o m) = ok (project o m)) and "
              "C06_fixed_point (the second export equals the first) are proved for every well-formed map "
              "(displacement arrays incl. multiblend and Strata point data are inside the round-trip theorem) and every option set, with per-structure theorems for entities, outputs, solids, "
              "faces, visgroups, groups, cameras, cordons and viewports; C06_keys_written_are_read / C06_reader_defaults re-check on every run that every key "
              "written by an export is read by the matching parse and that the readers' literal defaults are the modelled ones. The models are tied to the code by a "
              "character-for-character comparison of VMF.export() with exportText, a node-for-node comparison of Keyvalues.parse(VMF.export()) with exportTree, "
              "of VMF.parse with parseTree (both preserve_ids modes; also on key-dropped documents, which exercise the readers' defaults) and of "
              "project, on generated maps and every .vmf under tests/.")
LEVEL_NOTE = ("Trusted: Lean kernel + propext/Classical.choice/Quot.sound; tools/gen_vmfKeys.py; the harness (map generator, dump, driver protocol). "
              "Numeric closeness and the text level are established by differential testing and the "
              "direct round-trip oracle on the implementation, not by theorems; Cython twins are not covered.")
TECHNIQUE = "Lean 4 proof by structural induction over the map and its keyvalues tree + translator (written keys subset of read keys) + differential correspondence and round-trip search on generated maps"
DESIGN_REF = "DESIGN.md section 6, C06"
