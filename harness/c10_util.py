"""C10 helpers on the implementation side: canonical dump of every parsed view, observation of the
raw lump tables, dynamic reader/writer dependency tracing."""
import io, os, struct, contextlib, inspect, zipfile


def impl():
    import srctools.bsp as B
    return B


def view_names():
    B = impl()
    return [k for k, v in vars(B.BSP).items() if isinstance(v, B.ParsedLump)]


def lump_key_to_id(key, game_ids):
    """BSP_LUMPS member or game-lump id bytes -> model lump id."""
    if isinstance(key, bytes):
        return 64 + game_ids.index(key.decode('latin-1'))
    return key.value


@contextlib.contextmanager
def quiet():
    """BSP.save prints 'Compress: ...' lines."""
    with contextlib.redirect_stdout(io.StringIO()):
        yield


# ----------------------------------------------------------------------------- canonical dump

def fl(x):
    if isinstance(x, float):
        return repr(x)
    return x


def vec(v):
    return [repr(float(v.x)), repr(float(v.y)), repr(float(v.z))]


def _index_map(lst):
    return {id(o): i for i, o in enumerate(lst)}


class Dumper:
    """Value-level dump. References to elements of list views whose elements are one object per index
    (planes, texinfo, faces, orig_faces, brushes, visleafs, nodes) are dumped as that index; elements
    that can repeat or be sliced at several equal places (edges, primitives, vertexes) by value."""

    def __init__(self, bsp):
        self.b = bsp

    def ents(self):
        vmf = self.b.ents
        out = []
        for ent in [vmf.spawn] + list(vmf.entities):
            kv = sorted((k.casefold(), k, v) for k, v in ent.items())
            outs = [(o.output, o.target, o.input, o.params, repr(float(o.delay)), o.times, o.inst_out, o.inst_in)
                    for o in ent.outputs]
            out.append({'kv': [[k, v] for _, k, v in kv], 'out': [list(o) for o in outs]})
        return out

    def texinfo_val(self, t):
        if t is None:
            return None
        d = t._info
        return [vec(t.s_off), fl(t.s_shift), vec(t.t_off), fl(t.t_shift), vec(t.lightmap_s_off), fl(t.lightmap_s_shift),
                vec(t.lightmap_t_off), fl(t.lightmap_t_shift), t.flags.value, [d.mat, vec(d.reflectivity), d.width, d.height]]

    def ref(self, obj, view, what):
        if obj is None:
            return None
        m = self._maps.get(view)
        if m is None:
            m = self._maps[view] = _index_map(getattr(self.b, view))
        i = m.get(id(obj))
        return i if i is not None else f'<{what} not in bsp.{view}>'

    def edge(self, e):
        return [vec(e.a), vec(e.b)]

    def prim(self, p):
        return [p.is_tristrip, list(p.indexed_verts), [vec(x) for x in p.verts]]

    def face(self, f, orig_view='orig_faces'):
        return {
            'plane': self.ref(f.plane, 'planes', 'plane'), 'side': f.same_dir_as_plane, 'on_node': f.on_node,
            'edges': [self.edge(e) for e in f.edges], 'texinfo': self.ref(f.texinfo, 'texinfo', 'texinfo'),
            'disp': f._dispinfo_ind, 'fog': f.surf_fog_volume_id, 'styles': f.light_styles.hex(),
            'lm_off': f._lightmap_off, 'area': fl(f.area), 'lm_mins': list(f.lightmap_mins), 'lm_size': list(f.lightmap_size),
            'orig': self.ref(f.orig_face, 'orig_faces', 'face'), 'prims': [self.prim(p) for p in f.primitives],
            'dyn_shadows': f.dynamic_shadows, 'smooth': f.smoothing_groups, 'hammer_id': f.hammer_id,
            'vitamin_flags': f.vitamin_flags,
        }

    def child(self, c):
        B = impl()
        if isinstance(c, B.VisLeaf):
            return ['L', self.ref(c, 'visleafs', 'leaf')]
        return ['N', self.ref(c, 'nodes', 'node')]

    def dump_all(self):
        """Accesses every view (entities first: reading `bmodels` removes the `model` keys). A view whose parser
        raises is dumped as 'ERROR:<exception type>' (so are the views that need it)."""
        B = impl()
        b = self.b
        self._maps = {}
        d = {}

        def put(name, thunk):
            try:
                d[name] = thunk()
            except Exception as e:
                d[name] = f'ERROR:{type(e).__name__}'

        put('ents', self.ents)

        def pak():
            z = b.pakfile
            return [[i.filename, i.compress_type, list(i.date_time), z.read(i.filename).hex()] for i in z.infolist()]
        put('pakfile', pak)
        put('textures', lambda: list(b.textures))
        put('texinfo', lambda: [self.texinfo_val(t) for t in b.texinfo])
        put('cubemaps', lambda: [[vec(c.origin), c.size] for c in b.cubemaps])
        put('vertexes', lambda: [vec(v) for v in b.vertexes])
        put('planes', lambda: [[vec(p.normal), fl(p.dist), p.type.value] for p in b.planes])
        put('surfedges', lambda: [self.edge(e) for e in b.surfedges])
        put('primitives', lambda: [self.prim(p) for p in b.primitives])
        # faces readers set texinfo / hammer_id on the orig faces: dump those after both
        faces, hdr = {}, {}
        put('faces', lambda: [self.face(f) for f in b.faces])
        put('hdr_faces', lambda: [self.face(f) for f in b.hdr_faces])
        put('orig_faces', lambda: [self.face(f) for f in b.orig_faces])
        put('brushes', lambda: [[br.contents.value, [[self.ref(s.plane, 'planes', 'plane'), self.ref(s.texinfo, 'texinfo', 'texinfo'),
                                                       s._dispinfo, s.is_bevel_plane, s._unknown_bevel_bits] for s in br.sides]]
                                for br in b.brushes])
        put('visleafs', lambda: [[l.contents.value, l.cluster_id, l.area, l.flags.value, vec(l.mins), vec(l.maxes),
                                  [self.ref(f, 'faces', 'face') for f in l.faces], [self.ref(x, 'brushes', 'brush') for x in l.brushes],
                                  l.water_id, l._ambient.hex(), l.min_water_dist] for l in b.visleafs])
        put('water_leaf_info', lambda: [[fl(w.surface_z), fl(w.min_z), self.ref(w.surface_texinfo, 'texinfo', 'texinfo')]
                                        for w in b.water_leaf_info])
        put('nodes', lambda: [[self.ref(n.plane, 'planes', 'plane'), vec(n.mins), vec(n.maxes),
                               [self.ref(f, 'faces', 'face') for f in n.faces], n.area_ind, self.child(n.child_neg), self.child(n.child_pos)]
                              for n in b.nodes])

        def vis():
            v = b.visibility
            return None if v is None else [[bytes(r).hex() for r in v.potentially_visible], [bytes(r).hex() for r in v.potentially_audible]]
        put('visibility', vis)
        put('overlays', lambda: [[o.id, vec(o.origin), vec(o.normal), self.ref(o.texture, 'texinfo', 'texinfo'), o.face_count, list(o.faces),
                                  o.render_order, fl(o.u_min), fl(o.u_max), fl(o.v_min), fl(o.v_max), vec(o.uv1), vec(o.uv2), vec(o.uv3),
                                  vec(o.uv4), fl(o.fade_min_sq), fl(o.fade_max_sq), o.min_cpu, o.max_cpu, o.min_gpu, o.max_gpu]
                                 for o in b.overlays])

        def bmodels():
            vmf = b.ents
            ent_index = {id(e): i for i, e in enumerate([vmf.spawn] + list(vmf.entities))}
            bm = []
            for ent, m in b.bmodels.items():
                bm.append([ent_index.get(id(ent), '<entity not in bsp.ents>'), vec(m.mins), vec(m.maxes), vec(m.origin),
                           self.ref(m.node, 'nodes', 'node'), [self.ref(f, 'faces', 'face') for f in m.faces],
                           None if m.phys_keyvalues is None else m.phys_keyvalues.serialise(),
                           [s.hex() for s in m._phys_solids]])
            return sorted(bm, key=lambda r: str(r[0]))
        put('bmodels', bmodels)
        put('props', lambda: [[p.model, vec(p.origin), [fl(p.angles.pitch), fl(p.angles.yaw), fl(p.angles.roll)],
                               vec(p.scaling) if not isinstance(p.scaling, (int, float)) else fl(p.scaling),
                               sorted(str(self.ref(l, 'visleafs', 'leaf')) for l in p.visleafs), p.solidity, p.flags.value, p.skin,
                               fl(p.min_fade), fl(p.max_fade), vec(p.lighting), fl(p.fade_scale), p.min_dx_level, p.max_dx_level,
                               p.min_cpu_level, p.max_cpu_level, p.min_gpu_level, p.max_gpu_level, vec(p.tint), p.renderfx,
                               p.disable_on_xbox, p.lightmap_x, p.lightmap_y] for p in b.props])
        d['static_prop_version'] = b.static_prop_version.name

        def details():
            dp = []
            for p in b.detail_props:
                rec = [type(p).__name__, vec(p.origin), [fl(p.angles.pitch), fl(p.angles.yaw), fl(p.angles.roll)],
                       p.orientation.value, p.leaf, list(p.lighting), list(p._light_styles), p.sway_amount]
                if isinstance(p, B.DetailPropModel):
                    rec.append(p.model)
                if isinstance(p, B.DetailPropSprite):
                    rec += [fl(p.sprite_scale), [fl(x) for x in p.dims_upper_left], [fl(x) for x in p.dims_lower_right],
                            [fl(x) for x in p.texcoord_upper_left], [fl(x) for x in p.texcoord_lower_right]]
                if isinstance(p, B.DetailPropShape):
                    rec += [p.is_cross, p.shape_angle, p.shape_size]
                dp.append(rec)
            return dp
        put('detail_props', details)
        return d


def file_summary(path, version=None):
    """Everything the property speaks about, from a fresh read of the file: header fields, raw bytes
    of every lump / game lump (decompressed), then the canonical dump of all views."""
    B = impl()
    b = B.BSP(path) if version is None else B.BSP(path, version)
    hdr = {
        'version': b.version.value if isinstance(b.version, B.VERSIONS) else b.version,
        'game_ver': b.game_ver.value, 'revision': b.map_revision,
        'lump_versions': {l.type.value: l.version for l in b.lumps.values()},
        'lump_compressed': {l.type.value: bool(l.is_compressed) for l in b.lumps.values()},
        'game': [[g.id.decode('latin-1'), g.flags, g.version] for g in b.game_lumps.values()],
    }
    raw = {l.type.value: bytes(l.data) for l in b.lumps.values()}
    graw = {g.id: bytes(g.data) for g in b.game_lumps.values()}
    dump = Dumper(b).dump_all()
    return hdr, raw, graw, dump


# ----------------------------------------------------------------------------- observation

def observe(bsp, game_ids):
    """(sorted ids of lumps whose data is b'', sorted ids of the lumps in `_parsed_lumps`)."""
    empty = sorted([l.type.value for l in bsp.lumps.values() if l.data == b''] +
                   [64 + game_ids.index(g.id.decode('latin-1')) for g in bsp.game_lumps.values()
                    if g.data == b'' and g.id.decode('latin-1') in game_ids])
    parsed = sorted(lump_key_to_id(k, game_ids) for k in bsp._parsed_lumps)
    return empty, parsed


def raw_snapshot(bsp, game_ids):
    d = {l.type.value: bytes(l.data) for l in bsp.lumps.values()}
    for g in bsp.game_lumps.values():
        n = g.id.decode('latin-1')
        if n in game_ids:
            d[64 + game_ids.index(n)] = bytes(g.data)
    return d


# ----------------------------------------------------------------------------- dynamic dependencies

class Tracer:
    """Records which views are evaluated while which reader / writer runs, by wrapping
    ParsedLump.__get__ and the entries of BSP._save_funcs.  Edges: ('R'|'W', from_view, to_view)."""

    def __init__(self):
        self.edges = set()
        self.stack = []

    @contextlib.contextmanager
    def installed(self):
        B = impl()
        names = {v.lump: k for k, v in vars(B.BSP).items() if isinstance(v, B.ParsedLump)}
        orig_get = B.ParsedLump.__get__
        orig_funcs = dict(B.BSP._save_funcs)
        tr = self

        def get(desc, instance, owner=None):
            if instance is None:
                return orig_get(desc, instance, owner)
            name = names[desc.lump]
            if tr.stack:
                tr.edges.add((tr.stack[-1][0], tr.stack[-1][1], name))
            tr.stack.append(('R', name))
            try:
                return orig_get(desc, instance, owner)
            finally:
                tr.stack.pop()

        def wrap(lump, fn):
            def writer(bsp, data):
                tr.stack.append(('W', names[lump]))
                try:
                    res = fn(bsp, data)
                    if inspect.isgenerator(res):
                        res = b''.join(res)
                    return res
                finally:
                    tr.stack.pop()
            return writer

        B.ParsedLump.__get__ = get
        for lump, fn in orig_funcs.items():
            B.BSP._save_funcs[lump] = wrap(lump, fn)
        try:
            yield self
        finally:
            B.ParsedLump.__get__ = orig_get
            B.BSP._save_funcs.clear()
            B.BSP._save_funcs.update(orig_funcs)


def dynamic_deps(path, out_path, names, tolerate=()):
    """Read every view of a fresh BSP and save it (to out_path) under the tracer.
    Returns (rd, wd): per view name the list of views its reader / writer evaluated on this file."""
    B = impl()
    tr = Tracer()
    with tr.installed(), quiet():
        b = B.BSP(path)
        for n in names:
            try:
                getattr(b, n)
            except Exception:
                if n not in tolerate:
                    raise
        b.save(out_path)
    rd = {n: [] for n in names}
    wd = {n: [] for n in names}
    for kind, a, c in sorted(tr.edges):
        (rd if kind == 'R' else wd)[a].append(c)
    return rd, wd
