"""C13 — VPK archives return exactly what was last written, across reopen."""
import json, zlib, struct
from common import ddmin
import c13_util as U

PID = 'C13'
GENS = ['vpk']
DRIVERS = ['drv_c13']
PROPS = 'Srctools.Props.C13'
RULE = ("[argument forms: half of the histories hand the same values over as pathlib.Path/os.PathLike, OpenModes, bytearray overwritten by the caller after the call, lists instead of tuples, positional/omitted optional arguments; the model sees the values] a case = (directory|single-file archive, history of <= 25 operations open(r/w/a, dir_data_limit)+__enter__/new_file/add_file/"
        "FileInfo.write/del/write_dirfile/__exit__(normal|exception)/contains/check, on real temp folders). Sizes from {0,1,15,16,17,1023,1024,1025,65535,"
        "65536,307207} plus random 0..2100, limits {None,0,16,1024}, archive indexes {None,0,1,7}, names from an ASCII+surrogateescape "
        "pool with empty folder/name/extension parts and parts of every boundary length 0,1,2,15..17,31..33,63..65,127..129,191..193,255..257,"
        "1023..1025 (each part alone x each spelling, and combined; payload sizes at the same boundaries) in the three spellings (and unnormalised folder spellings), CRC-32-colliding "
        "overwrites and non-empty payloads with CRC 0, rejected non-ASCII names. Systematic grids: every (single, limit, index, size) "
        "written, flushed, reopened r, reopened a, overwritten, reopened; every (single, limit, index, size in {12,17,1025,65548}) overwritten with "
        "same-length same-CRC-32 data (fixed colliding 12-byte pair embedded in equal buffers, and forged collisions) before and after a reopen. After every open and at random points the observation "
        "(sorted triples, filenames(), read() digest of every file, verify_all(), len, digests of every file on disk) is compared "
        "with the Lean model, which is fed the same history; every written directory file (<= 64 KiB sample) and damaged copies of "
        "it are decoded independently by the model and compared with what a fresh VPK() makes of them. non-trivial = the history "
        "creates or stores at least one file and reopens the archive; distinct by content.")
TRUSTED = ["model: lean/Srctools/Model/C13.lean (hand-written from vpk.py; FileInfo.write/read/verify, write_dirfile, load_dirfile, "
           "_get_file_parts with posixpath.split/normpath, new_file/add_file/__delitem__/__contains__), tied by the differential run "
           "and by the constants/format strings regenerated from vpk.py (Gen/Vpk.lean)",
           "CRC-32 is a parameter of the model; the theorems hold for every function; the driver uses its own table-driven CRC-32 "
           "(compared with zlib through every digest of the correspondence)"]
NOT_MODELLED = ["contents of the directory file after struct.error inside write_dirfile (needs an archive index >= 65536 or >= 4 GiB of data; excluded by C13_fits_of_size)",
                "relative_to/root argument of new_file/add_file, add_folder, extract_all (loops over add_file/read with os.walk, os.path.relpath, os.makedirs: covered by the direct test _folder_property, not by the Lean model); script_write",
                "data given as memoryview (write() accepts it, read() before a reopen raises TypeError; annotated type is bytes); mutating the archive while iterating it (RuntimeError as coded)",
                "several VPK objects / stale FileInfo objects alive at once (only the direct aliasing test: a stale FileInfo keeps reading, writing through it does not disturb the new handle); version-2 archives are read (header skipped) but never written",
                "os.path functions on non-POSIX platforms"]
ASSUMPTIONS = ["zlib.crc32 returns values below 2**32 (hypothesis hcrc of C13_fits_of_size / C13_refine_sized)",
               "zlib.crc32(b, zlib.crc32(a)) == zlib.crc32(a + b) (verify() continues the checksum over preload and archive part)",
               "files behave as byte arrays: 'ab' append returns the old length as offset, seek+read returns the slice (short at EOF)",
               "no other process touches the folder"]
LEVEL_TEXT = ("Lean theorems about the executable model of vpk.py, for an arbitrary checksum function: C13_dir (load_dirfile o write_dirfile gives back "
              "footer, version and a tree with the same entry under every key, for every tree with distinct keys, representable name parts and "
              "16/32-bit field ranges; C13_dir_string / C13_dir_entry are its building blocks), C13_read_write (read() after write() returns the "
              "data and verify() is true for all placements: preload, directory tail, numbered archive, single file, and the early return), "
              "C13_read_write_frame (a write leaves every other entry readable and unchanged), C13_refine / C13_refine_from (for EVERY finite "
              "history of open r/w/a, new_file, add_file, write, del, write_dirfile, contains on directory and single-file archives the "
              "per-operation results, the listing and every read() equal those of the specification name -> bytes, and verify_all is true - "
              "after every prefix, hence after every reopen), C13_names (string, 2-tuple and 3-tuple spellings give the same triple), "
              "C13_readonly (mode r: every mutator is an error and neither the handle nor the disk changes), C13_exit (__exit__ after an exception "
              "changes nothing, after a normal end of a writable with-block it is write_dirfile; exit is an operation of the refinement histories), C13_fits_of_size / C13_refine_sized "
              "(the no-struct.error hypothesis is derived from a decidable size budget of the history, so the refinement holds under static "
              "hypotheses only), C13_verify_all_iff (verify_all is false exactly when some readable file's checksum differs from the stored "
              "one), C13_dir_v2 (version-2 headers are read with the same tree), C13_gen_ok (constants, struct "
              "layouts and the shape of FileInfo.write extracted from the current source are the model's). Witness theorems show the excluded "
              "classes are necessary. The model is tied to the current source by a differential run on operation histories in real temp "
              "folders (results, listings, read digests, verify, digests of every file on disk), by histories continued on damaged "
              "directory files, and by an independent decode of produced directory files by the model.")
LEVEL_NOTE = ("Trusted: Lean kernel + propext/Classical.choice/Quot.sound; tools/gen_vpk.py; the harness; zlib/CPython/OS file semantics "
              "(assumptions listed in the evidence). C13_refine carries explicit decidable hypotheses: opOK (name parts contain no NUL and are "
              "not a single space; archive indexes differ from 0x7fff - open known findings) and runFits (no write_dirfile fails "
              "with struct.error); C13_refine_sized replaces runFits by idxSmall and histCost < 2^32 - 1 for a checksum with 32-bit values. "
              "add_folder / extract_all / root= are not in the Lean model (os.walk, relpath, host folder tree) and are covered by a direct "
              "round-trip test on the implementation in every run. Four genuine defects were found by the search and fixed in /repo (see known_findings.d/C13.json).")
TECHNIQUE = "Lean 4: simulation proof (invariant + refinement to a finite map) over arbitrary operation lists, parser/printer inverse by induction; differential correspondence on real temp folders; independent model decode of produced bytes"
DESIGN_REF = "DESIGN.md section 6, C13"


def _summary(case):
    out = []
    for o in case['ops']:
        if o[0] in ('new', 'del', 'has'):
            out.append([o[0], U.py_name(o[1])])
        elif o[0] in ('add', 'write'):
            d = o[2] if o[2][0] == 'g' else ['x', len(o[2][1]) // 2]
            out.append([o[0], U.py_name(o[1]), d, o[3]])
        elif o[0] == 'plant':
            out.append(['plant', len(o[1]) // 2])
        else:
            out.append(o)
    r = {'single': case['single'], 'ops': out}
    if case.get('forms'):
        r['forms'] = case['forms']
    return r


def grid_cases(rng):
    """every (single, limit, index, size): write, flush, reopen r, reopen a, overwrite + second file, flush, reopen r."""
    for single in (False, True):
        for limit in U.LIMITS:
            for idx in U.INDEXES:
                for size in U.SIZES:
                    f = U.spell(rng.choice('sptz'), *rng.choice([('a', 'n', 'e'), ('', 'n', ''), ('a/b', '', 'txt'), ('x y', 'file', '')]))
                    g = U.spell('t', 'a', 'g', 'e')
                    size2 = rng.choice([s for s in U.SIZES if s < 70000])
                    yield {'single': single, 'ops': [
                        ['open', 'w', limit], ['check'],
                        ['add', f, ['g', rng.randrange(1000), size], idx], ['check'], ['flush'],
                        ['open', 'r', limit], ['check'],
                        ['write', f, ['g', 1, 3], idx], ['del', f], ['new', g], ['flush'], ['check'],
                        ['open', 'a', rng.choice(U.LIMITS)], ['check'],
                        ['write', f, ['g', rng.randrange(1000), size2], rng.choice(U.INDEXES)],
                        ['add', g, ['g', 5, 17], idx], ['check'], ['flush'],
                        ['open', 'r', None], ['check']]}


COLL_A, COLL_B = b'70755edee7d9', b'2aafdca574b0'     # equal length, equal CRC-32


def collision_cases(rng):
    """same-length, same-CRC-32 overwrites in every placement (preload only, preload + numbered archive, numbered
    archive only, directory tail, single-file tail), before and after a reopen: a fixed colliding pair embedded at the
    same offset of equal buffers (CRC-32 is linear) and forged 4-byte-suffix collisions of generated payloads."""
    import zlib
    assert zlib.crc32(COLL_A) == zlib.crc32(COLL_B) and len(COLL_A) == len(COLL_B)
    for single in (False, True):
        for limit in U.LIMITS:
            for idx in U.INDEXES:
                for size in (12, 17, 1025, 65536 + 12):
                    f = U.spell(rng.choice('sptz'), *rng.choice([('a', 'n', 'e'), ('', 'n', ''), ('a/b', '', 'txt')]))
                    pad = U.gen_bytes(rng.randrange(1000), size - 12)
                    cut = rng.choice([0, len(pad) // 2, len(pad)]) if size <= 2000 else rng.choice([0, 65530, len(pad)])
                    a = pad[:cut] + COLL_A + pad[cut:]
                    b = pad[:cut] + COLL_B + pad[cut:]
                    c = U.collide(b)                      # forged: differs from b everywhere but has its CRC and length
                    assert len({len(a), len(b), len(c)}) == 1 and len({zlib.crc32(a), zlib.crc32(b), zlib.crc32(c)}) == 1
                    idx2 = rng.choice([idx, idx, rng.choice(U.INDEXES)])
                    yield {'single': single, 'ops': [
                        ['open', 'w', limit], ['add', f, ['x', a.hex()], idx], ['check'],
                        ['write', f, ['x', b.hex()], idx], ['check'], ['flush'],
                        ['open', 'r', limit], ['check'],
                        ['open', 'a', limit], ['write', f, ['x', c.hex()], idx2], ['check'],
                        ['write', f, ['x', c.hex()], idx], ['check'], ['flush'],
                        ['open', 'r', None], ['check']]}


SESSION_BODIES = ['nothing', 'new-only', 'empty-add-only', 'empty-write-empty-file', 'empty-write-full-file', 'new+empty-add',
                  'empty+nonempty-add', 'del-only', 'new-then-del', 'has-only']
SESSION_ENDS = [['exit', False], ['exit', True], ['flush'], None]


def session_cases(rng):
    """`with VPK(path, mode) as v: <body>` sessions that rely on __exit__ (normal / exception) or on write_dirfile or on
    nothing, for mode r/w/a on an existing and on a missing archive, bodies made only of new_file() / zero-length
    payloads / deletes / nothing, every placement parameter; then reopen read-only and observe."""
    for single in (False, True):
        for existing in (True, False):
            for mode in 'rwa':
                for body in SESSION_BODIES:
                    for end in SESSION_ENDS:
                        limit = rng.choice(U.LIMITS); idx = rng.choice(U.INDEXES)
                        sp = lambda t: U.spell(rng.choice('sptz'), *t)
                        f, z, g, h = ('materials', 'wall', 'vmt'), ('', 'zero', ''), ('cfg', 'empty', 'cfg'), ('scripts/x', '', 'txt')
                        ops = []
                        if existing:
                            ops += [['open', rng.choice('wa'), limit], ['add', sp(f), ['g', rng.randrange(1000), rng.choice([20, 2000])], idx],
                                    ['new', sp(z)], rng.choice([['flush'], ['exit', False]])]
                        ops += [['open', mode, rng.choice([limit, limit, rng.choice(U.LIMITS)])], ['check']]
                        e = ['g', 0, 0]
                        ops += {'nothing': [],
                                'new-only': [['new', sp(g)], ['new', sp(h)]],
                                'empty-add-only': [['add', sp(g), e, idx], ['add', sp(h), e, rng.choice(U.INDEXES)]],
                                'empty-write-empty-file': [['write', sp(z), e, idx]],
                                'empty-write-full-file': [['write', sp(f), e, idx]],
                                'new+empty-add': [['new', sp(g)], ['add', sp(h), e, idx]],
                                'empty+nonempty-add': [['add', sp(g), e, idx], ['add', sp(h), ['g', 3, rng.choice([1, 17, 1025])], idx]],
                                'del-only': [['del', sp(f)]],
                                'new-then-del': [['new', sp(g)], ['del', sp(g)]],
                                'has-only': [['has', sp(f)], ['has', sp(g)]]}[body]
                        ops += [['check']]
                        if end is not None:
                            ops += [end]
                        ops += [['open', 'r', rng.choice(U.LIMITS)], ['check'], ['has', sp(g)], ['has', sp(h)], ['has', sp(f)], ['has', sp(z)]]
                        yield {'single': single, 'ops': ops}


def region_cases(rng):
    """two or three files stored in the SAME region (directory tail, one numbered archive, preload only, single-file tail);
    the first / middle / last one is overwritten with a payload whose stored part is 0, 1, old-1, old, old+1 bytes long,
    in the same session or after reopening in 'a' mode; every file is observed before and after write_dirfile + reopen."""
    regions = [('dir tail', False, 0, None), ('dir tail', False, 16, None), ('numbered archive', False, 0, 1),
               ('numbered archive', False, 16, 1), ('preload only', False, 1024, 0), ('single-file tail', True, None, None)]
    tails = [11, 7, 13]
    for region, single, limit, idx in regions:
        pre = 65535 if single else (0 if region == 'preload only' else limit)
        for n in (2, 3):
            names = [U.spell('t', 'r', 'f%d' % i, 'dat') for i in range(n)]
            for pos in range(n):
                old = tails[pos]
                for new in (0, 1, old - 1, old, old + 1):
                    for reopen in (False, True):
                        ops = [['open', 'w', limit], ['check']]
                        for i in range(n):
                            ops.append(['add', names[i], ['g', rng.randrange(1000), pre + tails[i]], idx])
                        ops.append(['check'])
                        if reopen:
                            ops += [rng.choice([['flush'], ['exit', False]]), ['open', 'a', limit], ['check']]
                        size = new if region == 'preload only' else (pre + new if new else rng.choice([0, pre]))
                        ops += [['write', names[pos], ['g', rng.randrange(1000), size], idx], ['check'],
                                rng.choice([['flush'], ['exit', False]]), ['open', 'r', limit], ['check'],
                                ['open', 'a', limit], ['write', names[(pos + 1) % n], ['g', rng.randrange(1000), pre + rng.choice([1, old, 20])], idx],
                                ['check'], ['flush'], ['open', 'r', None], ['check']]
                        yield {'single': single, 'ops': ops}


LENGTHS = [0, 1, 2, 15, 16, 17, 31, 32, 33, 63, 64, 65, 127, 128, 129, 191, 192, 193, 255, 256, 257, 1023, 1024, 1025]


def _part(rng, kind, n):
    """a name part of exactly n characters (ASCII, no NUL, not ' ', no '.', normalised folder path)"""
    if n == 0:
        return ''
    alpha = 'abcdefghijklmnopqrstuvwxyzABCDEFGHIJKLMNOPQRSTUVWXYZ0123456789_-'
    chars = [rng.choice(alpha) for _ in range(n)]
    if kind == 'dir' and n > 2:
        # a folder path: components of random length separated by '/', never empty / '.' / '..' components
        i = rng.randrange(1, 40)
        while i < n - 1:
            chars[i] = '/'
            i += rng.randrange(2, 60)
    if rng.random() < 0.2:
        chars[rng.randrange(n)] = rng.choice(['\udc80', '\udcff', '~', '!'])
        if kind == 'dir' and n > 2:
            pass
    return ''.join(chars)


def name_length_cases(rng):
    """every boundary length for every name part (extension, folder path, file name) alone in each spelling, and
    combined; written, saved (write_dirfile or leaving the with block), reopened r and a, looked up in all spellings."""
    def hist(t, kd, single=False):
        nm = U.spell(kd, *t)
        other = U.spell('t', 'a', 'short', 'e')
        return {'single': single, 'ops': [
            ['open', 'w', rng.choice(U.LIMITS)], ['add', nm, ['g', rng.randrange(1000), rng.choice([0, 5, 40])], rng.choice(U.INDEXES)],
            ['add', other, ['g', 1, 9], None], ['check'], rng.choice([['flush'], ['exit', False]]),
            ['open', 'r', None], ['check'], ['has', nm],
            ['open', 'a', 16], ['write', nm, ['g', 7, 30], None], ['new', U.spell('t', t[0], 'sibling', t[2])], ['flush'],
            ['open', 'r', None], ['check']]}
    for n in LENGTHS:
        for kind in ('ext', 'dir', 'name'):
            d, f, e = 'a', 'n', 'e'
            if kind == 'ext':
                e = _part(rng, kind, n)
            elif kind == 'dir':
                d = _part(rng, kind, n)
            else:
                f = _part(rng, kind, n)
                if n == 0:
                    e = 'e'
            t = (d, f, e)
            if U.in_class(*t) and U.spellable(*t):
                for kd in 'spt':
                    yield hist(t, kd, single=rng.random() < 0.3)
    for _ in range(40):
        t = (_part(rng, 'dir', rng.choice(LENGTHS[9:21])), _part(rng, 'name', rng.choice(LENGTHS[9:21])), _part(rng, 'ext', rng.choice(LENGTHS[9:21])))
        if U.in_class(*t) and U.spellable(*t):
            yield hist(t, rng.choice('sptz'), single=rng.random() < 0.3)


def size_length_cases(rng):
    """payload sizes at the same boundaries, around each preload limit, in every placement"""
    for n in LENGTHS:
        for single, limit, idx in ((False, 16, None), (False, 0, 1), (False, None, 0), (True, 1024, None), (False, rng.choice([n, max(n - 1, 0), n + 1]), rng.choice(U.INDEXES))):
            f, g = U.spell('s', 'a', 'n', 'e'), U.spell('p', '', 'm', 'txt')
            yield {'single': single, 'ops': [
                ['open', 'w', limit], ['add', f, ['g', rng.randrange(1000), n], idx], ['add', g, ['g', rng.randrange(1000), n + 1], idx], ['check'],
                rng.choice([['flush'], ['exit', False]]), ['open', 'a', limit], ['check'],
                ['write', g, ['g', rng.randrange(1000), n], idx], ['write', f, ['g', rng.randrange(1000), max(n - 1, 0)], idx], ['check'], ['flush'],
                ['open', 'r', None], ['check']]}


def _nontrivial(case):
    stores = any(o[0] in ('add', 'write', 'new') for o in case['ops'])
    reopens = sum(1 for o in case['ops'] if o[0] == 'open') >= 2
    return stores and reopens


def fixed_witnesses():
    import common
    return [k for k in common.load_known(PID) if k.get('status') == 'fixed' and isinstance(k.get('witness'), dict)]


def _all_cases(ctx):
    rng = ctx.rng
    cases = [k['witness'] for k in fixed_witnesses()]
    ctx.count('corpus (fixed findings)', len(cases))
    cases += list(grid_cases(rng))
    sess = list(session_cases(rng))
    ctx.count('with-block sessions (mode x existing/missing x body x ending)', len(sess))
    cases += sess
    nml = list(name_length_cases(rng))
    ctx.count('name-part length boundary histories (ext/folder/name x 24 lengths x spelling)', len(nml))
    ctx.extra['_name_range'] = (len(cases), len(cases) + len(nml))
    cases += nml
    szl = list(size_length_cases(rng))
    ctx.count('payload size boundary histories', len(szl))
    cases += szl
    reg = list(region_cases(rng))
    ctx.count('same-region overwrite histories (first/middle/last x shorter/equal/longer x reopen)', len(reg))
    cases += reg
    coll = list(collision_cases(rng))
    ctx.count('same-length same-CRC overwrite histories (all placements)', len(coll))
    cases += coll
    # the directed histories also run under non-canonical argument forms (same denoted values)
    nfix = len(fixed_witnesses())
    for c in cases[nfix:]:
        if rng.random() < 0.4:
            c['forms'] = U.gen_forms(rng)
    n = ctx.budget(1000, 16000)
    cases += [U.gen_case(rng) for _ in range(n)]
    return cases


def _tally(ctx, case):
    ctx.count('archive kind: ' + ('single-file' if case['single'] else 'directory'))
    f = case.get('forms')
    if f:
        ctx.count('argument forms: path as ' + f['path'] + ', mode as ' + f['mode'])
        ctx.count('argument forms: data as ' + f['data'] + (' (mutated after the call)' if f['data'] == 'bytearray' else ''))
        ctx.count('argument forms: tuple names as ' + f['names'] + (', optional arguments positional' if f['pos'] else ''))
    else:
        ctx.count('argument forms: canonical (str path, str mode, bytes, tuples, keywords)')
    for o in case['ops']:
        ctx.count('op ' + o[0] + (' ' + o[1] if o[0] == 'open' else (' after an exception' if o[1] else ' normal') if o[0] == 'exit' else ''))
        if o[0] == 'open':
            ctx.count(f'limit {o[2]}')
        if o[0] in ('add', 'write'):
            n = len(U.data_of(o[2]))
            ctx.count('size ' + (str(n) if n in U.SIZES else 'length boundary (2..1025)' if (n in LENGTHS or n - 1 in LENGTHS or n + 1 in LENGTHS) else 'other'))
            ctx.count(f'index {o[3]}')
            if o[2][0] == 'x':
                ctx.count('payload with forged CRC')
        if o[0] in ('new', 'add', 'write', 'del', 'has'):
            ctx.count('spelling ' + {'s': 'str', 'p': '2-tuple', 't': '3-tuple'}[o[1][0]])


def _run_all(ctx, cases, capture):
    """implementation side of every case (one run each); stores failures of the property for search()."""
    place = {}
    res = []
    for c in cases:
        r = U.run_case(c, oracle=True, capture=capture, hist=place)
        res.append(r)
        _tally(ctx, c)
        for o in r['obs']:
            if isinstance(o, str) and o not in ('ok', 'yes', 'no'):
                ctx.count('result ' + o)
        for f in r['fails']:
            ctx.extra.setdefault('_fails', []).append((c, f))
    for k, v in place.items():
        ctx.count('placement seen at check: ' + k, v)
    return res


def correspond(ctx, drivers):
    drv = drivers['drv_c13']
    rng = ctx.rng
    cases = _all_cases(ctx)
    res = _run_all(ctx, cases, capture=2)
    ctx.extra['_ran'] = True
    replies = drv.batch([{'op': 'run', **c} for c in cases], timeout=1500)
    for c, r, m in zip(cases, res, replies):
        ctx.case(_summary(c), nontrivial=_nontrivial(c), sample_every=401)
        ctx.traces_vs_impl += 1
        if 'error' in m:
            ctx.disagree(_summary(c), None, m, 'driver error')
            continue
        if r['obs'] != m['obs']:
            n = next((i for i, (a, b) in enumerate(zip(r['obs'], m['obs'])) if a != b), min(len(r['obs']), len(m['obs'])))
            ctx.disagree(_summary({'single': c['single'], 'ops': c['ops'][:n + 1]}),
                         r['obs'][n] if n < len(r['obs']) else None, m['obs'][n] if n < len(m['obs']) else None,
                         f'operation {n} {c["ops"][n][0]}')
            ctx.extra.setdefault('_disagree_cases', []).append(c)
    # histories continued on a damaged directory file: the last written directory is replaced by a copy with
    # one change (as if written by another tool / corrupted), then reopened read-only and observed
    # (read() of short/misplaced data, verify_all() false, missing archives, decode errors)
    planted = []
    for c, r in zip(cases, res):
        if len(planted) >= ctx.budget(250, 2500):
            break
        if r['dirs'] and len(r['dirs'][-1]) < 3000 and c['ops'][-3][0] in ('flush', 'exit') and not r['fails']:
            for m in U.mutants(rng, r['dirs'][-1], 1):
                planted.append({'single': c['single'], **({'forms': c['forms']} if c.get('forms') else {}), 'ops': c['ops'][:-2] + [['plant', m.hex()], ['open', 'r', None], ['check'],
                                                                            ['open', 'a', 16], ['check'],
                                                                            ['add', U.spell('t', 'zz', 'new', 'e'), ['g', 3, 40], 1],
                                                                            ['flush'], ['check'], ['open', 'r', None], ['check']]})
    pres = [U.run_case(c, oracle=False) for c in planted]
    preps = drv.batch([{'op': 'run', **c} for c in planted], timeout=900)
    for c, r, m in zip(planted, pres, preps):
        ctx.case(_summary(c), nontrivial=True, sample_every=211)
        ctx.traces_vs_impl += 1
        ctx.count('history continued on a damaged directory file')
        pi = next(i for i, o in enumerate(c['ops']) if o[0] == 'plant')
        last = r['obs'][pi + 1]
        chk = r['obs'][pi + 2]
        fl = r['obs'][pi + 6]
        ctx.count('  damaged: reopened a, add, write_dirfile -> ' + str(fl))
        ctx.count('  damaged: reopen -> ' + (last if isinstance(last, str) else 'ok'))
        if isinstance(chk, dict) and chk.get('verify') not in (True, None):
            ctx.count(f"  damaged: verify_all -> {chk.get('verify')}")
        if isinstance(chk, dict) and any(isinstance(x, str) for x in chk.get('reads', [])):
            ctx.count("  damaged: a read() raised")
        if 'error' in m or r['obs'] != m.get('obs'):
            n = next((i for i, (a, b) in enumerate(zip(r['obs'], m.get('obs', []))) if a != b), -1)
            ctx.disagree(_summary({'single': c['single'], 'ops': c['ops'][max(0, n - 3):n + 1]}), r['obs'][n] if n >= 0 else None,
                         m.get('obs', m)[n] if n >= 0 and 'obs' in m else m, f'damaged directory, operation {n}')
    # independent decode of produced directory files + damaged copies
    dirs = []
    seen = set()
    lo, hi = ctx.extra.pop('_name_range', (0, 0))
    first = []
    for n, r in enumerate(res):
        for d in r['dirs']:
            if len(d) <= 65536 + 4096 and d not in seen:
                seen.add(d)
                (first if lo <= n < hi else dirs).append(d)
    rng.shuffle(dirs)
    ctx.count('decode: directory files with boundary-length names (all decoded)', len(first))
    dirs = first + dirs[:ctx.budget(400, 4000)]
    blobs = []
    for d in dirs:
        blobs.append(('produced', d))
        if len(d) < 3000:
            for m in U.mutants(rng, d, ctx.budget(2, 6)):
                blobs.append(('damaged', m))
    blobs += [('damaged', b''), ('damaged', b'\x34\x12\xaa\x55'), ('damaged', struct.pack('<III', 0x55aa1234, 1, 0)),
              ('damaged', struct.pack('<III', 0x55aa1234, 1, 1) + b'\0'), ('damaged', struct.pack('<III', 0x55aa1234, 3, 1) + b'\0'),
              ('damaged', struct.pack('<III', 0x55aa1234, 2, 1) + bytes(16) + b'\0tail')]
    reps = drv.batch([{'op': 'decode', 'hex': b.hex()} for _, b in blobs], timeout=900)
    for (kind, b), m in zip(blobs, reps):
        i = U.impl_decode(b)
        ctx.count('decode ' + kind + (' -> ' + i['err'] if 'err' in i else ' -> ok'))
        ctx.case({'decode': kind, 'len': len(b), 'crc': zlib.crc32(b)}, nontrivial=kind == 'produced' and len(b) > 13)
        ctx.traces_vs_impl += 1
        if i != m:
            ctx.disagree({'decode': kind, 'hex': b.hex() if len(b) < 600 else b[:600].hex() + '...'}, i, m, 'load_dirfile vs model decodeDir')
    # name resolution
    names = []
    for d in U.DIRS + [x for v in U.DIR_SPELL.values() for x in v] + ['//a', '///a', '/a/../..', 'a/../../b', '../a', 'a\\..\\b', 'a/b/..', ' ', 'a/ ']:
        for n in U.NAMES + ['.', '..', 'a.b.c', '.e', 'n.', 'a/b', ' ']:
            for e in U.EXTS + ['.e', 'a.b', ' ']:
                for k in 'sptz':
                    names.append(U.spell(k, d, n, e))
    rng.shuffle(names)
    names = names[:ctx.budget(1500, 20000)]
    reps = drv.batch([{'op': 'parts', 'name': n} for n in names])
    for n, m in zip(names, reps):
        i = [U.cps(x) for x in U.get_parts(n)]
        if [U.cps(x) for x in U.ref_parts(n)] != i:
            ctx.witness('names', f'_get_file_parts({U.py_name(n)!r}) = {U.get_parts(n)}, the reference says {U.ref_parts(n)}', {'parts_name': n})
        ctx.count('name resolution ' + {'s': 'str', 'p': '2-tuple', 't': '3-tuple'}[n[0]])
        ctx.case({'parts': U.py_name(n)}, nontrivial=True, sample_every=701)
        ctx.traces_vs_impl += 1
        if m.get('parts') != i:
            ctx.disagree({'parts': n}, i, m, '_get_file_parts')


# ------------------------------------------------------------------ direct search on the implementation

def _fails_of(case):
    try:
        return U.run_case(case)['fails']
    except Exception as e:      # the harness itself must not die on a shrunk history
        return [('error', f'harness: {type(e).__name__}: {e}', -1)]


def _shrink(case, key):
    def mk(ops, forms=True):
        c = {'single': case['single'], 'ops': ops}
        if forms and case.get('forms'):
            c['forms'] = case['forms']
        return c

    def fails(ops):
        return any(k == key for k, _, _ in _fails_of(mk(ops)))
    if not fails(case['ops']):
        return case
    small = ddmin(case['ops'], fails, budget=150)
    # does it also fail with the canonical argument forms?
    if case.get('forms') and any(k == key for k, _, _ in _fails_of(mk(small, False))):
        return mk(small, False)
    return mk(small)


def _names_property(ctx):
    """the three spellings of a triple resolve to the same triple and to the same FileInfo object"""
    from srctools.vpk import VPK, _get_file_parts
    import tempfile, shutil, os
    trips = [(d, n, e) for d in U.DIRS for n in U.NAMES for e in U.EXTS
             if not ('.' in n and not e) and U.in_class(d, n, e)]
    d0 = tempfile.mkdtemp(prefix='c13n_')
    try:
        v = VPK(os.path.join(d0, 'n_dir.vpk'), mode='w')
        for (d, n, e) in trips:
            ctx.count('names: triples checked in three spellings')
            sp = [U.py_name(U.spell(k, d, n, e)) for k in 'spt']
            got = [_get_file_parts(x) for x in sp]
            if not (got[0] == got[1] == got[2] == (d, n, e)):
                ctx.witness('names', f'spellings {sp} resolve to {got}, expected {(d, n, e)}', {'triple': [d, n, e]})
                continue
            v.add_file(sp[2], b'x' + n.encode('ascii', 'surrogateescape'))
            infos = [v[x] for x in sp]
            if not (infos[0] is infos[1] is infos[2]) or not all(x in v for x in sp):
                ctx.witness('names', f'spellings {sp} do not find the same file', {'triple': [d, n, e]})
    finally:
        shutil.rmtree(d0, ignore_errors=True)


def _readonly_property(ctx):
    """mode r: every mutator raises and nothing changes (listing, contents, bytes on disk)."""
    rng = ctx.rng
    for single in (False, True):
        for limit in U.LIMITS:
            f = U.spell('t', 'a', 'n', 'e'); g = U.spell('s', 'b', 'm', 'txt')
            case = {'single': single, 'ops': [
                ['open', 'w', limit], ['add', f, ['g', 3, 2000], 1], ['add', g, ['g', 4, 20], None], ['flush'],
                ['open', 'r', limit], ['check'],
                ['new', U.spell('t', 'q', 'q', 'q')], ['add', U.spell('t', 'q', 'q', 'q'), ['g', 1, 5000], 0],
                ['add', f, ['g', 1, 5000], 0], ['write', f, ['g', 9, 5000], 1], ['write', g, ['g', 9, 5], None],
                ['del', f], ['del', U.spell('t', 'q', 'q', 'q')], ['flush'], ['check']]}
            with U.ImplWorld(single) as w:
                outs = []
                for n, op in enumerate(case['ops']):
                    r = w.step(op)
                    outs.append(r)
                ctx.count('readonly: histories')
                first, last = outs[5], outs[-1]
                muts = outs[6:-1]
                if any(m == 'ok' for m in muts):
                    ctx.witness('readonly', f'a mutator succeeded on a read-only archive: {muts}', case)
                elif any(m != 'readonly' for m in muts):
                    ctx.witness('readonly', f'a mutator of a read-only archive did not raise the read-only error: {muts}', case)
                if first != last:
                    ctx.witness('readonly', 'state changed by rejected mutators on a read-only archive', case)


def _damage_property(ctx):
    """one changed stored byte (preload, directory tail, numbered archive, single-file tail) makes verify() of exactly
    that file and verify_all() false after reopening; restoring the byte makes them true again."""
    from srctools.vpk import VPK
    import os
    rng = ctx.rng
    for single in (False, True):
        for limit in (0, 16, 1024, None):
            for idx in (None, 1):
                with U.ImplWorld(single) as w:
                    v = VPK(w.path, mode='w', dir_data_limit=limit)
                    datas = {('a', 'n', 'e'): U.gen_bytes(rng.randrange(1000), 40), ('', 'big', 'bin'): U.gen_bytes(rng.randrange(1000), 3000),
                             ('b/c', 'huge', ''): U.gen_bytes(rng.randrange(1000), 66000)}
                    for t, d in datas.items():
                        v.add_file(t, d, arch_index=idx)
                    v.write_dirfile()
                    r = VPK(w.path, mode='r')
                    if not r.verify_all():
                        ctx.witness('verify', 'verify_all() false on an undamaged archive', {'single': single, 'limit': limit, 'idx': idx})
                        continue
                    dirsize = os.path.getsize(w.path)
                    for t in datas:
                        info = r[t]
                        spots = []
                        if info.start_data:
                            raw = open(w.path, 'rb').read()
                            if raw.count(info.start_data) == 1:
                                spots.append(('preload', w.path, raw.find(info.start_data) + rng.randrange(len(info.start_data))))
                        if info.arch_len:
                            k = rng.randrange(info.arch_len)
                            if info.arch_index is None:
                                spots.append(('single-file tail' if single else 'directory tail', w.path, dirsize - len(r.footer_data) + info.offset + k))
                            else:
                                spots.append(('numbered archive', os.path.join(w.dir, 'pak01_%03d.vpk' % info.arch_index), info.offset + k))
                        for where, path, pos in spots:
                            ctx.count('damage: one byte changed in ' + where)
                            with open(path, 'r+b') as fh:
                                fh.seek(pos); old = fh.read(1); fh.seek(pos); fh.write(bytes([old[0] ^ rng.choice([1, 0x55, 0x80, 0xff])]))
                            try:
                                d = VPK(w.path, mode='r')
                                bad = [x for x in datas if not d[x].verify()]
                                if d.verify_all() is not False or bad != [t]:
                                    ctx.witness('damage', f'byte {pos} of the {where} of {t} changed: verify_all() = {d.verify_all()}, files failing verify(): {bad}',
                                                {'single': single, 'limit': limit, 'idx': idx, 'where': where})
                            except Exception as e:
                                ctx.witness('damage', f'byte {pos} of the {where} of {t} changed: reopening raised {type(e).__name__}: {e}',
                                            {'single': single, 'limit': limit, 'idx': idx, 'where': where})
                            finally:
                                with open(path, 'r+b') as fh:
                                    fh.seek(pos); fh.write(old)
                    if not VPK(w.path, mode='r').verify_all():
                        ctx.witness('damage', 'verify_all() stays false after the byte was restored', {'single': single, 'limit': limit, 'idx': idx})


FOLDER_FILES = ['n.txt', 'file', 'a.b.c', 'x y.e', 'N.TXT', '.hidden', 'n']
FOLDER_DIRS = ['', 'sub', 'sub/deep', 'A', 'x y']


def _folder_property(ctx):
    """add_folder(folder, prefix) then write_dirfile, reopen, extract_all reproduces the folder byte for byte;
    add_file/new_file with root= store the path relative to root."""
    from srctools.vpk import VPK
    import os, tempfile, shutil
    rng = ctx.rng
    for trial in range(ctx.budget(6, 40)):
        single = rng.random() < 0.4
        prefix = rng.choice(['', 'pre', 'pre/fix'])
        base = tempfile.mkdtemp(prefix='c13f_')
        try:
            src, dest = os.path.join(base, 'src'), os.path.join(base, 'dest')
            os.makedirs(src)
            exp = {}
            for d in rng.sample(FOLDER_DIRS, rng.randrange(1, len(FOLDER_DIRS) + 1)):
                os.makedirs(os.path.join(src, d), exist_ok=True)
                for fn in rng.sample(FOLDER_FILES, rng.randrange(0, 4)):
                    data = U.gen_bytes(rng.randrange(1000), rng.choice([0, 5, 1024, 1025, 70000]))
                    with open(os.path.join(src, d, fn), 'wb') as fh:
                        fh.write(data)
                    exp['/'.join(x for x in (prefix, d, fn) if x)] = data
            path = os.path.join(base, 'p.vpk' if single else 'p_dir.vpk')
            case = {'folder_test': True, 'single': single, 'prefix': prefix, 'files': sorted(exp)}
            ctx.count('folder: add_folder + extract_all histories')
            v = VPK(path, mode='w', dir_data_limit=rng.choice(U.LIMITS))
            v.add_folder(src, prefix)
            v.write_dirfile()
            r = VPK(path, mode='r')
            got = sorted(r.filenames())
            if got != sorted(exp):
                ctx.witness('folder', f'add_folder(prefix={prefix!r}) lists {got}, the folder holds {sorted(exp)}', case)
                continue
            if any(r[k].read() != exp[k] for k in exp) or not r.verify_all():
                ctx.witness('folder', 'files added by add_folder do not read back / verify', case)
                continue
            r.extract_all(dest)
            out = {}
            for dp, _, fns in os.walk(dest):
                for fn in fns:
                    with open(os.path.join(dp, fn), 'rb') as fh:
                        out[os.path.relpath(os.path.join(dp, fn), dest).replace(os.sep, '/')] = fh.read()
            if out != exp:
                ctx.witness('folder', f'extract_all wrote {sorted(out)} (or different bytes), expected {sorted(exp)}', case)
            # root=
            ctx.count('folder: root= histories')
            v2 = VPK(os.path.join(base, 'q_dir.vpk'), mode='w')
            v2.add_file(os.path.join(src, 'sub', 'r.txt'), b'root-data', root=src)
            v2.add_file((os.path.join(src, 'sub', 'deep'), 's.txt'), b'root-data2', root=src)
            v2.new_file((src, 't', 'e'), root=src)
            want = ['sub/deep/s.txt', 'sub/r.txt', 't.e']
            if sorted(v2.filenames()) != want or v2['sub/r.txt'].read() != b'root-data' or ('sub/deep', 's', 'txt') not in v2:
                ctx.witness('folder', f'root=: files stored as {sorted(v2.filenames())}, expected {want}', {'root_test': True})
        finally:
            shutil.rmtree(base, ignore_errors=True)


def _with_property(ctx):
    """literal `with VPK(path, mode) as v:` blocks (normal end / exception inside), sessions that rely solely on
    __exit__: what was in the archive object at a normal end of a writable block is there after reopening — including
    files created only by new_file() or with zero-length payloads — in the listing, len, `in` and [] in all three
    spellings; after an exception or in mode r nothing is saved and the exception propagates."""
    from srctools.vpk import VPK
    import os
    rng = ctx.rng

    class Boom(Exception):
        pass

    bodies = {
        'new-only': lambda v, idx: [v.new_file(('scripts', 'placeholder', 'txt')), v.new_file('cfg/other')] and {('scripts', 'placeholder', 'txt'): b'', ('cfg', 'other', ''): b''},
        'empty-add-only': lambda v, idx: [v.add_file('cfg/empty.cfg', b'', arch_index=idx)] and {('cfg', 'empty', 'cfg'): b''},
        'empty-write-on-new': lambda v, idx: [v.new_file(('cfg', 'w.cfg')).write(b'', idx)] and {('cfg', 'w', 'cfg'): b''},
        'new+empty-add': lambda v, idx: [v.add_file('cfg/empty.cfg', b'', arch_index=idx), v.new_file(('scripts', 'placeholder', 'txt'))] and {('cfg', 'empty', 'cfg'): b'', ('scripts', 'placeholder', 'txt'): b''},
        'empty+data': lambda v, idx: [v.add_file('cfg/empty.cfg', b'', arch_index=idx), v.add_file(('a', 'd.bin'), b'D' * 2000, arch_index=idx)] and {('cfg', 'empty', 'cfg'): b'', ('a', 'd', 'bin'): b'D' * 2000},
        'nothing': lambda v, idx: {},
    }
    for single in (False, True):
        for existing in (True, False):
            for mode in 'wa':
                for bname, body in bodies.items():
                    for raise_inside in (False, True):
                        limit, idx = rng.choice(U.LIMITS), rng.choice(U.INDEXES)
                        case = {'with_test': True, 'single': single, 'existing': existing, 'mode': mode, 'body': bname,
                                'exception': raise_inside, 'limit': limit, 'idx': idx}
                        ctx.count('with-statement sessions (direct)')
                        with U.ImplWorld(single) as w:
                            base = {}
                            if existing:
                                with VPK(w.path, mode='w', dir_data_limit=limit) as v:
                                    v.add_file('materials/wall.vmt', b'"LightmappedGeneric" {}\n' * 100, arch_index=idx)
                                base = {('materials', 'wall', 'vmt'): b'"LightmappedGeneric" {}\n' * 100}
                            expect = {} if mode == 'w' else dict(base)
                            committed = dict(base) if existing else None
                            propagated = False
                            try:
                                with VPK(w.path, mode=mode, dir_data_limit=limit) as v:
                                    expect.update(body(v, idx))
                                    if raise_inside:
                                        raise Boom()
                            except Boom:
                                propagated = True
                            if raise_inside and not propagated:
                                ctx.witness('with', 'an exception raised inside the with block did not propagate', case)
                            if not raise_inside:
                                committed = expect
                            try:
                                r = VPK(w.path, mode='r')
                            except Exception as e:
                                if committed is None or (raise_inside and (mode == 'w' or not existing)):
                                    continue        # nothing valid was ever saved: an empty file is left
                                ctx.witness('with', f'reopening after the with block raised {type(e).__name__}: {e}', case)
                                continue
                            if raise_inside and (mode == 'w' or not existing):
                                ctx.witness('with', 'a block left through an exception saved the directory', case)
                                continue
                            got = sorted((i.dir, i._filename, i.ext) for i in r)
                            if got != sorted(committed) or len(r) != len(committed):
                                ctx.witness('with', f'after `with VPK(mode={mode!r})` ({bname}, {"exception" if raise_inside else "normal end"}) on '
                                            f'{"an existing" if existing else "a missing"} archive the reopened archive lists {got}, expected {sorted(committed)}', case)
                                continue
                            for t, data in committed.items():
                                for kd in 'spt':
                                    nm = U.py_name(U.spell(kd, *t))
                                    if nm not in r or r[nm].read() != data or not r[nm].verify():
                                        ctx.witness('with', f'{nm!r} missing / wrong after the with block', case)


def _argforms_property(ctx):
    """Unusual-but-legal argument forms and aliasing, established on the unchanged tree:
    ACCEPTED (must behave like the canonical form): path as str / pathlib.Path / os.PathLike; mode as 'r'/'w'/'a' or
    OpenModes; dir_data_limit omitted == 1024, version omitted == 1; data as bytes or bytearray (the slices taken by write()
    are copies: later mutation by the caller must not reach the archive); names as str, 2/3-tuple or 2/3-list;
    arch_index / root positional; write(data) == write(data, None); add_file(...) == add_file(..., arch_index=0); the same
    bytes object / the same name object used for several calls; writing the same FileInfo twice with the same object;
    a FileInfo obtained before a reopen keeps reading its data and writing through it does not disturb the new handle.
    REJECTED today (outside the domain, not tested): path as bytes (TypeError), mode positional (TypeError, keyword-only),
    mode 'W' (ValueError), data as str (TypeError), data as memoryview (accepted by write() but read() before a reopen
    raises TypeError and the preload aliases the buffer: the annotated type is bytes), adding/deleting while iterating
    `for info in vpk` / filenames() (RuntimeError: dictionary changed size; iterate over list(vpk) instead)."""
    from srctools.vpk import VPK, OpenModes
    import os, pathlib
    rng = ctx.rng
    payload = {('a', 'pre', 'txt'): U.gen_bytes(1, 10), ('a', 'mid', 'txt'): U.gen_bytes(2, 700), ('', 'big', ''): U.gen_bytes(3, 70000)}

    def build(w, forms, limit, idx):
        """the same little history under the given forms; returns the observation after reopen + raw disk bytes"""
        fw = U.ImplWorld(w.single, forms)
        os.rmdir(fw.dir)                       # fw works inside w's folder; do not leave its own behind
        fw.dir, fw.path = w.dir, w.path
        outs = [fw.step(['open', 'w', limit])]
        for t, d in payload.items():
            outs.append(fw.step(['add', U.spell('t', *t), ['x', d.hex()], idx]))
        outs.append(fw.step(['write', U.spell('p', 'a', 'pre', 'txt'), ['x', payload[('a', 'mid', 'txt')].hex()], idx]))
        outs.append(fw.step(['del', U.spell('t', 'a', 'mid', 'txt')]))
        outs.append(fw.step(['has', U.spell('t', '', 'big', '')]))
        outs.append(fw.step(['exit', False]))
        outs.append(fw.step(['open', 'r', limit]))
        outs.append(fw.step(['check']))
        return outs, fw.form_fail

    for single in (False, True):
        for limit, idx in ((16, None), (0, 1), (1024, 0), (None, 7)):
            with U.ImplWorld(single) as w0:
                canon, _ = build(w0, None, limit, idx)
            for forms in ({'path': 'Path'}, {'path': 'PathLike'}, {'mode': 'enum'}, {'data': 'bytearray'}, {'names': 'list'},
                          {'pos': True}, {'omit': True}, U.gen_forms(rng)):
                ctx.count('argforms: history under one non-canonical form vs canonical')
                with U.ImplWorld(single) as w1:
                    got, ff = build(w1, forms, limit, idx)
                if ff or got != canon:
                    n = next((i for i, (a, b) in enumerate(zip(got, canon)) if a != b), -1)
                    ctx.witness('argforms', f'arguments given as {forms} behave differently from the canonical forms '
                                f'(single={single}, limit={limit}, index={idx}): {ff or (str(got[n])[:200] + " vs " + str(canon[n])[:200])}',
                                {'argforms_test': True, 'forms': forms})
    # defaults
    for single in (False, True):
        with U.ImplWorld(single) as w:
            ctx.count('argforms: omitted optional arguments equal the documented defaults')
            a = VPK(w.path, mode='w'); b = VPK(w.path, mode='w', dir_data_limit=1024, version=1)
            if (a.dir_limit, a.version, a.mode) != (b.dir_limit, b.version, b.mode) or a.mode is not OpenModes.WRITE:
                ctx.witness('argforms', 'omitted dir_data_limit/version differ from the documented defaults', {'argforms_test': True})
            d = U.gen_bytes(5, 3000)
            a.add_file('x/one', d); a.add_file('x/two', d, arch_index=0)
            i1, i2 = a['x/one'], a['x/two']
            if (i1.arch_index, i1.arch_len, len(i1.start_data)) != (i2.arch_index, i2.arch_len, len(i2.start_data)):
                ctx.witness('argforms', 'add_file without arch_index differs from arch_index=0', {'argforms_test': True})
    # aliasing: the same objects used for several calls; stale FileInfo across a reopen
    for single in (False, True):
        for limit, idx in ((16, None), (16, 1), (None, 0)):
            ctx.count('argforms: aliasing (same data / name object reused, same FileInfo written twice, stale FileInfo)')
            with U.ImplWorld(single) as w:
                case = {'argforms_test': True, 'single': single, 'limit': limit, 'idx': idx}
                v = VPK(pathlib.Path(w.path), mode=OpenModes.WRITE, dir_data_limit=limit)
                data = U.gen_bytes(9, 500); keep = bytes(data)
                name1, name2 = ['al', 'one.bin'], ('al', 'two', 'bin')
                v.add_file(name1, data, arch_index=idx); v.add_file(name2, data, arch_index=idx)       # same bytes object twice
                info = v[name1]
                info.write(data, idx); info.write(data, idx)                                           # same FileInfo, same object
                if v[name1] is not info or name1 != ['al', 'one.bin'] or data != keep:
                    ctx.witness('argforms', 'a name / data argument object was changed or the FileInfo replaced', case)
                other = U.gen_bytes(10, 500)
                info.write(other, idx); info.write(other, idx)
                if info.read() != other or v[name2].read() != keep or not v.verify_all():
                    ctx.witness('argforms', 'writing the same object repeatedly / to two files: wrong contents', case)
                v.write_dirfile()
                stale = v[name2]
                v2 = VPK(w.path, mode='a', dir_data_limit=limit)
                if stale.read() != keep:
                    ctx.witness('argforms', 'a FileInfo obtained before the reopen no longer reads its data', case)
                stale.write(U.gen_bytes(11, 900), idx)              # through the OLD object
                if v2[name2].read() != keep or v2[name1].read() != other or not v2.verify_all():
                    ctx.witness('argforms', 'writing through a FileInfo of the previous VPK object corrupted the newly opened one', case)
                v2.add_file(('al', 'three.bin'), other, arch_index=idx); v2.write_dirfile()
                r = VPK(w.path)
                if sorted(r.filenames()) != ['al/one.bin', 'al/three.bin', 'al/two.bin'] or r[name2].read() != keep \
                        or r['al/three.bin'].read() != other or not r.verify_all():
                    ctx.witness('argforms', 'after the new handle saved, the archive does not hold what the new handle had', case)


def _special_known(w):
    """open findings whose witness is not an operation history"""
    from srctools.vpk import VPK
    if w.get('kind') == 'name-roundtrip':
        with U.ImplWorld(False) as iw:
            v = VPK(iw.path, mode='w')
            v.add_file(w['name'], b'data')
            return list(v.filenames()) != [w['name']]
    return None


def search(ctx):
    if not ctx.extra.get('_ran'):
        # drivers unavailable: run the histories on the implementation alone
        _run_all(ctx, _all_cases(ctx), capture=0)
    extra = []
    for c in ctx.extra.pop('_disagree_cases', [])[:10]:
        # neighbours of disagreeing histories: the same history with checks after every operation + a reopen
        ops = []
        for o in c['ops']:
            ops.append(o)
            if o[0] != 'check':
                ops.append(['check'])
        extra.append({'single': c['single'], 'ops': ops + [['flush'], ['open', 'r', None], ['check']]})
        extra.append({'single': not c['single'], 'ops': c['ops']})
    for c in extra:
        for f in _fails_of(c):
            ctx.extra.setdefault('_fails', []).append((c, f))
    fails = ctx.extra.pop('_fails', [])
    ctx.extra.pop('_ran', None)
    done = set()
    for case, (key, what, n) in fails:
        if key in done:
            ctx.count('witnesses (more of a reported kind)')
            continue
        done.add(key)
        small = _shrink(case, key)
        f2 = [f for f in _fails_of(small) if f[0] == key]
        ctx.witness(key, (f2[0][1] if f2 else what) + f' [history: {json.dumps(_summary(small))[:600]}]', small)
    _names_property(ctx)
    _readonly_property(ctx)
    _damage_property(ctx)
    _folder_property(ctx)
    _with_property(ctx)
    _argforms_property(ctx)


def replay(ctx, payload):
    inp = payload.get('input')
    if not isinstance(inp, dict) or 'ops' not in inp:
        if isinstance(inp, dict) and ('folder_test' in inp or 'root_test' in inp):
            n0 = len(ctx.witnesses); _folder_property(ctx); return len(ctx.witnesses) == n0
        if isinstance(inp, dict) and 'argforms_test' in inp:
            n0 = len(ctx.witnesses); _argforms_property(ctx); return len(ctx.witnesses) == n0
        if isinstance(inp, dict) and 'with_test' in inp:
            n0 = len(ctx.witnesses); _with_property(ctx); return len(ctx.witnesses) == n0
        if isinstance(inp, dict) and 'where' in inp:
            n0 = len(ctx.witnesses); _damage_property(ctx); return len(ctx.witnesses) == n0
        if isinstance(inp, dict) and 'triple' in inp:
            n0 = len(ctx.witnesses); _names_property(ctx); return len(ctx.witnesses) == n0
        print('replay file names a broken obligation/correspondence, no history to replay:',
              payload.get('broken_obligations'), str(payload.get('disagreements', [])[:1])[:800])
        return False
    f = _fails_of(inp)
    print('history', json.dumps(_summary(inp))[:1500])
    for x in f:
        print('  property fails:', x)
    return not f


def replay_known(ctx, finding):
    w = finding.get('witness')
    if isinstance(w, dict) and 'kind' in w:
        return _special_known(w)
    if not isinstance(w, dict) or 'ops' not in w:
        return None
    return bool(_fails_of(w))
