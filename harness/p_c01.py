"""C01 — KeyValues1 serialise/parse round trip preserves the whole tree."""
import io, json, re, warnings
from common import codes, uncodes
import tokutil
import c01_gen as G
import c01_deliver as D

PID = 'C01'
GENS = ['tok', 'kvser']
DRIVERS = ['drv_c01']
PROPS = 'Srctools.Props.C01'
RULE = ("trees: a small exhaustive family (all leaves with name/value of length <= 1 over the 17-symbol alphabet, all empty / "
        "one-leaf blocks with names of length <= 2 over 11 syntax symbols) + random Keyvalues trees (depth <= 6, width <= 6, node budget <= 40; empty blocks, duplicate and empty "
        "names; names/values over the 17-symbol alphabet of C02 + KV syntax characters + random Unicode scalars; 15% of "
        "trees have CR/LF in names and are parsed with newline_keys=True), as a single keyvalue or under Keyvalues.root, "
        "with indent in {TAB, 2 spaces, '', ' TAB'}, indent_braces in {True, False}, start_indent in 5 whitespace strings; "
        "serialise() text compared character for character with the model, parse() of that text compared with the model "
        "parse (real_name, value, child order, line_num) through 26 delivery forms (harness/c01_deliver.py): str; list / "
        "tuple / deque / custom iterable (also with a .name) of chunks with empty chunks - parsed twice, must be unchanged; "
        "generator, iter(list), one-shot iterator class, itertools.chain; io.StringIO at position 0, after read(k) of a "
        "prefix, after readline() of a header, subclass with .name, half consumed, exhausted; real temp files opened with "
        "newline='' and with default newline translation at position 0 / after read / after readline / exhausted; "
        "io.TextIOWrapper over BytesIO - a file object is parsed from its CURRENT position: the model gets the chunks an "
        "independent twin object yields. documents: fixed corpus + generated flag documents + random lexeme sequences + character mutations "
        "of serialised trees, under random parse options (flags mapping, newline_keys, newline_values, allow_escapes, "
        "single_line, single_block); result tree or (error id, argument, line) compared with the model. "
        "sessions: sequences of 2-7 API calls in one interpreter state (single_block parses that return early with a token "
        "pushed back, parses abandoned by an error, direct Tokenizer call/peek/push_back use, serialise, round trips; all delivery forms), "
        "state renewed (all srctools modules re-imported) every 100 sessions; every call's result "
        "compared with the model (a pure function of the call) and every round trip checked; a failing round trip is "
        "re-run from a pristine state and the call sequence shrunk (ddmin). "
        "A case is non-trivial when it contains a character special to the format (quote, backslash, brace, bracket, "
        "CR, LF) or ends in an error; distinct by content.")
TRUSTED = ["model: C01.serKV / C01.step / C01.parseToks (lean/Srctools/Model/C01.lean) on top of the shared tokenizer model "
           "Tok.run (Model/Tok.lean); which fields _serialise escapes and its text templates are regenerated from "
           "keyvalues.py by tools/gen_kvser.py (Gen/Kvser.lean), tokenizer tables by tools/gen_tok.py",
           "chunked / file-object input: C01_roundtrip_chunks composes C01_roundtrip with C03's refinement theorem "
           "(TokC.C03_run_eq_abstract, lean/Srctools/Props/C03.lean) - the concrete chunk-cursor model TokC is tied to the "
           "implementation by C03's correspondence; here str / chunk list / io.StringIO are exercised differentially",
           "str.casefold is modelled character-wise through a table sent by the harness"]
NOT_MODELLED = ['_tokenizer.pyx control flow', 'Keyvalues.parse given an already constructed BaseTokenizer',
                'filename handling of errors', 'Keyvalues.export (deprecated writer)']
ASSUMPTIONS = ['trees are finite and acyclic (serialise does not handle cycles, as documented)',
               'FLAGS_DEFAULT is read from the implementation at run time (platform dependent)']

DEFAULT_PO = {'flags': {}, 'nk': False, 'nv': True, 'esc': True, 'sl': False, 'sb': False}
KV_TOK_OPTS = [True, True, True, False, False, False, False]   # Tokenizer options used by Keyvalues.parse

_KV_MSGS = [
    (2, re.compile(r'^Keyvalues cannot have sub-section if it already has an in-line value\.')),
    (3, re.compile(r'^Block opening \("\{\{"\) required!')),
    (4, re.compile(r'^Illegal newline found in key "', re.S)),
    (5, re.compile(r'^Illegal newline found in value "', re.S)),
    (6, re.compile(r'^Keyvalue split across lines!')),
    (7, re.compile(r'^Cannot have multiple names on the same line!$')),
    (8, re.compile(r'^Expected Token\.NEWLINE, but got Token\.([A-Z_]+)!$')),
    (9, re.compile(r'^Too many closing brackets\.')),
    (11, re.compile(r'^Block opening \("\{"\) required, but hit EOF!')),
    (12, re.compile(r'^End of text reached with remaining open sections\.')),
]
_UNEXP = [
    (11, re.compile(r'^Unexpected property flags = \[.*\]!$', re.S)),
    (3, re.compile(r'^Unexpected parentheses block = \(.*\)!$', re.S)),
    (1, re.compile(r'^Unexpected string = ".*"!$', re.S)),
    (4, re.compile(r'^Unexpected directive "#.*"!$', re.S)),
    (5, re.compile(r'^Unexpected comment "//.*"!$', re.S)),
    (0, re.compile(r'^File ended unexpectedly!$')),
    (2, re.compile(r'^Unexpected newline!$')),
]
_OPCHAR = {'{': 6, '}': 7, '(': 8, ')': 9, '[': 12, ']': 13, ':': 14, '=': 15, '+': 16, ',': 17}


def kv_err_code(exc, Token):
    mess = exc.mess
    for i, rx in _KV_MSGS:
        m = rx.match(mess)
        if m:
            if i == 8:
                return [8, Token[m.group(1)].value, 0]
            if i == 12:
                return [12, mess.count('\n- "'), 0]
            return [i, 0, 0]
    for k, rx in _UNEXP:
        if rx.match(mess):
            return [10, k, 0]
    m = re.match(r'^Unexpected "(.)" character!$', mess, re.S)
    if m and m.group(1) in _OPCHAR:
        return [10, _OPCHAR[m.group(1)], 0]
    t = tokutil.err_code(exc)
    if t[0] != -1:
        return [1, t[0], t[1]]
    return [-1, mess, 0]


class Impl:
    def __init__(self):
        import srctools.keyvalues as kvmod
        import srctools.tokenizer as tokmod
        self.K, self.KVE = kvmod.Keyvalues, kvmod.KeyValError
        self.Tokenizer, self.TSE, self.Token = tokmod.Tokenizer, tokmod.TokenSyntaxError, tokmod.Token
        self.escape_text = tokmod.escape_text
        self.defaults = {k: bool(v) for k, v in kvmod.FLAGS_DEFAULT.items()}

    def parse(self, src, po):
        """Observation of Keyvalues.parse in the shape the driver prints."""
        try:
            with warnings.catch_warnings():
                warnings.simplefilter('ignore')
                r = self.K.parse(src, flags=po['flags'], newline_keys=po['nk'], newline_values=po['nv'],
                                 allow_escapes=po['esc'], single_line=po['sl'], single_block=po['sb'])
        except self.KVE as e:
            out = {'k': 'err', 'err': kv_err_code(e, self.Token), 'line': e.line_num}
            if type(e) is not self.KVE:
                out['exc'] = 'subclass ' + type(e).__name__
            return out
        except IndexError:
            return {'k': 'err', 'err': [13, 0, 0], 'line': None}
        except Exception as e:
            return {'k': 'exc', 'exc': f'{type(e).__name__}: {e}'}
        if r._real_name is None and isinstance(r._value, list):
            lines = []
            for k in r._value:
                G.canon_lines(k, lines)
            return {'k': 'root', 'trees': [G.canon(k) for k in r._value], 'lines': lines}
        return {'k': 'single', 'trees': [G.canon(r)]}

    def toks_mod_nl(self, text):
        r = tokutil.impl_run(self.Tokenizer, self.TSE, text, KV_TOK_OPTS, max_calls=len(text) + 4)
        return [[k, v] for k, v, _ in r['toks'] if k != 2], (r['err'] or [None])[0], r.get('exc')


def ser_kwargs(o):
    return {'indent': o['indent'], 'indent_braces': o['braces'], 'start_indent': o['start']}


def rand_opts(rng):
    return {'indent': rng.choice(G.INDENTS), 'braces': rng.random() < 0.5, 'start': rng.choice(G.STARTS)}


def model_po(impl, po, text):
    return {'flags': [[codes(k), bool(v)] for k, v in po['flags'].items()],
            'defaults': [[codes(k), v] for k, v in impl.defaults.items()],
            'nk': po['nk'], 'nv': po['nv'], 'esc': po['esc'], 'sl': po['sl'], 'sb': po['sb'],
            'fold': tokutil.fold_table(text)}


def model_view(m):
    """Driver reply -> same shape as Impl.parse (str fields)."""
    if 'error' in m:
        return {'k': 'driver-error', 'msg': m['error']}
    if m['k'] == 'err':
        return {'k': 'err', 'err': m['err'], 'line': m['line']}
    out = {'k': m['k'], 'trees': [G.dec(t) for t in m['trees']]}
    if m['k'] == 'root':
        out['lines'] = m['lines']
    return out


def _wit_key(roots):
    for t in roots:
        for n in G.tree_block_names(t):
            if any(c in n for c in '"\\\r'):
                return 'block-name-unescaped'
    return 'roundtrip'


def parse_delivered(impl, desc, text, po):
    """Keyvalues.parse of `text` delivered in form `desc`. Returns (result, chunks the object yields, problem or None):
    a re-iterable container is parsed twice and must be neither changed nor give a different result."""
    src, chunks, fin = D.deliver(desc, text)
    got = impl.parse(src, po)
    problem = None
    if desc['form'] in D.REITERABLE:
        again = impl.parse(src, po)
        if again != got:
            problem = f'second parse of the same {desc["form"]} of chunks differs: {json.dumps(again, default=str)[:160]}'
    problem = fin() or problem
    return got, chunks, problem


def property_on_impl(ctx, impl, roots, is_root, o, o2, rng, record=True, descs=None):
    """The property itself on the implementation. Returns (text or None, list of (key, what)).
    `descs`: the delivery forms to parse the text through (default: str + two random ones)."""
    K = impl.K
    fails = []
    case = {'roots': [G.enc(t) for t in roots], 'is_root': is_root, 'o': o, 'o2': o2}
    with warnings.catch_warnings():
        warnings.simplefilter('ignore')
        obj = K.root(*[G.build(K, t) for t in roots]) if is_root else G.build(K, roots[0])
    snap = G.snapshot(obj) if not is_root else tuple(G.snapshot(k) for k in obj._value)
    try:
        text = obj.serialise(**ser_kwargs(o))
        buf = io.StringIO()
        ret = obj.serialise(buf, **ser_kwargs(o))
        text2 = obj.serialise(**ser_kwargs(o2))
    except Exception as e:
        fails.append(('serialise-raises', f'serialise raised {type(e).__name__}: {e}'))
        text = None
    if text is not None:
        after = G.snapshot(obj) if not is_root else tuple(G.snapshot(k) for k in obj._value)
        if after != snap:
            fails.append(('mutates', 'serialise() changed the tree it was given'))
        if ret is not None or buf.getvalue() != text:
            fails.append(('file-differs', 'serialise(file) wrote different text than serialise() returned'))
        names_ok = not any(c in n for t in roots for n in G.tree_names(t) for c in '\r\n')
        po = dict(DEFAULT_PO, nk=not names_ok)
        want = {'k': 'root', 'trees': roots}
        if descs is None:
            descs = [{'form': 'str'}, D.rand_desc(rng, roundtrip=True), D.rand_desc(rng, roundtrip=True)]
        for desc in descs:
            got, _, problem = parse_delivered(impl, desc, text, po)
            got.pop('lines', None)
            if got != want or problem:
                case['delivery'] = desc
                fails.append((_wit_key(roots) if got != want else 'delivery-changed',
                              f'parse(serialise(tree)) given as {desc} is not the tree: '
                              f'text {text[:120]!r} -> {problem or json.dumps(got, default=str)[:200]}'))
                break
        a, b = impl.toks_mod_nl(text), impl.toks_mod_nl(text2)
        if a != b:
            fails.append(('ws-indep', f'token streams (modulo NEWLINE) of serialise under {o} and {o2} differ'))
    if record:
        for key, what in fails:
            ctx.witness(key, what, case)
    return text, fails


def gen_case(rng):
    names_nl = rng.random() < 0.15
    is_root = rng.random() < 0.25
    n_roots = rng.choice([0, 1, 2, 3, 4]) if is_root else 1
    budget = [rng.choice([1, 3, 8, 20, 40, 40])]
    roots = [G.rand_tree(rng, rng.choice([0, 1, 2, 3, 4, 5, 6, 6]), budget, names_nl) for _ in range(n_roots)]
    return roots, is_root, rand_opts(rng), rand_opts(rng)


def rand_po(rng):
    po = dict(DEFAULT_PO)
    if rng.random() < 0.5:
        po.update(nk=rng.random() < 0.3, nv=rng.random() < 0.7, esc=rng.random() < 0.8,
                  sl=rng.random() < 0.3, sb=rng.random() < 0.25)
    r = rng.random()
    if r < 0.3:
        po['flags'] = {'custom': rng.random() < 0.5}
    elif r < 0.5:
        po['flags'] = {'custom': True, 'x360': True, 'win32': False, 'CUSTOM': False, 'i̇': True}
    return po


def gen_docs(ctx, impl, texts):
    rng = ctx.rng
    for d in G.FIXED_DOCS:
        yield d, dict(DEFAULT_PO)
        yield d, rand_po(rng)
        yield d, dict(DEFAULT_PO, sb=True)
        yield d, dict(DEFAULT_PO, sl=True)
    n = ctx.budget(25000, 300000)
    for i in range(n):
        r = rng.random()
        if r < 0.35:
            d = G.flag_doc(rng, impl.escape_text)
            if rng.random() < 0.3:
                d = G.mutate(rng, d)
        elif r < 0.65:
            d = G.lexeme_doc(rng)
        elif texts:
            d = G.mutate(rng, rng.choice(texts))
        else:
            d = G.lexeme_doc(rng)
        yield d, rand_po(rng)


def _special(s):
    return any(c in s for c in '"\\{}[]\r\n')


def _flush(ctx, drv, reqs, meta):
    if not reqs:
        return
    replies = iter(drv.batch(reqs))
    for tag, case, text, got, delivered in meta:
        if tag in ('ser', 'ser+parse'):
            m = next(replies)
            m_text = uncodes(m['r']) if 'r' in m else None
            if m_text != text:
                ctx.disagree(case, text, m_text if m_text is not None else m, 'serialise text')
            ctx.traces_vs_impl += 1
            if tag == 'ser':
                continue
        m = model_view(next(replies))
        ctx.traces_vs_impl += 1
        g = dict(got)
        if '[' in (delivered or '') or g.get('k') != 'root':
            g.pop('lines', None)
            m.pop('lines', None)
        if g != m:
            ctx.disagree(case, g, m, 'parse' if tag == 'doc' else 'parse of serialised text')
    del reqs[:], meta[:]


def _parse_req(impl, po, text, chunks):
    """Model request for a parse: a str goes to the abstract tokenizer model on the text, anything iterated
    (chunk containers, iterators, file objects from their current position) to the concrete chunk-cursor model
    TokC on exactly the chunks the object yields."""
    if chunks is None:
        return dict(model_po(impl, po, text), op='parse', s=codes(text))
    joined = ''.join(chunks)
    return dict(model_po(impl, po, joined), op='parse', s=codes(joined), chunks=[codes(c) for c in chunks])


def small_cases():
    """Deterministic part: every leaf with name and value of length <= 1 over SIGMA17 (names without CR/LF),
    every empty block and one-leaf block with a name of length <= 2 over the syntax-relevant symbols."""
    sig = [''] + G.SIGMA17
    names = [x for x in sig if x not in ('\r', '\n')]
    for n in names:
        for v in sig:
            yield [[0, n, v]]
    sym = ['"', '\\', '{', '}', '[', ']', ' ', '\t', 'a', '/', '#']
    for a in [''] + sym:
        for b in [''] + sym:
            yield [[1, a + b, []]]
            yield [[1, a + b, [[0, b, a]]]]


def correspond(ctx, drivers):
    impl = Impl()
    drv = drivers['drv_c01']
    rng = ctx.rng
    reqs, meta, texts = [], [], []
    plain = {'indent': '\t', 'braces': True, 'start': ''}
    cases = [(r, False, plain, {'indent': '', 'braces': False, 'start': '  '}) for r in small_cases()]
    n_small = len(cases)
    ctx.extra['exhaustive_part'] = ('all leaves with |name|,|value| <= 1 over SIGMA17 (names without CR/LF); all empty and '
                                    'one-leaf blocks with names of length <= 2 over 11 syntax-relevant symbols')
    ctx.exhaustive = False
    n_rand = ctx.budget(12000, 150000)
    # ---- trees: serialise text and parse of it
    for i in range(n_small + n_rand):
        roots, is_root, o, o2 = cases[i] if i < n_small else gen_case(rng)
        text, fails = property_on_impl(ctx, impl, roots, is_root, o, o2, rng)
        st = [G.tree_stats(t) for t in roots]
        nodes = sum(s[0] for s in st)
        if i >= n_small:
            ctx.count('tree:nodes<=%d' % next(b for b in (1, 3, 8, 20, 40, 10 ** 9) if nodes <= b))
            ctx.count('tree:depth=%d' % max([s[1] for s in st] or [0]))
            ctx.count('tree:root' if is_root else 'tree:single')
            for flag, key in ((3, 'empty-block'), (4, 'dup-names'), (5, 'empty-name')):
                if any(s[flag] for s in st):
                    ctx.count('tree:' + key)
            ctx.count('ser:indent=%r,braces=%s' % (o['indent'], o['braces']))
        else:
            ctx.count('tree:small-exhaustive')
        case = {'roots': [G.enc(t) for t in roots], 'is_root': is_root, 'o': o}
        ctx.case(case, nontrivial=any(_special(s) for t in roots for s in G.tree_strings(t)) or nodes > 1,
                 sample_every=1999)
        reqs.append({'op': 'ser', 'root': is_root, 'trees': case['roots'], 'indent': codes(o['indent']),
                     'braces': o['braces'], 'start': codes(o['start'])})
        if text is None:
            meta.append(('ser', case, None, None, None))
            continue
        names_ok = not any(c in n for t in roots for n in G.tree_names(t) for c in '\r\n')
        po = dict(DEFAULT_PO, nk=not names_ok)
        desc = D.rand_desc(rng, D.FORMS[i % len(D.FORMS)])
        got, chunks, problem = parse_delivered(impl, desc, text, po)
        if problem:
            ctx.witness('delivery-changed', problem, dict(case, o2=o2, delivery=desc))
        ctx.count('parse-of-serialised:' + desc['form'])
        reqs.append(_parse_req(impl, po, text, chunks))
        meta.append(('ser+parse', dict(case, delivery=desc), text, got, text if chunks is None else ''.join(chunks)))
        if text and (len(texts) < 4000 or rng.random() < 0.05):
            if len(texts) < 4000:
                texts.append(text)
            else:
                texts[rng.randrange(len(texts))] = text
        if len(reqs) >= 20000:
            _flush(ctx, drv, reqs, meta)
    _flush(ctx, drv, reqs, meta)
    # ---- documents
    for j, (d, po) in enumerate(gen_docs(ctx, impl, texts)):
        desc = D.rand_desc(rng, D.FORMS[j % len(D.FORMS)])
        kind = desc['form']
        got, chunks, problem = parse_delivered(impl, desc, d, po)
        if problem:
            ctx.disagree({'doc': d, 'po': po, 'delivery': desc}, problem, None, 'parse changed / consumed the chunk container')
        reqs.append(_parse_req(impl, po, d, chunks))
        meta.append(('doc', {'doc': d, 'po': po, 'delivery': desc}, d, got, d if chunks is None else ''.join(chunks)))
        ctx.case({'doc': d, 'po': po}, nontrivial=_special(d), sample_every=4999)
        if got['k'] == 'err':
            ctx.count('doc:err:%s' % (got['err'][0] if got['err'][0] != 1 else 'tok%s' % got['err'][1]))
        else:
            ctx.count('doc:' + got['k'])
        ctx.count('doc:src=' + kind)
        for opt in ('nk', 'sl', 'sb'):
            if po[opt]:
                ctx.count('doc:opt:' + opt)
        if not po['nv'] or not po['esc']:
            ctx.count('doc:opt:nv/esc off')
        if po['flags']:
            ctx.count('doc:opt:flags')
        if len(reqs) >= 20000:
            _flush(ctx, drv, reqs, meta)
    _flush(ctx, drv, reqs, meta)
    # ---- sessions (histories of calls in one interpreter state)
    run_sessions(ctx, drv)


# ----------------------------------------------------------------------------- sessions
# A session is a sequence of API calls made in ONE interpreter state (a history), e.g. a
# `single_block=True` parse that returns early with a token pushed back, a parse abandoned by an error,
# direct Tokenizer use with peek/push_back, serialise calls, and round trips of generated trees.  The
# model is a pure function of each call's arguments, so every call's result must equal the model's
# (history independence = the tie), and a wrong round trip is a property violation whose witness is the
# whole call sequence.

SB_DOCS = ['"k" "v"', '"k" "v" }', '"k" "v"\n', '"k" "v" {', '"k" "v" [win32]\n', '"k" "v" "x" "y"', '"k" "v" =',
           '"a" { "b" "c" } "tail" "z"', '"a"\n{\n}\n"more"', '"a" "b" #dir', 'k v', '"k" "v" // c', '"k" "v"\r\n}',
           '"a" { "b" "c" } }', '"a" [x360]\n{\n}\n"b" "c"\n']
TOK_OPS = ['call', 'call', 'call', 'peek', 'push']


def fresh_impl():
    """A pristine implementation state: every srctools module is imported anew."""
    import common
    common.import_impl()
    return Impl()


def gen_session(rng, impl):
    calls = []
    for _ in range(rng.randrange(1, 7)):
        r = rng.random()
        if r < 0.3:
            d = rng.choice(SB_DOCS) if rng.random() < 0.7 else G.flag_doc(rng, impl.escape_text)
            calls.append({'op': 'parse', 'doc': d, 'po': dict(DEFAULT_PO, sb=True, sl=rng.random() < 0.2),
                          'delivery': D.rand_desc(rng)})
        elif r < 0.5:
            d = rng.choice(G.FIXED_DOCS) if rng.random() < 0.5 else G.mutate(rng, G.flag_doc(rng, impl.escape_text))
            calls.append({'op': 'parse', 'doc': d, 'po': rand_po(rng), 'delivery': D.rand_desc(rng)})
        elif r < 0.65:
            d = rng.choice(SB_DOCS + G.FIXED_DOCS) if rng.random() < 0.7 else G.lexeme_doc(rng, 8)
            calls.append({'op': 'tok', 'text': d, 'ops': [rng.choice(TOK_OPS) for _ in range(rng.randrange(1, 7))]})
        elif r < 0.75:
            roots, is_root, o, _ = gen_case(rng)
            calls.append({'op': 'ser', 'roots': [G.enc(t) for t in roots], 'is_root': is_root, 'o': o})
        else:
            roots, is_root, o, _ = gen_case(rng)
            calls.append({'op': 'roundtrip', 'roots': [G.enc(t) for t in roots], 'is_root': is_root, 'o': o,
                          'delivery': D.rand_desc(rng, roundtrip=True)})
    roots, is_root, o, _ = gen_case(rng)
    calls.append({'op': 'roundtrip', 'roots': [G.enc(t) for t in roots], 'is_root': is_root, 'o': o,
                  'delivery': D.rand_desc(rng, roundtrip=True)})
    return calls


def _tok_ops_impl(impl, text, ops):
    tok = impl.Tokenizer(text, None, string_bracket=True)
    out, last = [], None
    for op in ops:
        try:
            if op == 'call':
                k, v = tok()
                last = (k, v)
                out.append(['call', k.value, codes(v)])
            elif op == 'peek':
                k, v = tok.peek()
                last = (k, v)
                out.append(['peek', k.value, codes(v)])
            elif last is not None:
                tok.push_back(*last)
                out.append(['push'])
        except impl.TSE as e:
            out.append(['err'] + tokutil.err_code(e)[:2])
            break
        except Exception as e:
            out.append(['exc', f'{type(e).__name__}: {e}'])
            break
    return out


def _tok_ops_model(run, ops):
    """The same observation predicted from the model's token stream of the text (pure)."""
    toks, err = run['toks'], run['err']
    i, stack, out, last = 0, [], [], None

    def fetch():
        nonlocal i
        if stack:
            return stack.pop()
        if i < len(toks):
            t = toks[i]
            if t[0] != 0:
                i += 1
            return [t[0], t[1]]
        if err:
            raise LookupError
        return [0, []]
    for op in ops:
        try:
            if op == 'call':
                last = fetch()
                out.append(['call'] + last)
            elif op == 'peek':
                last = fetch()
                stack.append(last)
                out.append(['peek'] + last)
            elif last is not None:
                stack.append(last)
                out.append(['push'])
        except LookupError:
            out.append(['err'] + err[:2])
            break
    return out


def _call_tree(impl, c):
    roots = [G.dec(t) for t in c['roots']]
    with warnings.catch_warnings():
        warnings.simplefilter('ignore')
        obj = impl.K.root(*[G.build(impl.K, t) for t in roots]) if c['is_root'] else G.build(impl.K, roots[0])
    return roots, obj


def run_call(impl, c):
    """One call on the implementation -> JSON-able result."""
    try:
        if c['op'] == 'parse':
            r, _, problem = parse_delivered(impl, c['delivery'], c['doc'], c['po'])
            r.pop('lines', None)
            if problem:
                r['problem'] = problem
            return r
        if c['op'] == 'tok':
            return {'obs': _tok_ops_impl(impl, c['text'], c['ops'])}
        roots, obj = _call_tree(impl, c)
        text = obj.serialise(**ser_kwargs(c['o']))
        if c['op'] == 'ser':
            return {'text': text}
        names_ok = not any(ch in n for t in roots for n in G.tree_names(t) for ch in '\r\n')
        got, _, problem = parse_delivered(impl, c['delivery'], text, dict(DEFAULT_PO, nk=not names_ok))
        got.pop('lines', None)
        return {'text': text, 'got': got, 'ok': got == {'k': 'root', 'trees': roots} and not problem}
    except Exception as e:      # nothing here is expected to raise
        return {'k': 'exc', 'exc': f'{type(e).__name__}: {e}', 'ok': False}


def run_session(impl, calls):
    return [run_call(impl, c) for c in calls]


def _session_fails(calls):
    """Does the LAST call (a round trip) fail when the calls are made from a pristine state?"""
    res = run_session(fresh_impl(), calls)
    return res[-1].get('ok') is False


def _model_reqs(impl, c):
    if c['op'] == 'parse':
        _, chunks, fin = D.deliver(c['delivery'], c['doc'])
        fin()
        return [_parse_req(impl, c['po'], c['doc'], chunks)]
    if c['op'] == 'tok':
        return [{'op': 'toks', 's': codes(c['text']), 'esc': True, 'fold': tokutil.fold_table(c['text'])}]
    return [{'op': 'ser', 'root': c['is_root'], 'trees': c['roots'], 'indent': codes(c['o']['indent']),
             'braces': c['o']['braces'], 'start': codes(c['o']['start'])}]


def _model_expect(c, replies):
    m = replies[0]
    if c['op'] == 'parse':
        v = model_view(m)
        v.pop('lines', None)
        return v
    if c['op'] == 'tok':
        return {'obs': _tok_ops_model(m, c['ops'])}
    text = uncodes(m['r']) if 'r' in m else None
    if c['op'] == 'ser':
        return {'text': text}
    return {'text': text, 'got': {'k': 'root', 'trees': [G.dec(t) for t in c['roots']]}, 'ok': True}


def run_sessions(ctx, drv):
    """Sessions on the implementation; every call compared with the model (pure function of the call);
    a failing round trip -> witness = the call sequence, confirmed from a pristine state and shrunk."""
    rng = ctx.rng
    n = ctx.budget(1500, 15000)
    EPOCH = 100
    impl = None
    epoch_calls, reqs, meta, shrunk = [], [], [], False
    for si in range(n):
        if si % EPOCH == 0:
            impl, epoch_calls = fresh_impl(), []
        calls = gen_session(rng, impl)
        res = run_session(impl, calls)
        ctx.count('session')
        ctx.count('session:calls', len(calls))
        for c in calls:
            ctx.count('session:op:' + c['op'] + (':single_block' if c['op'] == 'parse' and c['po']['sb'] else ''))
        ctx.case({'session': calls}, nontrivial=len(calls) > 1, sample_every=499)
        for i, (c, r) in enumerate(zip(calls, res)):
            if drv is not None:
                rq = _model_reqs(impl, c)
                reqs += rq
                meta.append((calls, i, r, len(rq)))
            if c['op'] == 'roundtrip' and r.get('ok') is False:
                hist = calls[:i + 1]
                note = ''
                if len(ctx.witnesses) < 5:
                    if _session_fails(hist):
                        pass
                    elif _session_fails(epoch_calls + hist):
                        hist = epoch_calls + hist
                    else:
                        note = ' (not reproduced from a pristine state: depends on more history than this run kept)'
                    if not note and not shrunk:
                        shrunk = True
                        last = hist[-1]
                        pre = common_ddmin(hist[:-1], lambda cs: _session_fails(list(cs) + [last])) if len(hist) > 1 else []
                        hist = list(pre) + [last]
                    impl = fresh_impl()         # the confirmation runs replaced the interpreter state
                    epoch_calls = []
                ctx.witness('session-history' if len(hist) > 1 else _wit_key([G.dec(t) for t in c['roots']]),
                            f'parse(serialise(tree)) is wrong after a history of {len(hist) - 1} API call(s) in the same '
                            f'process: {json.dumps(hist[:-1], default=str)[:400]} then round trip of '
                            f'{[G.dec(t) for t in c["roots"]]!r:.200} -> {json.dumps(r.get("got", r), default=str)[:200]}{note}',
                            {'session': hist})
        epoch_calls += calls
        if len(reqs) >= 20000:
            _flush_sessions(ctx, drv, reqs, meta)
    _flush_sessions(ctx, drv, reqs, meta)
    ctx.extra['sessions_done'] = True


def common_ddmin(items, fails):
    from common import ddmin
    return ddmin(items, fails, budget=120)


def _flush_sessions(ctx, drv, reqs, meta):
    if drv is None or not reqs:
        del reqs[:], meta[:]
        return
    replies = drv.batch(reqs)
    k = 0
    for calls, i, r, nreq in meta:
        want = _model_expect(calls[i], replies[k:k + nreq])
        k += nreq
        ctx.traces_vs_impl += 1
        got = {key: r.get(key) for key in want} if 'exc' not in r else r
        if got != want:
            ctx.disagree({'session': calls[:i + 1], 'index': i}, got, want,
                         'call %d (%s) of a session differs from the model (a pure function of the call): history dependence' % (i, calls[i]['op']))
    del reqs[:], meta[:]


# ----------------------------------------------------------------------------- shrinking

def _shorter(s):
    for i in range(len(s)):
        yield s[:i] + s[i + 1:]
    if len(s) > 2:
        yield s[:len(s) // 2]
        yield s[len(s) // 2:]


def _reductions(t):
    if t[0] == 0:
        for s in _shorter(t[1]):
            yield [0, s, t[2]]
        for s in _shorter(t[2]):
            yield [0, t[1], s]
        return
    for k in t[2]:
        yield k
    for i in range(len(t[2])):
        yield [1, t[1], t[2][:i] + t[2][i + 1:]]
    for s in _shorter(t[1]):
        yield [1, s, t[2]]
    for i, k in enumerate(t[2]):
        for r in _reductions(k):
            yield [1, t[1], t[2][:i] + [r] + t[2][i + 1:]]


def shrink_roots(roots, fails, budget=600):
    calls = 0
    progress = True
    while progress and calls < budget:
        progress = False
        cands = [roots[:i] + roots[i + 1:] for i in range(len(roots))] if len(roots) > 1 else []
        for i, t in enumerate(roots):
            cands += [roots[:i] + [r] + roots[i + 1:] for r in _reductions(t)]
        for c in cands:
            calls += 1
            if calls > budget:
                break
            if c and fails(c):
                roots = c
                progress = True
                break
    return roots


def search(ctx):
    """The property on the implementation already ran on every tree case inside correspond (same
    inputs). If the driver could not be built run it alone; re-test trees near disagreeing inputs; shrink."""
    impl = Impl()
    rng = ctx.rng
    if ctx.evaluations == 0:
        plain = {'indent': '\t', 'braces': True, 'start': ''}
        for r in small_cases():
            property_on_impl(ctx, impl, r, False, plain, {'indent': '', 'braces': False, 'start': '  '}, rng)
        for _ in range(ctx.budget(12000, 150000)):
            roots, is_root, o, o2 = gen_case(rng)
            property_on_impl(ctx, impl, roots, is_root, o, o2, rng)
            ctx.count('search:tree')
    for d in ctx.disagreements[:20]:
        c = d['case']
        if 'roots' not in c:
            continue
        roots = [G.dec(t) for t in c['roots']]
        for o in [c['o']] + [rand_opts(rng) for _ in range(3)]:
            property_on_impl(ctx, impl, roots, c['is_root'], o, rand_opts(rng), rng)
            for t in roots:
                property_on_impl(ctx, impl, [t], False, o, rand_opts(rng), rng)
                for r in list(_reductions(t))[:40]:
                    property_on_impl(ctx, impl, [r], False, o, rand_opts(rng), rng)
    if not ctx.extra.get('sessions_done'):
        run_sessions(ctx, None)
    if ctx.witnesses and 'roots' in ctx.witnesses[0]['input']:
        w = ctx.witnesses[0]
        inp = w['input']
        roots = [G.dec(t) for t in inp['roots']]
        key = w['key']

        def fails(rs):
            if not inp['is_root'] and len(rs) != 1:
                return False
            try:
                _, f = property_on_impl(ctx, impl, rs, inp['is_root'], inp['o'], inp['o2'], rng, record=False,
                                        descs=[inp['delivery']] if inp.get('delivery') else None)
            except Exception:
                return False
            return any(k == key for k, _ in f)
        if fails(roots):
            small = shrink_roots(roots, fails)
            inp['shrunk'] = [G.enc(t) for t in small]
            w['what'] += f' (shrunk to {small!r}, options {inp["o"]}, delivery {inp.get("delivery")})'


def replay(ctx, payload):
    impl = Impl()
    inp = payload.get('input') or {}
    if 'session' in inp:
        calls = inp['session']
        res = run_session(fresh_impl(), calls)
        ok = True
        for i, (c, r) in enumerate(zip(calls, res)):
            print(f'call {i}:', json.dumps(c, default=str)[:300], '->', json.dumps(r, default=str)[:300])
            if c['op'] == 'roundtrip' and r.get('ok') is False:
                print('  FAILS: parse(serialise(tree)) is not the tree after the calls above')
                ok = False
        return ok
    if 'roots' not in inp:
        print('replay file names a broken obligation/correspondence, no failing input to replay:',
              payload.get('broken_obligations'), json.dumps(payload.get('disagreements', [])[:1], default=str)[:600])
        return False
    roots = [G.dec(t) for t in (inp.get('shrunk') or inp['roots'])]
    descs = ([inp['delivery']] if inp.get('delivery') else []) + D.all_descs(roundtrip=True)
    text, fails = property_on_impl(ctx, impl, roots, inp['is_root'], inp['o'], inp['o2'], ctx.rng, descs=descs)
    print('trees', roots, 'options', inp['o'], 'text', repr(text))
    for k, what in fails:
        print('  FAILS', k, what)
    return not fails


def replay_known(ctx, finding):
    impl = Impl()
    wit = finding.get('witness') or {}
    if 'session' in wit:
        return run_session(fresh_impl(), wit['session'])[-1].get('ok') is False
    if 'roots' not in wit:
        return None
    roots = [G.dec(t) for t in wit['roots']]
    _, fails = property_on_impl(ctx, impl, roots, wit.get('is_root', False), wit.get('o', {'indent': '\t', 'braces': True, 'start': ''}),
                                wit.get('o2', {'indent': '', 'braces': False, 'start': ''}), ctx.rng, record=False,
                                descs=([wit['delivery']] if wit.get('delivery') else []) + D.all_descs(roundtrip=True))
    return any(k == finding['key'] for k, _ in fails)


LEVEL_TEXT = ("Theorems in Lean about the executable model of Keyvalues._serialise / Keyvalues.parse over the shared "
              "tokenizer model, for every tree and every tokenizer table satisfying decidable predicates re-checked on the "
              "current source: C01_roundtrip (parse(serialise(t)) = root[t] for every whitespace indent / start_indent, both "
              "indent_braces, any flags / single_line, names without CR/LF or newline_keys), C01_roundtrip_root (any number of "
              "top-level keyvalues), C01_roundtrip_single_block, C01_tokens / C01_tokens_root (the token stream of the "
              "serialised text - kinds, values, line numbers - is a function of the tree alone), C01_ws_indep, and "
              "C01_history_indep / C01_roundtrip_any_history (sessions in the model are evaluated call by call; for the code history "
              "independence is established by the session correspondence), C01_parse_no_internal (the parser machine never reaches a model-only state: invariant proof), "
              "C01_block_names_escaped_needed / C01_unescaped_not_roundtrip / C01_unescaped_alters_name (the writer that "
              "leaves block names raw - the defect fixed in /repo - is not invertible). C01_gen_cfg / C01_gen_shape / "
              "C01_gen_tables tie the writer (which fields are escaped, the text templates; also whether parse guards its flag-replace test) and the tables to keyvalues.py / "
              "tokenizer.py through the translator; the parser control flow is tied by a differential run of serialise text "
              "and parse results / error ids / line numbers.")
LEVEL_NOTE = ("Trusted: Lean kernel + propext/Classical.choice/Quot.sound; tools/gen_kvser.py, tools/gen_tok.py; the "
              "correspondence harness. Chunked / file-object input relies on C03 (chunk independence); the Cython "
              "tokenizer twin is not covered.")
TECHNIQUE = ("Lean 4 proof by mutual structural induction over the tree (lexing lemma built on C02_inverse, then a "
             "simulation of the parser state machine with the block stack generalised); translator + differential "
             "correspondence + direct round-trip search with tree shrinking")
DESIGN_REF = "DESIGN.md section 6, C01"
