"""C07 — VMF class/name indexes always agree with the entities in the map."""
import itertools, json
from common import codes, uncodes, ddmin

PID = 'C07'
GENS = ['c07']
DRIVERS = ['drv_c07']
PROPS = 'Srctools.Props.C07'
RULE = ("a case = one history (operation sequence) on one or two VMF objects, observed after EVERY operation: "
        "sorted dumps of by_class / by_target (empty sets dropped), the entities list, every entity's keyvalues "
        "and list(search(q)) for 19 queries, compared with the Lean model and with a direct scan of "
        "vmf.entities + worldspawn. exhaustive part: all histories of length <= L (3 quick, 4 thorough) over a 17-operation "
        "alphabet acting on one mixed-case entity; random part: histories of length <= 40 over create/construct/add/"
        "add_ents/remove/[]=/del/pop(+default)/popitem/clear(_keys)/update (mapping, pairs, kwargs, mixed)/setdefault/|=/keys=/"
        "keys-view deletion/make_unique/copy (same and other map)/VMF.parse/iterate an "
        "index while mutating, names from pools with 3 spellings of each name, '' and absent. non-trivial = at least "
        "one mutation of an entity whose class or name is not already case-folded; distinct by content.")
TRUSTED = ["model: lean/Srctools/Model/C07.lean (indexes as relations key x entity; str.casefold abstract in the theorems, "
           "ASCII lower-casing + per-character table in the driver); call-site shapes regenerated from vmf.py by tools/gen_c07.py",
           "entity objects are identified with their creation order per map; CopySet iteration order is not part of the property "
           "(loop bodies used by the generator commute)"]
NOT_MODELLED = ['callers mutating the dict returned by the deprecated Entity.keys getter (documented private)',
                'nodeid bookkeeping, entity ids, solids/outputs/fixups (none touches an index)',
                'set-object identity of a CopySet that is emptied and re-created while being iterated',
                'iteration of search() results while mutating']
ASSUMPTIONS = ["str.casefold is idempotent and fixes 'classname', 'targetname', 'worldspawn' (theorem hypothesis FoldOK)",
               "setdefault / |= are the mixins inherited from MutableMapping (no override): audited by the translator on every run",
               "API preconditions (theorem hypothesis Valid): add_ent/add_ents are given entities constructed for this map, "
               "not already in it and not the worldspawn; operations name existing entity objects"]

CLS_KEYS = ['classname', 'Classname', 'CLASSNAME']
TGT_KEYS = ['targetname', 'TargetName', 'TARGETNAME']
OTHER_KEYS = ['origin', 'Origin', 'angles']
NAMES = ['foo', 'Foo', 'FOO', 'bar', 'Bar', 'bAR', 'baz7', 'Baz7', 'foo1', 'FOO1', 'Foo2', '', '', 'straße', 'STRASSE', '7']
CLASSES = ['info_target', 'Info_Target', 'INFO_TARGET', 'func_door', 'Func_Door', 'worldspawn', 'WorldSpawn',
           'info_null', 'Info_Null', 'foo', 'Foo', '']
QUERIES = ['foo', 'FOO', 'fo*', 'Foo*', 'bar', 'baz7', 'baz*', '*', 'f*', 'foo1', 'info_target', 'Info_Target',
           'worldspawn', 'func_door', 'info_null', '', 'strasse', 'STRAßE', '7']
FOLD_TABLE = [[ord(c), codes(c.casefold())] for c in sorted(set(''.join(NAMES + CLASSES + QUERIES))) if ord(c) > 127]


def _kvs(pairs):
    return [[codes(k), codes(v)] for k, v in pairs]


def _unkvs(kvs):
    return [(uncodes(k), uncodes(v)) for k, v in kvs]


# --------------------------------------------------------------------------- implementation side

class World:
    """Two VMFs and every Entity object made for each, in creation order (index = model id)."""

    def __init__(self):
        import warnings
        warnings.simplefilter('ignore', DeprecationWarning)   # Entity.keys property (deprecated, still public)
        from srctools.vmf import VMF
        self.maps = [VMF(), VMF()]
        self.objs = [[self.maps[0].spawn], [self.maps[1].spawn]]

    def loose(self, m):
        vmf = self.maps[m]
        inmap = {id(e) for e in vmf.entities}
        return [i for i, o in enumerate(self.objs[m]) if o is not None and id(o) not in inmap and o is not vmf.spawn]


class _Skip(Exception):
    pass


def _err(exc):
    if isinstance(exc, ValueError):
        return 1
    if isinstance(exc, TypeError) and 'unsupported operand' in str(exc):
        return 4
    if isinstance(exc, KeyError):
        return 2 if exc.args else 3
    return 'exc:' + type(exc).__name__


def apply_impl(W, op):
    """Run one operation on the implementation. Returns the result code, or None when the operation
    is not applicable (only happens for shrunk histories: unknown handle, add of a non-loose entity)."""
    from srctools.vmf import VMF, Entity
    from srctools import Keyvalues
    m = op['m']
    vmf, objs = W.maps[m], W.objs[m]
    kind = op['op']

    def ent():
        e = op['e']
        if not (0 <= e < len(objs)) or objs[e] is None:
            raise _Skip
        return objs[e]

    def act_on(vmf, objs, e, act):
        a = act['a']
        if a == 'set':
            e[uncodes(act['k'])] = uncodes(act['v'])
        elif a == 'del':
            del e[uncodes(act['k'])]
        elif a == 'pop':
            e.pop(uncodes(act['k']))
        elif a == 'remove':
            e.remove()
        elif a == 'clear':
            e.clear()
        elif a == 'create':
            objs.append(vmf.create_ent(uncodes(act['cls']), **dict(_unkvs(act['kw']))))

    try:
        if kind == 'construct':
            objs.append(Entity(vmf, keys=dict(_unkvs(op['kvs']))))
        elif kind == 'add':
            if op['e'] not in W.loose(m):
                return None
            vmf.add_ent(ent())
        elif kind == 'adds':
            lo = W.loose(m)
            if len(set(op['es'])) != len(op['es']) or any(e not in lo for e in op['es']):
                return None
            vmf.add_ents(objs[e] for e in op['es'])
        elif kind == 'create':
            objs.append(vmf.create_ent(uncodes(op['cls']), **dict(_unkvs(op['kw']))))
        elif kind == 'remove':
            if op.get('via') == 'vmf':
                vmf.remove_ent(ent())
            else:
                ent().remove()
        elif kind == 'set':
            ent()[uncodes(op['k'])] = uncodes(op['v'])
        elif kind == 'del':
            ks = [uncodes(k) for k in op['ks']]
            e = ent()
            if len(ks) == 1 and not op.get('tuple'):
                del e[ks[0]]
            else:
                del e[tuple(ks)]
        elif kind == 'pop':
            if 'default' in op:
                ent().pop(uncodes(op['k']), uncodes(op['default']))
            else:
                ent().pop(uncodes(op['k']))
        elif kind == 'popitem':
            ent().popitem()
        elif kind == 'clear':
            if op.get('alias'):
                ent().clear_keys()
            else:
                ent().clear()
        elif kind == 'update':
            pairs = _unkvs(op['kvs'])
            form = op.get('form', 'map')
            if form == 'pairs':
                ent().update(iter(pairs))
            elif form == 'kwargs':
                ent().update(**dict(pairs))
            elif form == 'mixed':
                ent().update(dict(pairs[:1]), **dict(pairs[1:]))
            else:
                ent().update(dict(pairs))
        elif kind == 'setdefault':
            ent().setdefault(uncodes(op['k']), uncodes(op['v']))
        elif kind == 'ior':
            e = ent()
            e |= dict(_unkvs(op['kvs']))
        elif kind == 'setkeys':
            ent().keys = dict(_unkvs(op['kvs']))
        elif kind == 'deleach':
            e = ent()
            for k in list(e.keys()):
                try:
                    del e[k]
                except KeyError:
                    pass
        elif kind == 'unique':
            ent().make_unique(uncodes(op['pre']))
        elif kind == 'copy':
            objs.append(ent().copy())
        elif kind == 'copyx':
            W.objs[1 - m].append(ent().copy(vmf_file=W.maps[1 - m]))
        elif kind == 'parse':
            tree = Keyvalues.root(
                Keyvalues('world', [Keyvalues(k, v) for k, v in _unkvs(op['spawn'])]),
                *[Keyvalues('entity', [Keyvalues(k, v) for k, v in _unkvs(kv)]) for kv in op['ents']])
            new = VMF.parse(tree)
            W.maps[m] = new
            W.objs[m] = [None, new.spawn] + list(new.entities)
        elif kind in ('iterc', 'itert'):
            index = vmf.by_class if kind == 'iterc' else vmf.by_target
            key = None if op['key'] is None else uncodes(op['key'])
            for e in index[key]:
                try:
                    act_on(vmf, objs, e, op['act'])
                except (ValueError, KeyError):
                    pass
        else:
            raise AssertionError(kind)
    except _Skip:
        return None
    except Exception as exc:
        return _err(exc)
    return 0


def _handle(W, m, e):
    objs = W.objs[m]
    for i, o in enumerate(objs):
        if o is e:
            return i
    if objs and objs[0] is None:
        objs[0] = e            # the placeholder worldspawn made by VMF.__init__ inside VMF.parse
        return 0
    return -1


def _keysort(kv):
    return (kv[0] is not None, kv[0] or [])


def observe(W, res):
    maps, srch = [], []
    for m in (0, 1):
        vmf = W.maps[m]
        h = lambda e: _handle(W, m, e)
        cls = sorted([codes(k), sorted(h(e) for e in s)] for k, s in list(vmf.by_class.items()) if s)
        tgt = sorted(([None if k is None else codes(k), sorted(h(e) for e in s)]
                      for k, s in list(vmf.by_target.items()) if s), key=_keysort)
        maps.append({
            'spawn': h(vmf.spawn),
            'ents': [h(e) for e in vmf.entities],
            'objs': [None if o is None else [[codes(k), codes(v)] for k, v in list(o.items())] for o in W.objs[m]],
            'cls': cls, 'tgt': tgt})
        found = []
        for q in QUERIES:
            try:
                found.append(sorted(h(e) for e in vmf.search(q)))
            except Exception as exc:
                found.append('exc:' + type(exc).__name__)
        srch.append(found)
    return {'res': res, 'maps': maps, 'search': srch}


def canon_model(step):
    """Model observation -> same canonical form."""
    maps = []
    for d in step['maps']:
        def group(pairs):
            g = {}
            for k, e in pairs:
                g.setdefault(None if k is None else tuple(k), []).append(e)
            return sorted(([None if k is None else list(k), sorted(v)] for k, v in g.items()), key=_keysort)
        maps.append({'spawn': d['spawn'], 'ents': d['ents'], 'objs': d['objs'],
                     'cls': group(d['cls']), 'tgt': group(d['tgt'])})
    return {'res': step['res'], 'maps': maps, 'search': [[sorted(r) for r in s] for s in step['search']]}


def _same(impl, model):
    if impl['res'] != model['res'] or impl['search'] != model['search']:
        return False
    for a, b in zip(impl['maps'], model['maps']):
        for f in ('spawn', 'ents', 'cls', 'tgt'):
            if a[f] != b[f]:
                return False
        if len(a['objs']) != len(b['objs']):
            return False
        for x, y in zip(a['objs'], b['objs']):
            if x is not None and x != y:
                return False
    return True


# --------------------------------------------------------------------------- the property, stated directly

def oracle(W, op=None, res=None):
    """Returns a list of (key, message) — empty when the property holds in the current state."""
    bad = []
    for m in (0, 1):
        vmf = W.maps[m]
        present = list(vmf.entities) + [vmf.spawn]
        want_c, want_t = {}, {}
        for e in present:
            want_c.setdefault(e['classname'].casefold(), set()).add(id(e))
            want_t.setdefault(e['targetname'].casefold() or None, set()).add(id(e))
        for name, index, want in (('by_class', vmf.by_class, want_c), ('by_target', vmf.by_target, want_t)):
            got = {k: {id(e) for e in s} for k, s in list(index.items()) if s}
            for k in set(got) | set(want):
                g, w = got.get(k, set()), want.get(k, set())
                if g - w:
                    bad.append(('index-stale', f'map {m}: {name}[{k!r}] returns {len(g - w)} entity(ies) that are not in the map under that key'))
                if w - g:
                    bad.append(('index-missing', f'map {m}: {name}[{k!r}] misses {len(w - g)} entity(ies) of the map'))
        if vmf.spawn not in vmf.by_class.get('worldspawn', ()):
            bad.append(('spawn', f"map {m}: worldspawn is not in by_class['worldspawn']"))
        if vmf.spawn['classname'].casefold() != 'worldspawn':
            bad.append(('spawn', f"map {m}: worldspawn has classname {vmf.spawn['classname']!r}"))
        for q in QUERIES:
            try:
                got = {id(e) for e in vmf.search(q)}
            except Exception as exc:
                bad.append(('search', f'map {m}: search({q!r}) raised {type(exc).__name__}'))
                continue
            n = q.casefold()
            want = set()
            if q:
                for e in present:
                    nm, cl = e['targetname'].casefold(), e['classname'].casefold()
                    if n.endswith('*'):
                        ok = bool(nm) and nm.startswith(n[:-1])
                    else:
                        ok = (bool(nm) and nm == n) or cl == n
                    if ok:
                        want.add(id(e))
            if got != want:
                bad.append(('search', f'map {m}: search({q!r}) returns {len(got - want)} wrong and misses {len(want - got)} entities'))
    if isinstance(res, str):
        bad.append(('exception', f'operation {op and op["op"]} raised {res}'))
    if op is not None and op['op'] == 'set' and res == 0:
        # a worldspawn may only be given a class that folds to worldspawn
        vmf = W.maps[op['m']]
        objs = W.objs[op['m']]
        if 0 <= op['e'] < len(objs) and objs[op['e']] is vmf.spawn and uncodes(op['k']).casefold() == 'classname' \
                and uncodes(op['v']).casefold() != 'worldspawn':
            bad.append(('spawn', 'worldspawn was given another class without an error'))
    return bad


def run_impl(ops, want_obs=False):
    """Run a history on fresh maps. Returns (executed ops, observations, first failure or None)."""
    W = World()
    done, obs, fail = [], [], None
    if want_obs:
        obs.append(observe(W, 0))
    for i, op in enumerate(ops):
        res = apply_impl(W, op)
        if res is None:
            continue
        done.append(op)
        if want_obs:
            obs.append(observe(W, res))
        if fail is None:
            bad = oracle(W, op, res)
            if bad:
                fail = (len(done) - 1, bad)
                if not want_obs:
                    break
    return done, obs, fail


# --------------------------------------------------------------------------- generators

def _pick_kvs(rng, n):
    out, seen = [], set()
    for _ in range(n):
        r = rng.random()
        if r < 0.45:
            k, v = rng.choice(TGT_KEYS), rng.choice(NAMES)
        elif r < 0.75:
            k, v = rng.choice(CLS_KEYS), rng.choice(CLASSES)
        else:
            k, v = rng.choice(OTHER_KEYS), rng.choice(['0 0 0', '1', ''])
        if k not in seen:
            seen.add(k)
            out.append((k, v))
    return out


def _kwargs(rng):
    """keyword arguments of create_ent (no exact 'classname')."""
    return [(k, v) for k, v in _pick_kvs(rng, rng.choice([0, 1, 1, 2])) if k != 'classname']


def _act(rng):
    r = rng.random()
    if r < 0.3:
        return {'a': 'set', 'k': codes(rng.choice(CLS_KEYS)), 'v': codes(rng.choice(CLASSES))}
    if r < 0.6:
        return {'a': 'set', 'k': codes(rng.choice(TGT_KEYS)), 'v': codes(rng.choice(NAMES))}
    if r < 0.7:
        return {'a': 'del', 'k': codes(rng.choice(TGT_KEYS))}
    if r < 0.78:
        return {'a': 'pop', 'k': codes(rng.choice(TGT_KEYS + CLS_KEYS))}
    if r < 0.9:
        return {'a': 'remove'}
    if r < 0.94:
        return {'a': 'clear'}
    return {'a': 'create', 'cls': codes(rng.choice(CLASSES)), 'kw': _kvs(_kwargs(rng))}


KINDS = [('setdefault', 5), ('ior', 1), ('setkeys', 2), ('deleach', 1), ('create', 16), ('construct', 4), ('add', 7), ('adds', 2), ('remove', 9), ('set', 22), ('del', 6), ('pop', 6),
         ('popitem', 1), ('clear', 3), ('update', 4), ('unique', 6), ('copy', 3), ('copyx', 4), ('parse', 1),
         ('iterc', 4), ('itert', 4)]


def gen_op(rng, W, nmaps):
    m = rng.randrange(nmaps)
    objs = W.objs[m]
    kind = rng.choices([k for k, _ in KINDS], [w for _, w in KINDS])[0]
    live = [i for i, o in enumerate(objs) if o is not None]
    # mostly non-worldspawn entities
    def some_ent():
        c = [i for i in live if objs[i] is not W.maps[m].spawn]
        if not c or rng.random() < 0.08:
            return rng.choice(live)
        return rng.choice(c)
    if kind == 'copyx' and nmaps < 2:
        kind = 'copy'
    if kind in ('add', 'adds'):
        lo = W.loose(m)
        if not lo:
            kind = 'create'
        elif kind == 'add':
            return {'m': m, 'op': 'add', 'e': rng.choice(lo)}
        else:
            return {'m': m, 'op': 'adds', 'es': rng.sample(lo, rng.randrange(0, min(3, len(lo)) + 1))}
    if kind == 'create':
        return {'m': m, 'op': 'create', 'cls': codes(rng.choice(CLASSES)), 'kw': _kvs(_kwargs(rng))}
    if kind == 'construct':
        return {'m': m, 'op': 'construct', 'kvs': _kvs(_pick_kvs(rng, rng.randrange(0, 4)))}
    if kind == 'remove':
        return {'m': m, 'op': 'remove', 'e': some_ent(), 'via': rng.choice(['ent', 'vmf'])}
    if kind == 'set':
        r = rng.random()
        if r < 0.45:
            k, v = rng.choice(TGT_KEYS), rng.choice(NAMES)
        elif r < 0.85:
            k, v = rng.choice(CLS_KEYS), rng.choice(CLASSES)
        else:
            k, v = rng.choice(OTHER_KEYS), rng.choice(['0 0 0', '1', ''])
        return {'m': m, 'op': 'set', 'e': some_ent(), 'k': codes(k), 'v': codes(v)}
    if kind == 'del':
        n = rng.choice([1, 1, 1, 2])
        ks = [rng.choice(TGT_KEYS + TGT_KEYS + OTHER_KEYS + CLS_KEYS[:1]) for _ in range(n)]
        return {'m': m, 'op': 'del', 'e': some_ent(), 'ks': [codes(k) for k in ks], 'tuple': rng.random() < 0.3}
    if kind == 'pop':
        op = {'m': m, 'op': 'pop', 'e': some_ent(), 'k': codes(rng.choice(TGT_KEYS + TGT_KEYS + CLS_KEYS + OTHER_KEYS))}
        if rng.random() < 0.4:
            op['default'] = codes(rng.choice(NAMES))
        return op
    if kind == 'clear':
        return {'m': m, 'op': 'clear', 'e': some_ent(), 'alias': rng.random() < 0.3}
    if kind in ('popitem', 'copy', 'copyx', 'deleach'):
        return {'m': m, 'op': kind, 'e': some_ent()}
    if kind == 'update':
        # mapping / iterable-of-pairs / keyword / mapping+keyword forms of MutableMapping.update
        return {'m': m, 'op': 'update', 'e': some_ent(), 'kvs': _kvs(_pick_kvs(rng, rng.randrange(0, 4))),
                'form': rng.choice(['map', 'pairs', 'kwargs', 'mixed'])}
    if kind == 'setdefault':
        r = rng.random()
        if r < 0.55:
            k, v = rng.choice(TGT_KEYS), rng.choice(NAMES)
        elif r < 0.9:
            k, v = rng.choice(CLS_KEYS), rng.choice(CLASSES)
        else:
            k, v = rng.choice(OTHER_KEYS), '1'
        return {'m': m, 'op': 'setdefault', 'e': some_ent(), 'k': codes(k), 'v': codes(v)}
    if kind in ('ior', 'setkeys'):
        return {'m': m, 'op': kind, 'e': some_ent(), 'kvs': _kvs(_pick_kvs(rng, rng.randrange(0, 4)))}
    if kind == 'unique':
        return {'m': m, 'op': 'unique', 'e': some_ent(), 'pre': codes(rng.choice(['', 'foo', 'Foo', 'ent', 'bar7']))}
    if kind == 'parse':
        return {'m': m, 'op': 'parse', 'spawn': _kvs(_pick_kvs(rng, rng.randrange(0, 3))),
                'ents': [_kvs(_pick_kvs(rng, rng.randrange(0, 4))) for _ in range(rng.randrange(0, 4))]}
    if kind == 'iterc':
        keys = [k for k in W.maps[m].by_class] + CLASSES
        return {'m': m, 'op': 'iterc', 'key': codes(rng.choice(keys)), 'act': _act(rng)}
    if kind == 'itert':
        keys = [k for k in W.maps[m].by_target] + NAMES + [None]
        k = rng.choice(keys)
        return {'m': m, 'op': 'itert', 'key': None if k is None else codes(k), 'act': _act(rng)}
    raise AssertionError(kind)


def gen_history(rng):
    """Generate a history online (each operation is chosen looking at the implementation state)."""
    W = World()
    nmaps = rng.choice([1, 1, 2])
    n = rng.randrange(1, 41)
    ops = []
    for _ in range(n):
        op = gen_op(rng, W, nmaps)
        if apply_impl(W, op) is not None:
            ops.append(op)
    return ops


def _c(s):
    return codes(s)


ALPHABET = [
    {'m': 0, 'op': 'create', 'cls': _c('Func_Door'), 'kw': _kvs([('targetname', 'Foo')])},
    {'m': 0, 'op': 'create', 'cls': _c('func_door'), 'kw': []},
    {'m': 0, 'op': 'construct', 'kvs': _kvs([('TargetName', 'Foo'), ('classname', 'Func_Door')])},
    {'m': 0, 'op': 'add', 'e': 1},
    {'m': 0, 'op': 'remove', 'e': 1},
    {'m': 0, 'op': 'set', 'e': 1, 'k': _c('classname'), 'v': _c('Info_Null')},
    {'m': 0, 'op': 'set', 'e': 1, 'k': _c('TargetName'), 'v': _c('Bar')},
    {'m': 0, 'op': 'set', 'e': 1, 'k': _c('targetname'), 'v': _c('')},
    {'m': 0, 'op': 'del', 'e': 1, 'ks': [_c('targetname')]},
    {'m': 0, 'op': 'pop', 'e': 1, 'k': _c('targetname')},
    {'m': 0, 'op': 'pop', 'e': 1, 'k': _c('classname')},
    {'m': 0, 'op': 'clear', 'e': 1},
    {'m': 0, 'op': 'unique', 'e': 1, 'pre': _c('foo')},
    {'m': 0, 'op': 'set', 'e': 0, 'k': _c('targetname'), 'v': _c('World')},
    {'m': 0, 'op': 'set', 'e': 0, 'k': _c('classname'), 'v': _c('func_door')},
    {'m': 0, 'op': 'itert', 'key': _c('foo'), 'act': {'a': 'set', 'k': _c('targetname'), 'v': _c('FOO')}},
    {'m': 0, 'op': 'setdefault', 'e': 1, 'k': _c('TargetName'), 'v': _c('Baz')},
]


def gen_exhaustive(L):
    for n in range(1, L + 1):
        for t in itertools.product(range(len(ALPHABET)), repeat=n):
            yield [ALPHABET[i] for i in t]


FIXED = [
    # VMF.parse alone and followed by edits
    [{'m': 0, 'op': 'parse', 'spawn': _kvs([('classname', 'worldspawn')]), 'ents': [_kvs([('classname', 'Info_Target'), ('targetname', 'Foo')])]}],
    [{'m': 0, 'op': 'parse', 'spawn': _kvs([('targetname', 'World'), ('classname', 'WorldSpawn')]), 'ents': []},
     {'m': 0, 'op': 'set', 'e': 1, 'k': _c('targetname'), 'v': _c('')}],
    [{'m': 0, 'op': 'remove', 'e': 0}],
    # setdefault on an unnamed entity in the map / on a class-less entity / on a copy in the other map
    [{'m': 0, 'op': 'create', 'cls': _c('info_target'), 'kw': []},
     {'m': 0, 'op': 'setdefault', 'e': 1, 'k': _c('TargetName'), 'v': _c('Baz')}, {'m': 0, 'op': 'remove', 'e': 1}],
    [{'m': 0, 'op': 'construct', 'kvs': []}, {'m': 0, 'op': 'add', 'e': 1},
     {'m': 0, 'op': 'setdefault', 'e': 1, 'k': _c('classname'), 'v': _c('Func_Door')}, {'m': 0, 'op': 'remove', 'e': 1}],
    [{'m': 0, 'op': 'create', 'cls': _c('info_null'), 'kw': []}, {'m': 0, 'op': 'copyx', 'e': 1}, {'m': 1, 'op': 'add', 'e': 1},
     {'m': 1, 'op': 'setdefault', 'e': 1, 'k': _c('targetname'), 'v': _c('clone')},
     {'m': 1, 'op': 'set', 'e': 1, 'k': _c('targetname'), 'v': _c('x')}, {'m': 1, 'op': 'remove', 'e': 1}],
    [{'m': 0, 'op': 'create', 'cls': _c('a'), 'kw': []}, {'m': 0, 'op': 'ior', 'e': 1, 'kvs': _kvs([('targetname', 'Foo')])},
     {'m': 0, 'op': 'setkeys', 'e': 1, 'kvs': _kvs([('TargetName', 'Foo'), ('classname', 'B')])}, {'m': 0, 'op': 'deleach', 'e': 1}],
    [{'m': 0, 'op': 'create', 'cls': _c('a'), 'kw': _kvs([('targetname', 'x')])}, {'m': 0, 'op': 'copyx', 'e': 1},
     {'m': 1, 'op': 'add', 'e': 1}, {'m': 1, 'op': 'set', 'e': 1, 'k': _c('targetname'), 'v': _c('Y')}, {'m': 0, 'op': 'remove', 'e': 1}],
]


def _nontrivial(ops):
    def mixed(x):
        s = uncodes(x) if x is not None else ''
        return s != s.casefold()
    for op in ops:
        for f in ('cls', 'v'):
            if f in op and mixed(op[f]):
                return True
        for f in ('kw', 'kvs', 'spawn'):
            if any(mixed(v) for _, v in op.get(f, [])):
                return True
    return False


# --------------------------------------------------------------------------- check entry points

def _corpus():
    """witnesses of every recorded finding (fixed ones must pass from now on)."""
    import common
    for k in common.load_known(PID):
        ops = (k.get('witness') or {}).get('ops')
        if ops:
            yield ops
            # and the same history followed by removing the entity / renaming it again
            yield ops + [{'m': 0, 'op': 'remove', 'e': 1}]
            yield ops + [{'m': 0, 'op': 'set', 'e': 1, 'k': codes('TargetName'), 'v': codes('Baz')},
                         {'m': 0, 'op': 'set', 'e': 1, 'k': codes('ClassName'), 'v': codes('Info_Target')},
                         {'m': 0, 'op': 'remove', 'e': 1}]


def _histories(ctx):
    L = ctx.budget(3, 4)
    for h in _corpus():
        yield 'corpus', h
    for h in FIXED:
        yield 'fixed', h
    for h in gen_exhaustive(L):
        yield 'exhaustive', h
    for _ in range(ctx.budget(1500, 15000)):
        yield 'random', gen_history(ctx.rng)


def _record_witness(ctx, ops, fail):
    idx, bad = fail
    key, msg = bad[0]
    ctx.witness(key, f'after operation {idx + 1} of {len(ops)} ({ops[idx]["op"]}): {msg}', {'ops': ops, 'at': idx})


def correspond(ctx, drivers):
    drv = drivers['drv_c07']
    ctx.exhaustive = False
    ctx.extra['exhaustive_part'] = f'all histories of length <= {ctx.budget(3, 4)} over the {len(ALPHABET)}-operation alphabet'
    batch, meta = [], []

    def flush():
        if not batch:
            return
        replies = drv.batch(batch)
        for (ops, obs), rep in zip(meta, replies):
            ctx.traces_vs_impl += 1
            if 'error' in rep:
                ctx.disagree({'ops': ops}, None, rep, 'driver error')
                continue
            steps = [canon_model(s) for s in rep['steps']]
            for i, (a, b) in enumerate(zip(obs, steps)):
                if not _same(a, b):
                    ctx.disagree({'ops': ops, 'step': i}, {k: a[k] for k in ('res', 'maps')},
                                 {k: b[k] for k in ('res', 'maps')},
                                 f'observation after operation {i} ({ops[i - 1]["op"] if i else "init"})')
                    break
        batch.clear(); meta.clear()

    for src, ops in _histories(ctx):
        try:
            done, obs, fail = run_impl(ops, want_obs=True)
        except Exception as exc:      # the implementation broke in a way the harness does not expect
            ctx.witness('exception', f'running/observing a history raised {type(exc).__name__}: {exc}', {'ops': ops, 'at': len(ops) - 1})
            ctx.count('harness-exception')
            continue
        if fail is not None and ctx.hist.get('witnesses', 0) < 200:
            _record_witness(ctx, done, fail)
        batch.append({'fold': FOLD_TABLE, 'queries': [codes(q) for q in QUERIES], 'ops': done})
        meta.append((done, obs))
        ctx.case({'ops': done}, nontrivial=_nontrivial(done), sample_every=997)
        ctx.count('histories:' + src)
        ctx.count('len<=%d' % (10 * ((len(done) + 9) // 10)))
        for op in done:
            ctx.count('op:' + op['op'])
            if 'act' in op:
                ctx.count('act:' + op['act']['a'])
        for o in obs[1:]:
            if o['res'] != 0:
                ctx.count('res:%s' % o['res'])
        if any(op['m'] == 1 or op['op'] == 'copyx' for op in done):
            ctx.count('two-map histories')
        if len(batch) >= 400:
            flush()
    flush()


def _fails(ops):
    try:
        return run_impl(ops)[2] is not None
    except Exception:
        return True


def search(ctx):
    """The oracle already ran on every history inside correspond. If the driver was not available run
    it alone; then re-test neighbours of disagreeing histories and shrink the first witness."""
    extra = []
    if ctx.evaluations == 0:
        extra = [h for _, h in _histories(ctx)]
    for d in ctx.disagreements[:20]:
        ops = d['case'].get('ops') or []
        extra.append(ops)
        extra += [ops[:i] + ops[i + 1:] for i in range(len(ops))]
        extra += [ops + [ALPHABET[4]], ops + [ALPHABET[5], ALPHABET[4]]]
    for ops in extra:
        done, _, fail = run_impl(ops)
        if fail is not None and ctx.hist.get('witnesses', 0) < 200:
            _record_witness(ctx, done, fail)
    # shrink one witness per key
    seen = set()
    for w in ctx.witnesses:
        if w['key'] in seen:
            continue
        seen.add(w['key'])
        ops = w['input']['ops'][: w['input']['at'] + 1]
        if _fails(ops):
            small = ddmin(ops, _fails)
            done, _, fail = run_impl(small)
            if fail is not None:
                w['input'] = {'ops': done, 'at': fail[0]}
                w['key'] = fail[1][0][0]
                w['what'] = f'history of {len(done)} operation(s) {[o["op"] for o in done]}: {fail[1][0][1]}'
    ctx.witnesses.sort(key=lambda w: len(w['input']['ops']))


def replay(ctx, payload):
    inp = payload.get('input') or {}
    if 'ops' not in inp:
        print('replay file names a broken obligation/correspondence, no input to replay:',
              payload.get('broken_obligations'), payload.get('disagreements', [])[:1])
        return False
    done, obs, fail = run_impl(inp['ops'], want_obs=True)
    for i, op in enumerate(done):
        print(i + 1, json.dumps(_pretty(op)))
    if fail is None:
        return True
    print('after operation', fail[0] + 1, ':', '; '.join(m for _, m in fail[1][:4]))
    return False


def _pretty(op):
    out = {}
    for k, v in op.items():
        if k in ('cls', 'k', 'v', 'pre') or (k == 'key' and v is not None):
            out[k] = uncodes(v)
        elif k in ('kw', 'kvs', 'spawn'):
            out[k] = _unkvs(v)
        elif k == 'ks':
            out[k] = [uncodes(x) for x in v]
        elif k == 'ents':
            out[k] = [_unkvs(x) for x in v]
        elif k == 'act':
            out[k] = _pretty(v)
        else:
            out[k] = v
    return out


def replay_known(ctx, finding):
    ops = (finding.get('witness') or {}).get('ops')
    if not ops:
        return None
    return run_impl(ops)[2] is not None


LEVEL_TEXT = ("Theorem C07_inv is proved in Lean by induction over arbitrary operation lists (create_ent, Entity(), add_ent, "
              "add_ents, remove_ent, []=, del, pop, popitem, clear, update, make_unique, copy, iteration of an index while "
              "mutating, on one or two maps, and VMF.parse as initial state): in every reachable state by_class/by_target "
              "contain exactly the entities of the map (+worldspawn) under their case-folded class / name (None for unnamed); "
              "C07_search characterises search(); C07_spawn: worldspawn is always indexed under 'worldspawn' and re-classing it "
              "is an error that leaves lookups unchanged. The model's call-site shapes are regenerated from vmf.py on every run "
              "(C07_gen_current) and its control flow is tied by an exhaustive + random differential run observed after every "
              "operation. The as-found code (Fix.none) is proved NOT to satisfy the invariant by concrete histories.")
LEVEL_NOTE = ("Trusted: Lean kernel + propext/Classical.choice/Quot.sound; tools/gen_c07.py; the correspondence harness. "
              "str.casefold is abstract (idempotent, fixes the literals). CopySet iteration order and set-object identity "
              "are not modelled.")
TECHNIQUE = "Lean 4 invariant proof by induction over operation histories; call-site translator; differential correspondence after every operation"
DESIGN_REF = "DESIGN.md section 6, C07"
