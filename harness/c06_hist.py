"""C06 — HISTORIES on one live map: in-place edits through the public API interleaved with exports.

The model's `exportTree` is a pure function of the current map value; the implementation must
agree after every export, whatever was exported or stringified before (no stale caches, no state
left behind by an export).  An operation is a JSON list `[name, selector…, value…]`; selectors are
integers taken modulo the number of candidates at the time the operation is applied, so that any
sub-list of a history is again a valid history (needed for shrinking) and a history is replayable
from (map seed, profile, operation list).
"""
from __future__ import annotations
import random
import c06_gen as G


def _faces(vmf):
    out = []
    for e in [vmf.spawn] + list(vmf.entities):
        for s in e.solids:
            out.extend(s.sides)
    return out


def _solids(vmf):
    out = []
    for e in [vmf.spawn] + list(vmf.entities):
        out.extend(e.solids)
    return out


def _pick(lst, i):
    return lst[i % len(lst)] if lst else None


def _pz(v):
    """-0.0 and tiny negatives (written as "-0") -> 0.0 in a mutable vector: a rotation produces them and
    their export is the separate, recorded finding `negative-zero`, so histories stay clear of it."""
    for a in 'xyz':
        if abs(getattr(v, a)) < 1e-6:
            setattr(v, a, 0.0)


def _no_neg_zero(solid):
    for f in solid.sides:
        for p in f.planes:
            _pz(p)
        for ax in (f.uaxis, f.vaxis):
            _pz(ax)
            if abs(ax.offset) < 1e-6:
                ax.offset = 0.0
        if f.is_disp:
            _pz(f.disp_pos)
            for v in f._disp_verts:
                _pz(v.normal)
                _pz(v.offset)
                _pz(v.offset_norm)


def gen_ops(rng: random.Random, n: int):
    """A random operation list (values are plain numbers / short identifier strings)."""
    ops = []
    r = lambda: rng.randrange(1 << 16)
    num = lambda: rng.choice([rng.randint(-256, 256), rng.randint(-2048, 2048) / 8.0, round(rng.uniform(-512, 512), 3)]) + 0
    for _ in range(n):
        k = rng.random()
        if k < 0.14:
            ops.append(['translate_solid', r(), num(), num(), num()])
        elif k < 0.22:
            ops.append(['translate_side', r(), num(), num(), num()])
        elif k < 0.28:
            ops.append(['localise_solid', r(), num(), num(), num(), rng.choice([0, 90, 45, 17.5]), rng.choice([0, 90, 270, 33.0]), rng.choice([0, 0, 180])])
        elif k < 0.34:
            ops.append(['side_scale', r(), rng.choice([0.25, 0.5, 1.0, 0.125, round(rng.uniform(0.05, 4), 3)])])
        elif k < 0.40:
            ops.append(['side_offset', r(), num()])
        elif k < 0.46:
            ops.append(['axis_attr', r(), rng.choice(['uaxis', 'vaxis']), rng.choice(['x', 'y', 'z', 'offset', 'scale']),
                        rng.choice([0.25, 1.0, -1.0, 0.5, num() or 1.0])])
        elif k < 0.52:
            ops.append(['plane_iadd', r(), rng.randrange(3), num(), num(), num()])
        elif k < 0.58:
            ops.append(['set_key', r(), rng.choice(['targetname', 'origin', 'k1', 'Spawnflags', 'message']), G.ident(rng) if rng.random() < 0.6 else G.value_text(rng)])
        elif k < 0.61:
            ops.append(['del_key', r(), r()])
        elif k < 0.65:
            ops.append(['set_fixup', r(), G.ident(rng), G.ident(rng)])
        elif k < 0.70:
            ops.append(['out_edit', r(), r(), rng.choice(['params', 'delay', 'target', 'times', 'input']), rng.choice([G.ident(rng), 0.5, 3, 'a,b'])])
        elif k < 0.73:
            ops.append(['out_add', r(), G.ident(rng), G.ident(rng), G.ident(rng), rng.random() < 0.5])
        elif k < 0.80:
            ops.append(['vert_edit', r(), r(), r(), rng.choice(['alpha', 'distance', 'normal', 'offset', 'blend', 'tri']), num(), num(), num()])
        elif k < 0.84:
            ops.append(['vis_toggle', r(), rng.choice([1, 2, 3, 7, 15]), rng.random() < 0.5])
        elif k < 0.87:
            ops.append(['hide_toggle', r(), rng.random() < 0.5])
        elif k < 0.91:
            ops.append(['vec_iadd', rng.choice(['cam_pos', 'cam_look', 'cordon_min', 'cordon_max', 'disp_pos', 'color']), r(), num(), num(), num()])
        elif k < 0.94:
            ops.append(['setting', rng.choice(['show_grid', 'snap_grid', 'grid_spacing', 'quickhide_count', 'active_cam', 'cordon_enabled']), rng.choice([0, 1, 3, 64])])
        elif k < 0.97:
            ops.append(['vis_edit', r(), G.ident(rng), rng.randint(0, 255)])
        else:
            ops.append(['stringify', r()])
    return ops


def apply_op(vmf, op):
    """Apply one operation to the live map (silently does nothing when its target does not exist)."""
    _, V, Vec, Angle, _ = G.S()
    name = op[0]
    try:
        if name == 'translate_solid':
            s = _pick(_solids(vmf), op[1])
            if s is not None:
                s.translate(Vec(op[2], op[3], op[4]))
        elif name == 'translate_side':
            f = _pick(_faces(vmf), op[1])
            if f is not None:
                f.translate(Vec(op[2], op[3], op[4]))
        elif name == 'localise_solid':
            s = _pick(_solids(vmf), op[1])
            if s is not None:
                s.localise(Vec(op[2], op[3], op[4]), Angle(op[5], op[6], op[7]))
                _no_neg_zero(s)
        elif name == 'side_scale':
            f = _pick(_faces(vmf), op[1])
            if f is not None:
                f.scale = op[2]
        elif name == 'side_offset':
            f = _pick(_faces(vmf), op[1])
            if f is not None:
                f.offset = op[2]
        elif name == 'axis_attr':
            f = _pick(_faces(vmf), op[1])
            if f is not None:
                val = float(op[4])
                if op[3] == 'scale' and val == 0:
                    val = 0.25
                setattr(getattr(f, op[2]), op[3], val)
        elif name == 'plane_iadd':
            f = _pick(_faces(vmf), op[1])
            if f is not None:
                f.planes[op[2]] += Vec(op[3], op[4], op[5])
        elif name == 'set_key':
            e = _pick([vmf.spawn] + list(vmf.entities), op[1])
            e[op[2]] = op[3]
        elif name == 'del_key':
            e = _pick(list(vmf.entities), op[1])
            if e is not None:
                keys = [k for k in e if k.casefold() not in ('classname',)]
                k = _pick(keys, op[2])
                if k is not None:
                    del e[k]
        elif name == 'set_fixup':
            e = _pick(list(vmf.entities), op[1])
            if e is not None:
                e.fixup[op[2]] = op[3]
        elif name == 'out_edit':
            e = _pick([x for x in vmf.entities if x.outputs], op[1])
            if e is not None:
                o = _pick(e.outputs, op[2])
                fld, val = op[3], op[4]
                if fld == 'delay':
                    o.delay = float(val) if not isinstance(val, str) else 1.5
                elif fld == 'times':
                    o.times = int(val) if not isinstance(val, str) else 1
                else:
                    sval = str(val)
                    if fld != 'params':
                        sval = sval.replace(',', '_')
                    setattr(o, fld, sval)
        elif name == 'out_add':
            e = _pick(list(vmf.entities), op[1])
            if e is not None:
                e.add_out(V.Output(op[2], op[3], op[4], comma_sep=bool(op[5])))
        elif name == 'vert_edit':
            f = _pick([x for x in _faces(vmf) if x.is_disp], op[1])
            if f is not None:
                size = f.disp_size
                v = f[op[2] % size, op[3] % size]
                what = op[4]
                if what == 'alpha':
                    v.alpha = abs(float(op[5])) % 256
                elif what == 'distance':
                    v.distance = float(op[5])
                elif what == 'normal':
                    v.normal = Vec(op[5], op[6], op[7])
                elif what == 'offset':
                    v.offset += Vec(op[5], op[6], op[7])
                elif what == 'blend':
                    v.multi_blend = V.Vec4(float(op[5]), 0.0, float(op[6]), 1.0)
                else:
                    v.triangle_a = V.TriangleTag.WALKABLE
                    v.triangle_b = V.TriangleTag.STEEP
        elif name == 'vis_toggle':
            objs = list(vmf.entities) + list(vmf.brushes)
            x = _pick(objs, op[1])
            if x is not None:
                if op[3]:
                    x.visgroup_ids.add(op[2])
                else:
                    x.visgroup_ids.discard(op[2])
        elif name == 'hide_toggle':
            objs = list(vmf.entities) + _solids(vmf)
            x = _pick(objs, op[1])
            if x is not None:
                x.hidden = bool(op[2])
        elif name == 'vec_iadd':
            d = Vec(op[3], op[4], op[5])
            kind = op[1]
            if kind in ('cam_pos', 'cam_look'):
                c = _pick(vmf.cameras, op[2])
                if c is not None:
                    if kind == 'cam_pos':
                        c.pos += d
                    else:
                        c.target += d
            elif kind in ('cordon_min', 'cordon_max'):
                c = _pick(vmf.cordons, op[2])
                if c is not None:
                    if kind == 'cordon_min':
                        c.bounds_min += d
                    else:
                        c.bounds_max += d
            elif kind == 'disp_pos':
                f = _pick([x for x in _faces(vmf) if x.is_disp], op[2])
                if f is not None:
                    f.disp_pos += d
            else:
                s = _pick(_solids(vmf), op[2])
                if s is not None:
                    s.editor_color = Vec(abs(int(op[3])) % 256, abs(int(op[4])) % 256, abs(int(op[5])) % 256)
        elif name == 'setting':
            if op[1] in ('show_grid', 'snap_grid', 'cordon_enabled'):
                setattr(vmf, op[1], bool(op[2]))
            else:
                setattr(vmf, op[1], int(op[2]))
        elif name == 'vis_edit':
            vis = _pick(vmf.vis_tree, op[1])
            if vis is not None:
                vis.name = op[2]
                vis.color = Vec(op[3], 0, 255 - op[3])
        elif name == 'stringify':
            f = _pick(_faces(vmf), op[1])
            if f is not None:
                str(f.uaxis), str(f.vaxis), str(f), repr(f.uaxis)
    except ZeroDivisionError:
        pass


def hist_profile():
    """Small maps: histories export the map many times."""
    return G.Profile(n_ents=(1, 3), n_brushes=(1, 2), n_ent_solids=(0, 1), max_power=2, p_disp=0.3, n_vis=(0, 2),
                     n_groups=(0, 2), n_cams=(0, 2), n_cordons=(0, 2), p_weird_names=0.2, n_keys=(0, 3), n_outputs=(0, 2))
